#!/bin/bash
# usage: tools_confirm_neutral.sh <dir-with-*.diff> <name>...  - confirms that each refactoring applies to /repo HEAD in a
# scratch worktree, builds and keeps the unedited suite green (one re-run on a timing flake); confirmed ones are copied
# to /verif/neutral/.
src=$1; shift
export GOFLAGS=-mod=mod GOPROXY=off GOSUMDB=off GOTOOLCHAIN=local
for n in "$@"; do
  wt=/tmp/vn/$n; rm -rf $wt; mkdir -p /tmp/vn
  git -C /repo worktree add -q --detach $wt HEAD || { echo "$n: worktree failed"; continue; }
  ( cd $wt
    if ! git apply $src/$n.diff 2>/dev/null; then echo "$n: APPLY_FAIL"; exit; fi
    if ! go build ./... >/dev/null 2>&1; then echo "$n: BUILD_FAIL"; exit; fi
    if go test -vet=off -count=1 ./... >/tmp/vn/$n.log 2>&1 || go test -vet=off -count=1 ./... >/tmp/vn/$n.log 2>&1; then
      cp $src/$n.diff /verif/neutral/$n.diff; echo "$n: confirmed"
    else echo "$n: SUITE_FAIL $(grep -E '^--- FAIL' /tmp/vn/$n.log | tr '\n' ' ')"; fi )
  git -C /repo worktree remove --force $wt
done
