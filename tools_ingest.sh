#!/bin/bash
# usage: tools_ingest.sh <ID>...   (e.g. C01c C01d)  - takes ${MUTOUT:-/tmp/mw2/out}/<ID>, verifies it in a scratch worktree,
# and, if confirmed, files it as /verif/seeded/<ID>/ (patch.diff, demo *.go.txt, DEMO_PATH.txt, meta.json, verify.txt)
for id in "$@"; do
  src=${MUTOUT:-/tmp/mw2/out}/$id
  [ -f "$src/patch.diff" ] || { echo "$id: no patch"; continue; }
  /verif/tools_verify_mutant.sh "$src"
  res=$(grep -E '^(A_DEMO|APPLY|BUILD|B_DEMO|SUITE)_' "$src/verify.txt" | tr '\n' ' ')
  echo "$id: $res"
  if echo "$res" | grep -q 'A_DEMO_PASS' && echo "$res" | grep -q 'APPLY_OK' && echo "$res" | grep -q 'BUILD_OK' && echo "$res" | grep -q 'B_DEMO_FAIL(expected)' && echo "$res" | grep -q 'SUITE_PASS'; then
    dst=/verif/seeded/$id; mkdir -p "$dst"
    cp "$src/patch.diff" "$src/DEMO_PATH.txt" "$src/verify.txt" "$dst/"
    for f in "$src"/*_test.go; do cp "$f" "$dst/$(basename "$f").txt"; done
    python3 - "$id" "$src" "$dst" "$res" <<'P'
import json,sys,subprocess
id,src,dst,res=sys.argv[1:5]
try: m=json.load(open(src+'/meta.json'))
except Exception as e: m={'summary':'(meta.json unreadable: %s)'%e}
props={json.loads(l)['id']:json.loads(l) for l in open('/verif/properties.jsonl')}
pid=id[:3]
out={'id':id,'property':pid,'property_title':props[pid]['title'],'summary':m.get('summary'),'needs':m.get('needs'),
 'demo_cmd':m.get('demo_cmd'),'origin':'written by an independent sub-agent that was given only the property text and its own scratch worktree of /repo (nothing from /verif)',
 'agent_ran':m.get('ran'),
 'confirmed_by_me':{'how':'tools_verify_mutant.sh in a scratch worktree of /repo HEAD (removed afterwards): demo on clean tree, git apply, go build ./..., demo with patch, full existing suite with patch',
   'base_commit':subprocess.run(['git','-C','/repo','rev-parse','--short','HEAD'],capture_output=True,text=True).stdout.strip(),'result':res.split()},
 'demo_files':'*_test.go.txt here; place at the path given in DEMO_PATH.txt (drop the .txt suffix)'}
json.dump(out,open(dst+'/meta.json','w'),indent=1)
P
    echo "$id: filed"
  else
    echo "$id: NOT CONFIRMED"; cat "$src/verify.txt" | tail -15
  fi
done
