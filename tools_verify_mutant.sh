#!/bin/bash
# usage: tools_verify_mutant.sh <mutdir>   -> writes <mutdir>/verify.txt
# Confirms in a scratch worktree of /repo HEAD: (a) demo passes on clean tree, (b) patch applies, builds,
# full existing suite passes, demo fails.
d="$1"; id=$(basename "$d")
export GOFLAGS=-mod=mod GOPROXY=off GOSUMDB=off GOTOOLCHAIN=local
wt=/tmp/vm/$id
out="$d/verify.txt"
rm -rf "$wt"; mkdir -p /tmp/vm
git -C /repo worktree add -q --detach "$wt" HEAD || { echo "worktree failed" > "$out"; exit 1; }
cleanup() { git -C /repo worktree remove --force "$wt" 2>/dev/null; }
trap cleanup EXIT
{
echo "base=$(git -C /repo rev-parse --short HEAD)"
# place demo files
demos=()
while read -r line; do
  # lines like "gateway/mutant_demo_test.go" possibly with "file -> path"
  p=$(echo "$line" | grep -oE '[a-zA-Z0-9_/.-]+/[a-zA-Z0-9_.-]+_test\.go' | head -1)
  [ -n "$p" ] && demos+=("$p")
done < "$d/DEMO_PATH.txt"
i=0
for f in "$d"/*_test.go; do
  bn=$(basename "$f")
  dest=""
  for p in "${demos[@]}"; do [ "$(basename "$p")" = "$bn" ] && dest="$p"; done
  [ -z "$dest" ] && dest="${demos[0]}"
  mkdir -p "$wt/$(dirname "$dest")"; cp "$f" "$wt/$dest"; echo "demo: $bn -> $dest"
  pkgs="$pkgs ./$(dirname "$dest")/"
done
pkgs=$(echo $pkgs | tr ' ' '\n' | sort -u | tr '\n' ' ')
cd "$wt"
echo "== (a) clean + demo"
if go test -vet=off -count=1 -run 'Mutant|Demo' $pkgs > /tmp/vm/$id.a.log 2>&1; then echo "A_DEMO_PASS"; else echo "A_DEMO_FAIL"; tail -5 /tmp/vm/$id.a.log; fi
echo "== apply"
if git apply "$d/patch.diff" 2>/tmp/vm/$id.apply.log; then echo "APPLY_OK"; else echo "APPLY_FAIL"; cat /tmp/vm/$id.apply.log | head -5; exit 0; fi
if go build ./... > /tmp/vm/$id.build.log 2>&1; then echo "BUILD_OK"; else echo "BUILD_FAIL"; head -5 /tmp/vm/$id.build.log; exit 0; fi
echo "== (b) demo with patch"
if go test -vet=off -count=1 -run 'Mutant|Demo' $pkgs > /tmp/vm/$id.b.log 2>&1; then echo "B_DEMO_PASS(BAD)"; else echo "B_DEMO_FAIL(expected)"; fi
echo "== suite with patch (demo files removed)"
for p in "${demos[@]}"; do rm -f "$wt/$p"; done
rm -f $(git ls-files --others --exclude-standard)
if go test -vet=off -count=1 ./... > /tmp/vm/$id.suite.log 2>&1; then echo "SUITE_PASS";
else
  # client.TestSleep and client.TestSubscribeQOS2 are timing-sensitive and fail now and then on the unmodified tree
  # when the machine is loaded: one re-run of the failing packages decides
  echo "suite failed once: $(grep -E '^--- FAIL' /tmp/vm/$id.suite.log | tr '\n' ' ')"
  if go test -vet=off -count=1 ./... > /tmp/vm/$id.suite2.log 2>&1; then echo "SUITE_PASS"; else echo "SUITE_FAIL"; grep -E '^(--- FAIL|FAIL|panic)' /tmp/vm/$id.suite2.log | head -5; fi
fi
} > "$out" 2>&1
