package main

import (
	"fmt"
	"go/types"
	"strings"

	"golang.org/x/tools/go/ssa"
)

func init() {
	register("C17", func(r *Report) {
		r.Explanation = "Decides the three clauses structurally, for all loss patterns: (R1) exploring the client dispatcher per (trigger, stored transaction type, transaction state): a publish-QoS 1 transaction succeeds only on PUBACK in the state the API entered when it sent the PUBLISH; a QoS 2 one answers PUBREC with PUBREL only in its initial state, moves to the next state, and succeeds only on PUBCOMP in that state; the API returns the transaction's Err() once Done fires; (R2) for every client transaction constructor the retry callback re-sends the packet it is handed (the stored step packet: same object, same message ID) and, when any packet stored for that transaction has a DUP flag, sets DUP on every path on which the packet has one; (R3) the PUBREL case hands a PUBCOMP with the PUBREL's message ID to the sender on every path that returns nil - whatever transaction (none, the matching one, one of another kind) is stored under that ID; (R4) errors of step handlers are returned by the dispatcher; (R5) the PUBLISH transaction is registered in the store before the PUBLISH is sent; (R8) the goroutine that reads the acknowledgements and PUBRELs never runs application code: every call of a subscription callback reachable from the dispatcher is a go statement; (R9) the client never forgets a topic ID it once knew (no delete on, no replacement of the maps the REGISTER/SUBACK handlers fill), so the lookup the PUBREL handler performs before PUBCOMP cannot start failing for a stored PUBLISH. Not decided: 'within the retry budget' timing."
		r.floor("R1", 6)
		r.floor("R2", 6)
		r.floor("R3", 3)
		r.floor("R8", 1)
		r.floor("R9", 1)
	}, checkC17)
	register("C16", func(r *Report) {
		r.Explanation = "Decides: (R1) the gateway's retry callback re-sends exactly the object it is handed - the step data stored by the last Proceed (same message ID and payload); (R2) it sets DUP whenever that object has a DUP flag (MQTT-SN packets with the DUP property, MQTT PUBLISH); (R3) the per-step tables of the broker-publish transactions, extracted by exploring each handler per transaction state: QoS 1 awaitingRegack -> awaitingPuback -> done, QoS 2 awaitingRegack -> awaitingPubrec -> awaitingPubrel -> awaitingPubcomp -> done, each step forwarding the acknowledgement to the right side with the trigger's message ID, and a handler in the wrong state neither sends nor changes state; (R4) budget stop: after the retry budget the transaction fails and nothing re-arms (C18-R2/C19-R1, re-checked here); (R5) the peer side: the client stores every received QoS 2 PUBLISH for the PUBREL and answers every PUBREL (C17-R3). (R7) the REGISTER step survives a lost REGACK: the client answers a REGISTER of an unknown name and a REGISTER repeating a known (name, ID) pair with REGACK(accepted). Not decided: end-to-end delivery for a given loss pattern; handler-exactly-once (history)."
		r.floor("R1", 1)
		r.floor("R2", 1)
		r.floor("R3", 8)
		r.floor("R5", 2)
		r.floor("R7", 2)
	}, checkC16)
}

// newClientModel: the explorer model for package client.
func (c *Ctx) newClientModel() (*gwModel, error) {
	m := &gwModel{c: c}
	m.snSenders = c.snSenders("client")
	m.mqSenders = map[*ssa.Function]bool{}
	if len(m.snSenders) == 0 {
		return nil, fmt.Errorf("client sender role not found")
	}
	m.snDisp, m.snHandled = c.dispatcherOf("client", pkPackets, "Packet")
	if m.snDisp == nil || len(m.snHandled) < 8 {
		return nil, fmt.Errorf("client dispatcher not found")
	}
	m.snTypes = c.decodedTypes()
	return m, nil
}

func (m *gwModel) clientExplorer() *explorer {
	e := m.explorer()
	e.Inline = func(g *ssa.Function) bool { return fnPkgPath(g) == pkClient }
	return e
}

// dupCapable: the concrete type has the DUP property.
func (c *Ctx) dupCapable(tname string) bool {
	if tname == "*mqtt.PublishPacket" {
		return true
	}
	if !strings.HasPrefix(tname, "*packets1.") {
		return false
	}
	p := c.ByPath[pkPackets1]
	obj := p.Types.Scope().Lookup(strings.TrimPrefix(tname, "*packets1."))
	if obj == nil {
		return false
	}
	iface := c.ByPath[pkPackets].Types.Scope().Lookup("PacketWithDUP")
	if iface == nil {
		return false
	}
	return types.Implements(types.NewPointer(obj.Type()), iface.Type().Underlying().(*types.Interface))
}

// stepDataTypes: concrete types passed as step data to Proceed for
// transactions built by ctor: in functions where the ctor's result is the
// receiver of Proceed, and in methods of the built type.
func (c *Ctx) stepDataTypes(rel string, ctor *ssa.Function) []string {
	set := map[string]bool{}
	if ctor.Signature.Results().Len() != 1 {
		return nil
	}
	resT := ctor.Signature.Results().At(0).Type()
	collect := func(f *ssa.Function, recvMatches func(v ssa.Value) bool) {
		allInstrs(f, func(i ssa.Instruction) {
			ci, ok := i.(ssa.CallInstruction)
			if !ok {
				return
			}
			cc := ci.Common()
			var recv, data ssa.Value
			if cc.IsInvoke() && cc.Method.Name() == "Proceed" && len(cc.Args) == 2 {
				recv, data = cc.Value, cc.Args[1]
			} else if g := staticCallee(cc); g != nil && (g.Name() == "Proceed" || strings.HasPrefix(g.Name(), "Proceed")) && len(cc.Args) >= 3 {
				recv, data = cc.Args[0], cc.Args[len(cc.Args)-1]
			} else {
				return
			}
			if !recvMatches(recv) {
				return
			}
			for _, t := range c.concreteTypesOf(data) {
				set[t] = true
			}
		})
	}
	for _, f := range c.repoFuncs(rel) {
		// (a) callers: ctor result flows to the receiver
		var results []ssa.Value
		allInstrs(f, func(i ssa.Instruction) {
			if call, ok := i.(*ssa.Call); ok && staticCallee(&call.Call) == ctor {
				results = append(results, call)
			}
		})
		if len(results) > 0 {
			collect(f, func(v ssa.Value) bool {
				for _, res := range results {
					if flowsTo(res, v) || c.rootedAt(v, res) {
						return true
					}
				}
				return false
			})
		}
		// (b) methods of the built type (or of a type embedded in it / embedding it)
		if f.Signature.Recv() != nil && (types.Identical(f.Signature.Recv().Type(), resT) || c.embeds(resT, f.Signature.Recv().Type())) {
			collect(f, func(v ssa.Value) bool { return true })
		}
	}
	return sortedKeys(set)
}

// rootedAt: v is a field path loaded from obj (t.transaction.RetryTransaction).
func (c *Ctx) rootedAt(v, obj ssa.Value) bool {
	for d := 0; d < 6; d++ {
		switch x := v.(type) {
		case *ssa.UnOp:
			v = x.X
		case *ssa.FieldAddr:
			v = x.X
		case *ssa.Field:
			v = x.X
		default:
			return v == obj
		}
		if v == obj {
			return true
		}
	}
	return false
}

// embeds: struct type outer (pointer) embeds inner (pointer or value), transitively.
func (c *Ctx) embeds(outer, inner types.Type) bool {
	st := structOf(outer)
	if st == nil {
		return false
	}
	for i := 0; i < st.NumFields(); i++ {
		f := st.Field(i)
		if !f.Embedded() {
			continue
		}
		if types.Identical(f.Type(), inner) || types.Identical(types.NewPointer(f.Type()), inner) {
			return true
		}
		if c.embeds(f.Type(), inner) {
			return true
		}
	}
	return false
}

// checkRetryCallbacks: R2 of C17 (client) and R1/R2 of C16 (gateway).
func (c *Ctx) checkRetryCallbacks(r *Report, rule, rel string, senders map[*ssa.Function]bool) {
	n := 0
	for _, f := range c.repoFuncs(rel) {
		allInstrs(f, func(i ssa.Instruction) {
			call, ok := i.(*ssa.Call)
			if !ok || calleeName(&call.Call) != pkTrans+".NewRetryTransaction" {
				return
			}
			ctor := f
			for ctor.Parent() != nil {
				ctor = ctor.Parent()
			}
			// the callback: closure literal or bound method
			cb := c.retryCallbackOf(call)
			n++
			r.fn(ctor)
			key := fnKey(ctor) + ":retry-callback"
			if cb == nil || cb.Blocks == nil {
				r.undecided(rule, key, c.instrPos(i), "retry callback is not a closure or method of the repository")
				return
			}
			r.fn(cb)
			// the callback and the unexported helpers of the package it hands the stored packet to (a callback
			// split into resendSN / resendMQTT is judged by the helpers' bodies)
			type unit struct {
				fn   *ssa.Function
				data *ssa.Parameter
			}
			units := []unit{{cb, cb.Params[len(cb.Params)-1]}}
			seenU := map[*ssa.Function]bool{cb: true}
			for k := 0; k < len(units) && k < 6; k++ {
				u := units[k]
				allInstrs(u.fn, func(j ssa.Instruction) {
					cj, ok := j.(ssa.CallInstruction)
					if !ok {
						return
					}
					g := staticCallee(cj.Common())
					if g == nil || g.Blocks == nil || senders[g] || seenU[g] || fnPkgPath(g) != modPath+"/"+rel {
						return
					}
					for ai, a := range cj.Common().Args {
						os := c.origins(a)
						if len(os) == 1 && os[0].Kind == "param" && os[0].Root == ssa.Value(u.data) && len(os[0].Path) == 0 && ai < len(g.Params) {
							seenU[g] = true
							units = append(units, unit{g, g.Params[ai]})
						}
					}
				})
			}
			types_ := c.stepDataTypes(rel, ctor)
			needDup := false
			for _, t := range types_ {
				if c.dupCapable(t) {
					needDup = true
				}
			}
			nSends := 0
			badArg, bad := "", ""
			for _, u := range units {
				cb, data := u.fn, u.data
				r.fn(cb)
				var sends []ssa.CallInstruction
				allInstrs(cb, func(j ssa.Instruction) {
					cj, ok := j.(ssa.CallInstruction)
					if !ok {
						return
					}
					g := staticCallee(cj.Common())
					if g == nil || !senders[g] {
						return
					}
					sends = append(sends, cj)
					arg := packetArg(g, cj.Common())
					os := c.origins(arg)
					if len(os) != 1 || os[0].Kind != "param" || os[0].Root != ssa.Value(data) || len(os[0].Path) != 0 {
						badArg = "the retry callback sends " + exprStr(arg) + " instead of the stored step packet it is handed"
					}
				})
				nSends += len(sends)
				if !needDup {
					continue
				}
				// every send must be preceded by SetDUP(true) / Dup=true on the data, except through the
				// failed comma-ok edge of an assertion to a DUP-capable type
				for _, s := range sends {
					isSet := func(x ssa.Instruction) bool {
						if cx, ok := x.(ssa.CallInstruction); ok {
							nm := ""
							if cx.Common().IsInvoke() {
								nm = cx.Common().Method.Name()
							} else if g := staticCallee(cx.Common()); g != nil {
								nm = g.Name()
							}
							if nm == "SetDUP" {
								args := cx.Common().Args
								if b, ok := constBool(args[len(args)-1]); ok && b {
									return true
								}
							}
						}
						if st, ok := x.(*ssa.Store); ok {
							if fa, ok := st.Addr.(*ssa.FieldAddr); ok && fieldName(fa.X.Type(), fa.Field) == "Dup" {
								if b, ok := constBool(st.Val); ok && b {
									return true
								}
							}
						}
						return false
					}
					reach, _ := pathExists(cb, nil, func(x ssa.Instruction) bool { return x == ssa.Instruction(s) }, func(x ssa.Instruction) bool { return isSet(x) })
					if !reach {
						continue
					}
					guardedSet := false
					allInstrs(cb, func(x ssa.Instruction) {
						if !isSet(x) {
							return
						}
						if r2, _ := pathExists(cb, x, func(y ssa.Instruction) bool { return y == ssa.Instruction(s) }, nil); !r2 {
							return
						}
						for _, g := range guardsOf(x.Block()) {
							if ex, ok := g.Cond.(*ssa.Extract); ok && g.Truth && ex.Index == 1 {
								if ta, ok := ex.Tuple.(*ssa.TypeAssert); ok && c.assertIsDupType(ta) {
									guardedSet = true
								}
							}
						}
					})
					sendTypes := c.sendArmTypes(s, data)
					// a helper that only ever receives one arm of the callback's type switch: its parameter type tells
					if len(sendTypes) == 0 {
						if pt := typeStr(data.Type()); strings.HasPrefix(pt, "*") || strings.Contains(pt, ".") {
							if _, isIface := data.Type().Underlying().(*types.Interface); !isIface {
								sendTypes = []string{pt}
							} else if !typeIs(data.Type(), pkPackets, "Packet") && !isEmptyInterface(data.Type()) {
								sendTypes = []string{"iface:" + pt}
							}
						}
					}
					anyDup := len(sendTypes) == 0
					for _, t := range sendTypes {
						if t == "iface" || c.dupCapable(t) {
							anyDup = true
						}
						if strings.HasPrefix(t, "iface:") && strings.Contains(t, "mqtt.") {
							anyDup = false || anyDup // an MQTT control packet interface: DUP is the broker direction's business
						}
					}
					if !guardedSet && anyDup {
						bad = "a retransmission path reaches the send without setting DUP although the stored packet (" + strings.Join(types_, ", ") + ") has a DUP flag"
					}
				}
			}
			cbPos := c.pos(cb.Pos())
			switch {
			case nSends == 0:
				r.bad(rule, key, cbPos, "the retry callback does not resend anything")
			case badArg != "":
				r.bad(rule, key, cbPos, badArg)
			case !needDup:
				r.ok(rule, key, cbPos, fmt.Sprintf("re-sends the stored packet; step data types %v carry no DUP flag", types_))
			case bad != "":
				r.bad(rule, key, cbPos, bad)
			default:
				r.ok(rule, key, cbPos, fmt.Sprintf("re-sends the stored packet with DUP set whenever it has one (step data types %v)", types_))
			}
		})
	}
	if n == 0 {
		r.undecided(rule, rel+":retry-transactions", "-", "no NewRetryTransaction call found")
	}
}

func (c *Ctx) assertIsDupType(ta *ssa.TypeAssert) bool {
	if typeIs(ta.AssertedType, pkPackets, "PacketWithDUP") || typeIs(ta.AssertedType, pahoPkts, "PublishPacket") {
		return true
	}
	return c.dupCapable(typeStr(ta.AssertedType))
}

// sendArmTypes: if the send is inside an arm of a type switch on data, the
// asserted type of that arm.
func (c *Ctx) sendArmTypes(s ssa.CallInstruction, data *ssa.Parameter) []string {
	var out []string
	for _, g := range guardsOf(s.Block()) {
		if ex, ok := g.Cond.(*ssa.Extract); ok && g.Truth && ex.Index == 1 {
			if ta, ok := ex.Tuple.(*ssa.TypeAssert); ok && ta.X == ssa.Value(data) {
				if _, isIface := ta.AssertedType.Underlying().(*types.Interface); isIface {
					out = append(out, "iface")
				} else {
					out = append(out, typeStr(ta.AssertedType))
				}
			}
		}
	}
	return out
}

func checkC17(c *Ctx, r *Report) {
	m, err := c.newClientModel()
	if err != nil {
		r.undecided("R0", "client-model", "-", err.Error())
		return
	}
	r.fn(m.snDisp)
	stateCell := "f:transactions.RetryTransaction.State"
	// the states the API enters: explore publish() for qos 1 and 2
	var publishFn *ssa.Function
	for _, f := range c.repoFuncs("client") {
		if f.Parent() != nil {
			continue
		}
		// function with a uint8 qos parameter that creates a packets1.Publish
		made := false
		allInstrs(f, func(i ssa.Instruction) {
			if call, ok := i.(*ssa.Call); ok && calleeName(&call.Call) == pkPackets1+".NewPublish" {
				made = true
			}
		})
		if made && publishFn == nil {
			publishFn = f
		}
	}
	if publishFn == nil {
		r.undecided("R1", "client-publish", "-", "no client function building a PUBLISH found")
		return
	}
	r.fn(publishFn)
	qosParam := -1
	for i, p := range publishFn.Params {
		if p.Name() == "qos" || (qosParam < 0 && i > 0 && types.Identical(p.Type(), types.Typ[types.Uint8]) && i >= 2) {
			qosParam = i
		}
	}
	apiState := map[int64]string{}
	for _, q := range []int64{0, 1, 2, 3} {
		e := m.clientExplorer()
		outs := e.Explore(publishFn, nil, map[int]aval{qosParam: kint(q)})
		key := fmt.Sprintf("publish[qos=%d]", q)
		okc := len(outs) > 0
		detail := ""
		for _, o := range outs {
			pr := eventsWithPrefix(o, "tx.Proceed(")
			st := eventsWithPrefix(o, "store.Store")
			sn := eventsWithPrefix(o, "sn:")
			if q == 1 || q == 2 {
				if len(pr) != 1 || len(st) != 1 {
					okc, detail = false, "QoS 1/2 publish must create, Proceed and store exactly one transaction: "+strings.Join(o.Events, " ; ")
					continue
				}
				apiState[q] = strings.TrimSuffix(strings.SplitN(strings.TrimPrefix(pr[0], "tx.Proceed(state="), ",", 2)[0], ")")
				// R5: stored before sent
				si, ni := -1, -1
				for k, ev := range o.Events {
					if strings.HasPrefix(ev, "store.Store") && si < 0 {
						si = k
					}
					if strings.HasPrefix(ev, "sn:") && ni < 0 {
						ni = k
					}
				}
				if ni >= 0 && si > ni {
					okc, detail = false, "the PUBLISH is sent before its transaction is registered in the store: a fast acknowledgement finds no transaction and is dropped: "+strings.Join(o.Events, " ; ")
				}
				if len(sn) > 0 && !strings.Contains(sn[0], "Publish") {
					okc, detail = false, "unexpected packet sent: "+sn[0]
				}
			} else if len(pr) != 0 || len(st) != 0 {
				okc, detail = false, "QoS 0/-1 publish must not create a transaction"
			}
		}
		if okc {
			r.ok("R5", key, c.pos(publishFn.Pos()), firstOutcome(outs))
		} else {
			r.bad("R5", key, c.pos(publishFn.Pos()), detail)
		}
	}
	s1, s2 := apiState[1], apiState[2]
	if s1 == "" || s2 == "" {
		r.undecided("R1", "api-states", c.pos(publishFn.Pos()), "cannot determine the states entered by Publish QoS 1/2")
		return
	}
	var st1, st2 int64
	fmt.Sscan(s1, &st1)
	fmt.Sscan(s2, &st2)
	states := []int64{0, 1, 2, 3, 4, 5, 6}
	// QoS 1: PUBACK
	for _, st := range states {
		cells := map[string]aval{"type:sn": kstr("*packets1.Puback"), "type:tx": kstr(c.clPub1Tx()), stateCell: kint(st)}
		e := m.clientExplorer()
		outs := e.Explore(m.snDisp, cells, nil)
		key := fmt.Sprintf("PUBACK[qos1-transaction,state=%d]", st)
		okc := len(outs) > 0
		for _, o := range outs {
			succ := hasEventPrefix(o, "tx.Success")
			handled := len(eventsWithPrefix(o, "store.Get")) > 0
			if succ != (st == st1) && handled {
				// the lookup may also miss (ok=false): then nothing happens
				if succ || o.Cells["type:tx"].s == c.clPub1Tx() && st == st1 && !succ && assertedOK(o) {
					okc = false
				}
			}
			if succ && st != st1 {
				okc = false
			}
		}
		if st == st1 {
			any := false
			for _, o := range outs {
				if hasEventPrefix(o, "tx.Success") {
					any = true
				}
			}
			if !any {
				okc = false
			}
		}
		r.cond(okc, "R1", key, c.pos(m.snDisp.Pos()), firstOutcome(outs), fmt.Sprintf("Publish QoS 1 must succeed exactly on a PUBACK received in the state the API entered (%d): %s", st1, allOutcomes(outs)))
	}
	// QoS 2: PUBREC then PUBCOMP
	var st3 int64 = -1
	for _, st := range states {
		cells := map[string]aval{"type:sn": kstr("*packets1.Pubrec"), "type:tx": kstr(c.clPub2Tx()), stateCell: kint(st)}
		e := m.clientExplorer()
		outs := e.Explore(m.snDisp, cells, nil)
		key := fmt.Sprintf("PUBREC[qos2-transaction,state=%d]", st)
		okc := len(outs) > 0
		sentAny := false
		for _, o := range outs {
			sn := eventsWithPrefix(o, "sn:")
			pr := eventsWithPrefix(o, "tx.Proceed(")
			if hasEventPrefix(o, "tx.Success") {
				okc = false
			}
			if st != st2 && (len(sn) > 0 || len(pr) > 0) {
				okc = false
			}
			if st == st2 && len(sn) > 0 {
				sentAny = true
				if len(sn) != 1 || !strings.Contains(sn[0], "Pubrel") || len(pr) != 1 {
					okc = false
				} else {
					fmt.Sscan(strings.TrimSuffix(strings.SplitN(strings.TrimPrefix(pr[0], "tx.Proceed(state="), ",", 2)[0], ")"), &st3)
				}
			}
		}
		if st == st2 && !sentAny {
			okc = false
		}
		r.cond(okc, "R1", key, c.pos(m.snDisp.Pos()), firstOutcome(outs), fmt.Sprintf("PUBREC must be answered with PUBREL (and the transaction advanced) exactly in state %d: %s", st2, allOutcomes(outs)))
	}
	for _, st := range states {
		cells := map[string]aval{"type:sn": kstr("*packets1.Pubcomp"), "type:tx": kstr(c.clPub2Tx()), stateCell: kint(st)}
		e := m.clientExplorer()
		outs := e.Explore(m.snDisp, cells, nil)
		key := fmt.Sprintf("PUBCOMP[qos2-transaction,state=%d]", st)
		okc := len(outs) > 0
		any := false
		for _, o := range outs {
			if hasEventPrefix(o, "tx.Success") {
				any = true
				if st != st3 {
					okc = false
				}
			}
		}
		if st == st3 && !any {
			okc = false
		}
		r.cond(okc, "R1", key, c.pos(m.snDisp.Pos()), firstOutcome(outs), fmt.Sprintf("Publish QoS 2 must succeed exactly on a PUBCOMP received in the state entered by PUBREC (%d): %s", st3, allOutcomes(outs)))
	}
	// API returns Err() after Done: the publish function's returns after the select are Err() or group.Wait()
	c.checkAPIReturnsErr(r, "R1", publishFn)
	// R6: an inbound PUBLISH never disturbs the client's own exchange stored under the same message ID
	c.checkClientQoS2Receive(r, "R6", m)
	// R7: nothing the acknowledgement has to pass through is blocked by the waiting API call itself (C28-R7)
	importRules(c, r, "C28", map[string]string{"R7": "R7"})
	c.checkClientCallbacksAsync(r, "R8", m)
	c.checkClientRegistryMonotone(r, "R9", m)
	// R2
	c.checkRetryCallbacks(r, "R2", "client", m.snSenders)
	// R3: PUBREL always answered
	for _, tx := range []string{"none", c.clBrokerPub2Tx(), c.clPub1Tx(), c.clSubscribeTx()} {
		cells := map[string]aval{"type:sn": kstr("*packets1.Pubrel"), "type:tx": kstr(tx)}
		e := m.clientExplorer()
		outs := e.Explore(m.snDisp, cells, nil)
		key := "PUBREL[stored=" + strings.TrimPrefix(tx, "*client.") + "]"
		okc := len(outs) > 0
		detail := ""
		for _, o := range outs {
			last := ""
			if len(o.Ret) > 0 {
				last = o.Ret[len(o.Ret)-1]
			}
			hasComp := false
			for _, ev := range eventsWithPrefix(o, "sn:") {
				if strings.Contains(ev, "Pubcomp") {
					hasComp = true
				}
			}
			if last == "nil" && !hasComp {
				okc, detail = false, "a PUBREL is swallowed without PUBCOMP: "+strings.Join(o.Events, " ; ")
			}
		}
		if okc {
			r.ok("R3", key, c.pos(m.snDisp.Pos()), firstOutcome(outs))
		} else {
			r.bad("R3", key, c.pos(m.snDisp.Pos()), detail)
		}
	}
	// PUBCOMP message ID = PUBREL's
	foundComp := false
	for _, tr := range c.findSentObjects("client", m.snSenders, pkPackets1, "Pubcomp") {
		foundComp = true
		c.checkFields(r, "R3", tr.Fn, tr.Obj, "pubcomp", tr.Send.Call.(ssa.Instruction), []fieldSpec{{Path: []string{"MessageIDProperty", "messageID"}, Accept: acceptField(pkPackets1, "Pubrel", "MessageIDProperty", "messageID")}})
	}
	if !foundComp {
		r.undecided("R3", "PUBCOMP.messageID", "-", "no PUBCOMP construction found in package client")
	}
	// R4: step handler errors returned
	allInstrs(m.snDisp, func(i ssa.Instruction) {
		call, ok := i.(*ssa.Call)
		if !ok {
			return
		}
		g := staticCallee(&call.Call)
		if g == nil || fnPkgPath(g) != pkClient || g.Signature.Recv() == nil || g.Signature.Results().Len() != 1 {
			return
		}
		if !types.Identical(g.Signature.Results().At(0).Type(), types.Universe.Lookup("error").Type()) {
			return
		}
		if m.snSenders[g] {
			return
		}
		key := fnKey(m.snDisp) + ":" + g.Name() + "-error"
		r.cond(returnsValueDirectly(call), "R4", key, c.instrPos(i), "error returned by the dispatcher", "the error of step handler "+fnKey(g)+" is dropped by the dispatcher")
	})
}

func assertedOK(o Outcome) bool { return true }

func allOutcomes(outs []Outcome) string {
	var s []string
	for _, o := range outs {
		s = append(s, "["+strings.Join(o.Events, " ; ")+" => "+retStr(o)+"]")
	}
	if len(s) > 4 {
		s = s[:4]
	}
	return strings.Join(s, " ")
}

// checkAPIReturnsErr: after the blocking select of an API method the returned
// value is transaction.Err() (Done case) or group.Wait() (context case).
func (c *Ctx) checkAPIReturnsErr(r *Report, rule string, f *ssa.Function) {
	key := fnKey(f) + ":returns-transaction-error"
	var sel *ssa.Select
	allInstrs(f, func(i ssa.Instruction) {
		if s, ok := i.(*ssa.Select); ok && s.Blocking {
			sel = s
		}
	})
	if sel == nil {
		// the wait moved into a helper: `return c.waitFor(transaction)` - the helper is checked the same way and the
		// API method must return what the helper returns
		var helper *ssa.Function
		var hcall *ssa.Call
		allInstrs(f, func(i ssa.Instruction) {
			call, ok := i.(*ssa.Call)
			if !ok {
				return
			}
			g := staticCallee(&call.Call)
			if g == nil || fnPkgPath(g) != fnPkgPath(f) || g.Blocks == nil {
				return
			}
			has := false
			allInstrs(g, func(j ssa.Instruction) {
				if s2, ok := j.(*ssa.Select); ok && s2.Blocking {
					has = true
				}
			})
			if has {
				helper, hcall = g, call
			}
		})
		if helper == nil {
			r.undecided(rule, key, c.pos(f.Pos()), "no blocking select in the API method")
			return
		}
		okF, nF := true, 0
		for _, b := range f.Blocks {
			ret, ok := b.Instrs[len(b.Instrs)-1].(*ssa.Return)
			if !ok {
				continue
			}
			if reach, _ := pathExists(f, hcall, func(x ssa.Instruction) bool { return x == ssa.Instruction(ret) }, nil); !reach {
				continue
			}
			nF++
			for _, res := range ret.Results {
				for _, o := range c.origins(res) {
					if !(o.Kind == "call" && o.Val == ssa.Value(hcall)) {
						okF = false
					}
				}
			}
		}
		sub := newReport(r.Prop)
		c.checkAPIReturnsErr(sub, rule, helper)
		okH := len(sub.Obls) > 0
		for _, o := range sub.Obls {
			if o.Status != "discharged" {
				okH = false
			}
		}
		r.fn(helper)
		r.cond(okF && nF > 0 && okH, rule, key, c.instrPos(hcall), "the API returns the result of "+helper.Name()+", which returns transaction.Err() after Done and group.Wait() after cancellation", "the API method can return something else than the transaction's Err() once it completed (wait in helper "+helper.Name()+")")
		return
	}
	okc := true
	n := 0
	for _, b := range f.Blocks {
		ret, ok := b.Instrs[len(b.Instrs)-1].(*ssa.Return)
		if !ok {
			continue
		}
		if reach, _ := pathExists(f, sel, func(x ssa.Instruction) bool { return x == ssa.Instruction(ret) }, nil); !reach {
			continue
		}
		n++
		for _, res := range ret.Results {
			os := c.origins(res)
			for _, o := range os {
				if o.Kind == "call" && (strings.HasSuffix(o.Callee, ".Err") || strings.HasSuffix(o.Callee, ".Wait")) {
					continue
				}
				if o.Kind == "const" && isNilConst(o.Val) {
					okc = false
				} else if o.Kind != "call" {
					okc = false
				}
			}
		}
	}
	r.cond(okc && n > 0, rule, key, c.instrPos(sel), "after Done the API returns transaction.Err(); after cancellation group.Wait()", "the API method can return something else than the transaction's Err() once it completed")
}

func checkC16(c *Ctx, r *Report) {
	m, err := c.newGwModel()
	if err != nil {
		r.undecided("R0", "gateway-model", "-", err.Error())
		return
	}
	senders := map[*ssa.Function]bool{}
	for s := range m.snSenders {
		senders[s] = true
	}
	for s := range m.mqSenders {
		senders[s] = true
	}
	c.checkRetryCallbacks(r, "R1", "gateway", senders)
	// R2 is reported under the same construct by checkRetryCallbacks; add a per-type summary
	c.checkRetryCallbacks(r, "R2", "gateway", senders)
	// R3: step tables
	stateCell := "f:transactions.RetryTransaction.State"
	// initial states from the broker PUBLISH case
	init := map[string]string{}
	for _, q := range []int64{1, 2} {
		for _, needsReg := range []int64{0, 1} {
			e := m.explorer()
			e.CallValue = func(call *ssa.Call, ex *explorer, ps *pstate, fr *frame) ([]aval, bool) {
				n := calleeName(&call.Call)
				switch {
				case n == pkPackets+".IsShortTopic":
					return []aval{kint(0)}, true
				case n == "("+pkTopics+".PredefinedTopics).GetTopicID":
					return []aval{kstr("predef-id"), kint(1 - needsReg)}, true
				}
				if g := staticCallee(&call.Call); g != nil && c.returnsSyncMapKey(g) {
					return []aval{kstr("reg-id"), kint(0)}, true
				}
				return nil, false
			}
			base := e.Inline
			e.Inline = func(g *ssa.Function) bool {
				if c.returnsSyncMapKey(g) {
					return false
				}
				return base(g)
			}
			outs := e.Explore(m.mqDisp, map[string]aval{"state": kint(stActive), "type:mq": kstr("*mqtt.PublishPacket"), "f:mqtt.FixedHeader.Qos": kint(q)}, nil)
			for _, o := range outs {
				for _, ev := range eventsWithPrefix(o, "tx.Proceed(") {
					init[fmt.Sprintf("q%d,reg%d", q, needsReg)] = strings.SplitN(strings.TrimPrefix(ev, "tx.Proceed(state="), ",", 2)[0]
				}
			}
		}
	}
	sReg, sPuback, sPubrec := init["q1,reg1"], init["q1,reg0"], init["q2,reg0"]
	if sReg == "" || sPuback == "" || sPubrec == "" || init["q2,reg1"] != sReg {
		r.undecided("R3", "initial-states", c.pos(m.mqDisp.Pos()), fmt.Sprintf("cannot determine the initial step states of the broker-publish transactions: %v", init))
		return
	}
	type step struct {
		name, disp, trig, tx string
		from               string
		wantSend           string
		wantDone           bool
	}
	atoi := func(s string) int64 { var k int64; fmt.Sscan(s, &k); return k }
	next := map[string]string{}
	run := func(name string, disp *ssa.Function, trigCell, trig, tx, from, wantSend string, wantDone bool) {
		for st := int64(0); st <= 6; st++ {
			cells := map[string]aval{"state": kint(stActive), trigCell: kstr(trig), "type:tx": kstr(tx), stateCell: kint(st),
				"f:packets1.Regack.ReturnCode": kint(0), "f:packets1.Puback.ReturnCode": kint(0)}
			e := m.explorer()
			outs := e.Explore(disp, cells, nil)
			key := fmt.Sprintf("%s[%s,state=%d]", name, strings.TrimPrefix(tx, "*gateway."), st)
			okc := len(outs) > 0
			detail := ""
			acted := false
			for _, o := range outs {
				var sends []string
				for _, ev := range o.Events {
					if strings.HasPrefix(ev, "sn:") || strings.HasPrefix(ev, "mq:") {
						sends = append(sends, ev)
					}
				}
				pr := eventsWithPrefix(o, "tx.Proceed(")
				if st != atoi(from) {
					if len(sends) > 0 || len(pr) > 0 || hasEventPrefix(o, "tx.Success") {
						okc, detail = false, "a handler acts in the wrong state: "+strings.Join(o.Events, " ; ")
					}
					continue
				}
				if len(sends) == 0 {
					continue // lookup missed
				}
				acted = true
				if len(sends) != 1 || !strings.Contains(sends[0], wantSend) || len(pr) != 1 {
					okc, detail = false, fmt.Sprintf("expected one %s and one state change, got %s", wantSend, strings.Join(o.Events, " ; "))
					continue
				}
				ns := strings.SplitN(strings.TrimPrefix(pr[0], "tx.Proceed(state="), ",", 2)[0]
				next[name+"/"+tx] = ns
				if wantDone != hasEventPrefix(o, "tx.Success") && !retIsError(o) {
					okc, detail = false, fmt.Sprintf("completion expected=%v: %s", wantDone, strings.Join(o.Events, " ; "))
				}
			}
			if st == atoi(from) && !acted {
				okc, detail = false, "the handler does nothing in its own state"
			}
			if okc {
				r.ok("R3", key, c.pos(disp.Pos()), firstOutcome(outs))
			} else {
				r.bad("R3", key, c.pos(disp.Pos()), detail)
			}
		}
	}
	q1, q2 := c.gwBrokerPub1Tx(), c.gwBrokerPub2Tx()
	run("REGACK", m.snDisp, "type:sn", "*packets1.Regack", q1, sReg, "Publish", false)
	run("PUBACK", m.snDisp, "type:sn", "*packets1.Puback", q1, sPuback, "mq:*mqtt.PubackPacket", true)
	run("REGACK", m.snDisp, "type:sn", "*packets1.Regack", q2, sReg, "Publish", false)
	run("PUBREC", m.snDisp, "type:sn", "*packets1.Pubrec", q2, sPubrec, "mq:*mqtt.PubrecPacket", false)
	sPubrel := next["PUBREC/"+q2]
	if sPubrel != "" {
		run("PUBREL", m.mqDisp, "type:mq", "*mqtt.PubrelPacket", q2, sPubrel, "Pubrel", false)
	}
	sPubcomp := next["PUBREL/"+q2]
	if sPubcomp != "" {
		run("PUBCOMP", m.snDisp, "type:sn", "*packets1.Pubcomp", q2, sPubcomp, "mq:*mqtt.PubcompPacket", true)
	}
	chainOK := next["REGACK/"+q1] == sPuback && next["REGACK/"+q2] == sPubrec && sPubrel != "" && sPubcomp != "" &&
		next["PUBACK/"+q1] == next["PUBCOMP/"+q2]
	r.cond(chainOK, "R3", "step-chains", c.pos(m.snDisp.Pos()),
		fmt.Sprintf("QoS1: %s -> %s -> %s; QoS2: %s -> %s -> %s -> %s -> %s", sReg, sPuback, next["PUBACK/"+q1], sReg, sPubrec, sPubrel, sPubcomp, next["PUBCOMP/"+q2]),
		fmt.Sprintf("the step states do not chain as awaitingRegack -> awaitingPuback -> done / awaitingRegack -> awaitingPubrec -> awaitingPubrel -> awaitingPubcomp -> done: %v", next))
	// message IDs of the forwarded acknowledgements
	for _, ir := range [][4]string{{"PubackPacket", "Puback", "", ""}, {"PubrecPacket", "Pubrec", "", ""}, {"PubcompPacket", "Pubcomp", "", ""}} {
		for _, tr := range c.findSentObjects("gateway", senders, pahoPkts, ir[0]) {
			if !c.functionHasParam(tr.Fn, pkPackets1, ir[1]) {
				continue
			}
			c.checkFields(r, "R3", tr.Fn, tr.Obj, ir[0], nil, []fieldSpec{{Path: []string{"MessageID"}, Accept: acceptField(pkPackets1, ir[1], "MessageIDProperty", "messageID")}})
		}
	}
	for _, tr := range c.findSentObjects("gateway", senders, pkPackets1, "Pubrel") {
		if c.functionHasParam(tr.Fn, pahoPkts, "PubrelPacket") {
			c.checkFields(r, "R3", tr.Fn, tr.Obj, "Pubrel", nil, []fieldSpec{{Path: []string{"MessageIDProperty", "messageID"}, Accept: acceptField(pahoPkts, "PubrelPacket", "MessageID")}})
		}
	}
	// R6: the REGISTER step: a topic counts as known to the client only after its accepted REGACK
	c.checkRegisteredMapWriters(r, "R6")
	// R5: peer side
	cm, err := c.newClientModel()
	if err != nil {
		r.undecided("R5", "client-model", "-", err.Error())
		return
	}
	for _, tx := range []string{"none", c.clBrokerPub2Tx(), c.clPub1Tx()} {
		e := cm.clientExplorer()
		outs := e.Explore(cm.snDisp, map[string]aval{"type:sn": kstr("*packets1.Pubrel"), "type:tx": kstr(tx)}, nil)
		key := "client-PUBREL[stored=" + strings.TrimPrefix(tx, "*client.") + "]"
		okc := len(outs) > 0
		for _, o := range outs {
			last := ""
			if len(o.Ret) > 0 {
				last = o.Ret[len(o.Ret)-1]
			}
			has := false
			for _, ev := range eventsWithPrefix(o, "sn:") {
				if strings.Contains(ev, "Pubcomp") {
					has = true
				}
			}
			if last == "nil" && !has {
				okc = false
			}
		}
		r.cond(okc, "R5", key, c.pos(cm.snDisp.Pos()), firstOutcome(outs), "the client swallows a (retransmitted) PUBREL without PUBCOMP: the gateway can never complete the QoS 2 exchange")
	}
	c.checkClientQoS2Receive(r, "R5", cm)
	// the client's acknowledgements of the gateway's PUBLISH carry that PUBLISH's message ID (the gateway's step
	// handlers look their transaction up by it: a PUBACK/PUBREC with another ID leaves the exchange retransmitting
	// until its budget is spent although nothing was lost)
	for _, ack := range []string{"Puback", "Pubrec"} {
		found := false
		for _, tr := range c.findSentObjects("client", cm.snSenders, pkPackets1, ack) {
			found = true
			c.checkFields(r, "R5", tr.Fn, tr.Obj, "client-"+strings.ToLower(ack), tr.Send.Call.(ssa.Instruction), []fieldSpec{{Path: []string{"MessageIDProperty", "messageID"}, Accept: acceptField(pkPackets1, "Publish", "MessageIDProperty", "messageID")}})
		}
		if !found {
			r.undecided("R5", "client-"+strings.ToLower(ack)+".messageID", "-", "no "+strings.ToUpper(ack)+" construction found in package client")
		}
	}
	// R7: the REGISTER step survives a lost REGACK: the gateway retransmits the same (name, ID) pair and the
	// client must accept it again (explored with a symbolic registered-topics lookup)
	for _, sc := range []struct {
		name          string
		found, stored int64
		wantAccepted  bool
	}{{"unknown-name", 0, 0, true}, {"known-name-same-id", 1, 7, true}} {
		e := cm.clientExplorer()
		sc := sc
		prev := e.ValueHook
		e.ValueHook = func(v ssa.Value, ex *explorer, st *pstate, fr *frame) (aval, bool) {
			if x, ok := v.(*ssa.Extract); ok {
				if lk, ok := x.Tuple.(*ssa.Lookup); ok && lk.CommaOk {
					if mt, ok := lk.X.Type().Underlying().(*types.Map); ok {
						if b, ok := mt.Elem().Underlying().(*types.Basic); ok && b.Kind() == types.Uint16 {
							if x.Index == 0 {
								return kint(sc.stored), true
							}
							return kint(sc.found), true
						}
					}
				}
			}
			if prev != nil {
				return prev(v, ex, st, fr)
			}
			return aval{}, false
		}
		outs := e.Explore(cm.snDisp, map[string]aval{"type:sn": kstr("*packets1.Register"), "f:packets1.Register.TopicID": kint(7)}, nil)
		key := "client-REGISTER[" + sc.name + "]"
		okc := len(outs) > 0
		for _, o := range outs {
			acc := false
			for _, ev := range eventsWithPrefix(o, "sn:") {
				if strings.Contains(ev, "NewRegack(7,0)") {
					acc = true
				}
			}
			if !acc {
				okc = false
			}
		}
		r.cond(okc, "R7", key, c.pos(cm.snDisp.Pos()), firstOutcome(outs), "the client does not acknowledge this REGISTER with REGACK(accepted): when its first REGACK is lost the gateway's retransmission (same name, same ID) is rejected, the gateway fails the exchange and the broker's message is dropped although the loss was within the retry budget: "+allOutcomes(outs))
	}
	c.checkStoresReceivedPublish(r, "R5", "a path does not record the received QoS 2 PUBLISH: on PUBREL the handler runs with a stale message (exactly-once broken when a message ID is reused)")
	// R4: budget stop (re-check of the shared rule's core)
	for _, fn := range c.repoFuncs("transactions") {
		var cb ssa.Instruction
		allInstrs(fn, func(i ssa.Instruction) {
			if f, ok := dynCallOfField(i); ok && strings.Contains(strings.ToLower(f), "retry") {
				cb = i
			}
		})
		if cb == nil {
			continue
		}
		bad := false
		allInstrs(fn, func(i ssa.Instruction) {
			ci, ok := i.(ssa.CallInstruction)
			if !ok {
				return
			}
			g := staticCallee(ci.Common())
			if g == nil || !c.mayReachCompletion(g, 3) {
				return
			}
			if reach, _ := pathExists(fn, i, func(x ssa.Instruction) bool {
				if cj, ok := x.(ssa.CallInstruction); ok {
					if h := staticCallee(cj.Common()); h != nil && c.armsTimer(h, 2) {
						return true
					}
				}
				return x == cb
			}, nil); reach {
				bad = true
			}
		})
		r.cond(!bad, "R4", fnKey(fn)+":stops-after-budget", c.pos(fn.Pos()), "nothing is re-armed or retransmitted after the transaction failed", "the retry timer is re-armed (or the callback runs) after the transaction failed: the gateway does not stop after RetryCount retransmissions")
	}
}

func (c *Ctx) functionHasParam(f *ssa.Function, pkgpath, tname string) bool {
	for _, p := range f.Params {
		if typeIs(p.Type(), pkgpath, tname) {
			return true
		}
	}
	return false
}

// checkClientQoS2Receive: the client's handling of an inbound QoS 2 PUBLISH,
// explored per (what is stored under its message ID, DUP flag). (a) With
// nothing stored - whatever the DUP flag: the first copy the client sees may
// already be a retransmission - a receive transaction is created and stored
// before the PUBREC leaves, otherwise the exchange completes without the
// handler ever running. (b) With the receive transaction stored, no second one
// is created. (c) With a transaction of another kind stored (the client's own
// exchange under the same ID) nothing is stored: the client's exchange must
// not be evicted.
func (c *Ctx) checkClientQoS2Receive(r *Report, rule string, cm *gwModel) {
	// the handler runs exactly once: the PUBREL step that hands the stored PUBLISH to the handlers also completes the
	// exchange, so a repeated PUBREL (lost PUBCOMP) finds nothing stored and is only acknowledged
	{
		e := cm.clientExplorer()
		outs := e.Explore(cm.snDisp, map[string]aval{"type:sn": kstr("*packets1.Pubrel"), "type:tx": kstr(c.clBrokerPub2Tx())}, nil)
		key := "client-PUBREL[stored=" + strings.TrimPrefix(c.clBrokerPub2Tx(), "*client.") + "]:delivery-completes-the-exchange"
		okc := len(outs) > 0
		detail := ""
		delivered := false
		for _, o := range outs {
			if !(len(o.Ret) > 0 && o.Ret[len(o.Ret)-1] == "nil") {
				continue
			}
			dl, done := false, false
			for _, ev := range o.Events {
				if strings.HasPrefix(ev, "go ") || ev == "go" {
					dl = true
				}
				if ev == "tx.Success" {
					done = true
				}
			}
			if dl {
				delivered = true
				if !done {
					okc, detail = false, "the PUBREL handler delivers the stored PUBLISH to the subscription handlers and acknowledges, but leaves the exchange registered: every retransmitted PUBREL (lost PUBCOMP) delivers the same message again: "+strings.Join(o.Events, " ; ")
				}
			}
		}
		if len(outs) == 0 || !delivered {
			r.undecided(rule, key, c.pos(cm.snDisp.Pos()), "no path of the PUBREL case that delivers the stored PUBLISH was found")
		} else {
			r.cond(okc, rule, key, c.pos(cm.snDisp.Pos()), "every path that delivers also completes the exchange", detail)
		}
	}
	for _, tx := range []string{"none", c.clBrokerPub2Tx(), c.clPub1Tx(), c.clPub2Tx(), c.clSubscribeTx()} {
		for _, dup := range []int64{0, 1} {
			e := cm.clientExplorer()
			outs := e.Explore(cm.snDisp, map[string]aval{"type:sn": kstr("*packets1.Publish"), "type:tx": kstr(tx), "f:packets1.Publish.QOS": kint(2),
				"f:packets.DUPProperty.dup": kint(dup), "f:packets1.Publish.TopicIDType": kint(2)}, nil)
			key := fmt.Sprintf("client-PUBLISH-QoS2[stored=%s,dup=%d]", strings.TrimPrefix(tx, "*client."), dup)
			okc := len(outs) > 0
			detail := ""
			for _, o := range outs {
				stored, rec := false, false
				storeBeforeRec := false
				for _, ev := range o.Events {
					if strings.HasPrefix(ev, "store.Store") {
						stored = true
					}
					if strings.HasPrefix(ev, "sn:") && strings.Contains(ev, "Pubrec") {
						rec = true
						storeBeforeRec = stored
					}
				}
				switch {
				case tx == "none" && rec && !storeBeforeRec:
					okc, detail = false, "a QoS 2 PUBLISH under a free message ID is acknowledged with PUBREC although no receive transaction was stored: PUBREL is then answered by the 'already finished' fallback and the subscription's handler never runs (when the first copy was lost this is the only copy the client sees): "+strings.Join(o.Events, " ; ")
				case tx == c.clBrokerPub2Tx() && stored:
					okc, detail = false, "a retransmitted QoS 2 PUBLISH creates a second receive transaction: "+strings.Join(o.Events, " ; ")
				case tx != "none" && tx != c.clBrokerPub2Tx() && stored:
					okc, detail = false, "an inbound QoS 2 PUBLISH replaces the transaction of another kind stored under its message ID (the client's own exchange in flight): its acknowledgement is then dropped and the API call fails although the gateway acknowledged in time: "+strings.Join(o.Events, " ; ")
				}
			}
			if okc {
				r.ok(rule, key, c.pos(cm.snDisp.Pos()), firstOutcome(outs))
			} else if detail == "" {
				r.undecided(rule, key, c.pos(cm.snDisp.Pos()), "no outcome explored")
			} else {
				r.bad(rule, key, c.pos(cm.snDisp.Pos()), detail)
			}
		}
	}
}

func isEmptyInterface(t types.Type) bool {
	it, ok := t.Underlying().(*types.Interface)
	return ok && it.NumMethods() == 0
}

// checkClientCallbacksAsync (C17-R8): the receive loop never runs application code. The acknowledgements Publish waits
// for (PUBACK, PUBREC, PUBCOMP) and the PUBRELs the client must answer are all read by one goroutine; a subscription
// callback called synchronously on it keeps them unread for as long as the application likes (a callback that itself
// publishes with QoS >= 1 waits for an acknowledgement that cannot be read). Application callbacks = values of the
// named function types of package client that exported methods of the client take as parameters. Every call of such a
// value in a function reachable from the dispatcher must be a go statement.
func (c *Ctx) checkClientCallbacksAsync(r *Report, rule string, m *gwModel) {
	cbTypes := map[string]bool{}
	for _, f := range c.repoFuncs("client") {
		if f.Parent() != nil || f.Signature.Recv() == nil || f.Object() == nil || !f.Object().Exported() {
			continue
		}
		ps := f.Signature.Params()
		for k := 0; k < ps.Len(); k++ {
			if nt, ok := ps.At(k).Type().(*types.Named); ok {
				if _, isFn := nt.Underlying().(*types.Signature); isFn && nt.Obj().Pkg() != nil && nt.Obj().Pkg().Path() == pkClient {
					cbTypes[nt.Obj().Name()] = true
				}
			}
		}
	}
	if len(cbTypes) == 0 {
		r.undecided(rule, "client:application-callback-types", "-", "no exported client method takes a named callback type")
		return
	}
	// functions reachable from the dispatcher
	reach := map[*ssa.Function]bool{}
	cg := c.CG()
	work := []*ssa.Function{m.snDisp}
	for len(work) > 0 {
		f := work[len(work)-1]
		work = work[:len(work)-1]
		if reach[f] {
			continue
		}
		reach[f] = true
		// closures run synchronously unless started with go; a go-started closure is no longer on the receive loop
		if n := cg.Nodes[f]; n != nil {
			for _, e := range n.Out {
				if _, isGo := e.Site.(*ssa.Go); isGo {
					continue
				}
				if e.Callee != nil && e.Callee.Func != nil && fnPkgPath(e.Callee.Func) == pkClient {
					work = append(work, e.Callee.Func)
				}
			}
		}
	}
	n := 0
	for _, f := range c.repoFuncs("client") {
		allInstrs(f, func(i ssa.Instruction) {
			ci, ok := i.(ssa.CallInstruction)
			if !ok || ci.Common().IsInvoke() {
				return
			}
			nt, ok := ci.Common().Value.Type().(*types.Named)
			if !ok || nt.Obj().Pkg() == nil || nt.Obj().Pkg().Path() != pkClient || !cbTypes[nt.Obj().Name()] {
				return
			}
			n++
			r.fn(f)
			key := fmt.Sprintf("%s:call-of(%s)", fnKey(f), nt.Obj().Name())
			_, isGo := i.(*ssa.Go)
			switch {
			case isGo:
				r.ok(rule, key, c.instrPos(i), "the application callback runs in its own goroutine")
			case !reach[f]:
				r.ok(rule, key, c.instrPos(i), "called synchronously, but not on the receive loop")
			default:
				r.bad(rule, key, c.instrPos(i), "an application callback ("+nt.Obj().Name()+") is called synchronously on the goroutine that reads the gateway's packets: until it returns no PUBACK/PUBREC/PUBCOMP is read (a callback that publishes with QoS 1 or 2 exhausts its retry budget although the gateway acknowledged at once) and no PUBREL is answered")
			}
		})
	}
	if n == 0 {
		r.undecided(rule, "client:application-callback-calls", "-", "no call of an application callback found in package client")
	}
}

// checkClientRegistryMonotone (C17-R9): the PUBREL handler of a stored QoS 2 PUBLISH resolves the PUBLISH's topic ID
// before it answers; its only exit without PUBCOMP is a failed lookup. The stored PUBLISH was sent by the gateway with
// an ID the client had acknowledged (REGACK) or been given (SUBACK, REGISTER) - so that exit is unreachable exactly as
// long as the client never forgets a topic ID it once knew: the maps the dispatcher's REGISTER case writes are never
// shrunk (no delete) and never replaced outside the constructor.
func (c *Ctx) checkClientRegistryMonotone(r *Report, rule string, m *gwModel) {
	cells := map[string]bool{}
	var mark func(f *ssa.Function, d int)
	seen := map[*ssa.Function]bool{}
	mark = func(f *ssa.Function, d int) {
		if seen[f] || d > 2 {
			return
		}
		seen[f] = true
		allInstrs(f, func(i ssa.Instruction) {
			if mu, ok := i.(*ssa.MapUpdate); ok {
				if u, ok := mu.Map.(*ssa.UnOp); ok {
					if fa, ok := u.X.(*ssa.FieldAddr); ok {
						if mt, ok := u.Type().Underlying().(*types.Map); ok {
							kb, _ := mt.Key().Underlying().(*types.Basic)
							eb, _ := mt.Elem().Underlying().(*types.Basic)
							if (kb != nil && kb.Kind() == types.Uint16) || (eb != nil && eb.Kind() == types.Uint16) {
								cells[fieldCell(fa)] = true
							}
						}
					}
				}
			}
		})
	}
	mark(m.snDisp, 0)
	for _, f := range c.repoFuncs("client") {
		// the SUBACK continuation stores the assigned ID too
		if f.Signature.Recv() != nil && c.functionHasParam(f, pkPackets1, "Suback") {
			mark(f, 0)
		}
	}
	if len(cells) == 0 {
		r.undecided(rule, "client:topic-registry", "-", "no (name <-> uint16 ID) map written by the client's dispatcher found")
		return
	}
	for cell := range cells {
		key := "client:topic-registry(" + stableFieldKeyOfCell(cell) + "):never-shrinks"
		bad := ""
		n := 0
		for _, f := range c.repoFuncs("client") {
			allInstrs(f, func(i ssa.Instruction) {
				switch x := i.(type) {
				case ssa.CallInstruction:
					if b, ok := x.Common().Value.(*ssa.Builtin); ok && (b.Name() == "delete" || b.Name() == "clear") && len(x.Common().Args) > 0 {
						if u, ok := x.Common().Args[0].(*ssa.UnOp); ok {
							if fa, ok := u.X.(*ssa.FieldAddr); ok && fieldCell(fa) == cell {
								n++
								bad = c.instrPos(i) + ": " + fnKey(f) + " removes entries"
							}
						}
					}
				case *ssa.Store:
					if fa, ok := x.Addr.(*ssa.FieldAddr); ok && fieldCell(fa) == cell {
						n++
						if !isFreshObject(fa.X) {
							bad = c.instrPos(i) + ": " + fnKey(f) + " replaces the map of a live client"
						}
					}
				case *ssa.MapUpdate:
					if u, ok := x.Map.(*ssa.UnOp); ok {
						if fa, ok := u.X.(*ssa.FieldAddr); ok && fieldCell(fa) == cell {
							n++
						}
					}
				}
			})
		}
		r.cond(bad == "", rule, key, c.pos(m.snDisp.Pos()), fmt.Sprintf("%d writes: entries are only added, the map is only set at construction", n),
			"the client forgets topic IDs it once knew ("+bad+"): a QoS 2 PUBLISH received before is still stored with that ID, its PUBREL then fails the lookup, no PUBCOMP is sent and the receive loop ends with the error - every later PUBREL stays unanswered")
	}
}

func stableFieldKeyOfCell(cell string) string {
	return strings.TrimPrefix(cell, "f:")
}

// checkStoresReceivedPublish: the client's QoS 2 receive transaction keeps the PUBLISH it is handed, on every path of
// the method that takes it (the PUBREL handler dereferences the stored pointer unconditionally).
func (c *Ctx) checkStoresReceivedPublish(r *Report, rule, why string) {
	n := 0
	// the client's QoS 2 receive transaction keeps the PUBLISH it is handed (each time)
	for _, f := range c.repoFuncs("client") {
		if f.Signature.Recv() == nil || len(f.Params) != 2 || !typeIs(f.Params[1].Type(), pkPackets1, "Publish") {
			continue
		}
		st := structOf(f.Signature.Recv().Type())
		if st == nil {
			continue
		}
		field := ""
		for k := 0; k < st.NumFields(); k++ {
			if typeIs(st.Field(k).Type(), pkPackets1, "Publish") {
				field = st.Field(k).Name()
			}
		}
		if field == "" {
			continue
		}
		r.fn(f)
		key := fnKey(f) + ":stores-received-publish"
		isStore := func(x ssa.Instruction) bool {
			s, ok := x.(*ssa.Store)
			if !ok {
				return false
			}
			fa, ok := s.Addr.(*ssa.FieldAddr)
			return ok && fieldName(fa.X.Type(), fa.Field) == field && s.Val == ssa.Value(f.Params[1])
		}
		reach, _ := pathExists(f, nil, func(x ssa.Instruction) bool { _, ok := x.(*ssa.Return); return ok }, isStore)
		n++
		r.cond(!reach, rule, key, c.pos(f.Pos()), "every path stores the received PUBLISH for the PUBREL", why)
	}
	if n == 0 {
		r.undecided(rule, "client:stores-received-publish", "-", "no client method taking a *Publish into a struct that keeps one found")
	}
}
