package main

import (
	"fmt"
	"golang.org/x/tools/go/packages"
	"golang.org/x/tools/go/ssa"
	"golang.org/x/tools/go/ssa/ssautil"
)

func main() {
	cfg := &packages.Config{Mode: packages.LoadAllSyntax, Dir: "/repo", Env: nil}
	pkgs, err := packages.Load(cfg, "./...")
	if err != nil {
		panic(err)
	}
	prog, spkgs := ssautil.AllPackages(pkgs, ssa.InstantiateGenerics)
	prog.Build()
	fmt.Println(len(pkgs), len(spkgs))
}
