// bisqcheck: repository-specific static analyser for energomonitor/bisquitt.
//
// Every verdict is computed from the type-checked source / SSA of the repo's
// current working tree. Nothing in here executes bisquitt code.
package main

import (
	"flag"
	"fmt"
	"os"
	"runtime/debug"
	"sort"
	"strconv"
	"time"
)

type propCheck struct {
	id   string
	run  func(c *Ctx, r *Report)
	init func(r *Report)
	// post runs once after all configurations (e.g. compiler BCE pass)
	post func(cs []*Ctx, r *Report, tier string)
}

var registry = map[string]*propCheck{}

func register(id string, init func(r *Report), run func(c *Ctx, r *Report)) *propCheck {
	p := &propCheck{id: id, run: run, init: init}
	registry[id] = p
	return p
}

func main() {
	prop := flag.String("property", "", "property id (C01..C34)")
	tier := flag.String("tier", "quick", "quick|thorough")
	repo := flag.String("repo", "/repo", "path of the bisquitt working tree")
	verif := flag.String("verif", "/verif", "path of the verification directory (evidence, known findings)")
	list := flag.Bool("list", false, "list implemented properties")
	noSelf := flag.Bool("no-selftest", false, "thorough: skip mutant self-validation")
	flag.Parse()
	if *list {
		var ids []string
		for id := range registry {
			ids = append(ids, id)
		}
		sort.Strings(ids)
		for _, id := range ids {
			fmt.Println(id)
		}
		return
	}
	if t := os.Getenv("VERIF_TIER"); t != "" && !isFlagSet("tier") {
		*tier = t
	}
	seed := 0
	if s := os.Getenv("VERIF_SEED"); s != "" {
		seed, _ = strconv.Atoi(s)
	}
	pc, ok := registry[*prop]
	if !ok {
		fmt.Printf("unknown property %q\n", *prop)
		os.Exit(2)
	}
	started := time.Now()
	r := newReport(pc.id)
	if pc.init != nil {
		pc.init(r)
	}
	type cfg struct{ goos, goarch string }
	cfgs := []cfg{{"", ""}}
	if *tier == "thorough" {
		cfgs = append(cfgs, cfg{"linux", "386"}, cfg{"windows", "amd64"})
	}
	var names []string
	var ctxs []*Ctx
	code := 0
	func() {
		defer func() {
			if e := recover(); e != nil {
				r.configActive = ""
				r.undecided("R0", "analyser-panic", "-", fmt.Sprintf("analyser panicked: %v\n%s", e, debug.Stack()))
			}
		}()
		for _, cf := range cfgs {
			name := "linux/amd64"
			if cf.goos != "" {
				name = cf.goos + "/" + cf.goarch
			}
			names = append(names, name)
			c, err := loadRepo(*repo, *tier, cf.goos, cf.goarch)
			if err != nil {
				r.configActive = name
				r.undecided("R0", "load:"+name, "-", "cannot load/type-check the tree: "+err.Error())
				continue
			}
			r.configActive = name
			pc.run(c, r)
			ctxs = append(ctxs, c)
		}
		r.configActive = ""
		if pc.post != nil {
			pc.post(ctxs, r, *tier)
		}
	}()
	extra := map[string]interface{}{}
	if *tier == "thorough" && !*noSelf {
		selfValidate(pc.id, *repo, *verif, extra)
	}
	code = r.finish(*verif, *tier, seed, names, started, extra)
	os.Exit(code)
}

func isFlagSet(name string) bool {
	set := false
	flag.Visit(func(f *flag.Flag) {
		if f.Name == name {
			set = true
		}
	})
	return set
}
