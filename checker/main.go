// bisqcheck: repository-specific static analyser for energomonitor/bisquitt.
//
// Every verdict is computed from the type-checked source / SSA of the repo's
// current working tree. Nothing in here executes bisquitt code.
package main

import (
	"flag"
	"fmt"
	"os"
	"runtime/debug"
	"sort"
	"strconv"
	"strings"
	"time"
)

type propCheck struct {
	id   string
	run  func(c *Ctx, r *Report)
	init func(r *Report)
	// post runs once after all configurations (e.g. compiler BCE pass)
	post func(cs []*Ctx, r *Report, tier string)
}

var registry = map[string]*propCheck{}

func register(id string, init func(r *Report), run func(c *Ctx, r *Report)) *propCheck {
	p := &propCheck{id: id, run: run, init: init}
	registry[id] = p
	return p
}

func main() {
	prop := flag.String("property", "", "property id (C01..C34)")
	tier := flag.String("tier", "quick", "quick|thorough")
	repo := flag.String("repo", "/repo", "path of the bisquitt working tree")
	verif := flag.String("verif", "/verif", "path of the verification directory (evidence, known findings)")
	list := flag.Bool("list", false, "list implemented properties")
	noSelf := flag.Bool("no-selftest", false, "thorough: skip mutant self-validation")
	flag.Parse()
	if *list {
		var ids []string
		for id := range registry {
			ids = append(ids, id)
		}
		sort.Strings(ids)
		for _, id := range ids {
			fmt.Println(id)
		}
		return
	}
	if t := os.Getenv("VERIF_TIER"); t != "" && !isFlagSet("tier") {
		*tier = t
	}
	seed := 0
	if s := os.Getenv("VERIF_SEED"); s != "" {
		seed, _ = strconv.Atoi(s)
	}
	var pcs []*propCheck
	if *prop == "all" {
		var ids []string
		for id := range registry {
			ids = append(ids, id)
		}
		sort.Strings(ids)
		for _, id := range ids {
			pcs = append(pcs, registry[id])
		}
	} else {
		for _, id := range strings.Split(*prop, ",") {
			pc, ok := registry[id]
			if !ok {
				fmt.Printf("unknown property %q\n", id)
				os.Exit(2)
			}
			pcs = append(pcs, pc)
		}
	}
	started := time.Now()
	reports := make([]*Report, len(pcs))
	for i, pc := range pcs {
		reports[i] = newReport(pc.id)
		if pc.init != nil {
			pc.init(reports[i])
		}
	}
	type cfg struct{ goos, goarch string }
	cfgs := []cfg{{"", ""}}
	if *tier == "thorough" {
		// a 32-bit configuration (int width, build-tagged files); GOOS=windows is not a configuration of this
		// repository: util/syslog_logger.go imports log/syslog, which does not exist there, so the tree does not build
		cfgs = append(cfgs, cfg{"linux", "386"})
	}
	var names []string
	var ctxs []*Ctx
	// one load per configuration, shared by all requested properties (several
	// properties in one process is what the mutant matrix uses)
	for _, cf := range cfgs {
		name := "linux/amd64"
		if cf.goos != "" {
			name = cf.goos + "/" + cf.goarch
		}
		names = append(names, name)
		c, err := loadRepo(*repo, *tier, cf.goos, cf.goarch)
		for i, pc := range pcs {
			r := reports[i]
			r.configActive = name
			if err != nil {
				r.undecided("R0", "load:"+name, "-", "cannot load/type-check the tree: "+err.Error())
				continue
			}
			func() {
				defer func() {
					if e := recover(); e != nil {
						r.undecided("R0", "analyser-panic", "-", fmt.Sprintf("analyser panicked: %v\n%s", e, debug.Stack()))
					}
				}()
				pc.run(c, r)
				if d, ok := codecDeps[pc.id]; ok {
					importCodec(c, r, "RC", d.decoded, d.encoded, d.short)
				}
			}()
		}
		if err == nil {
			ctxs = append(ctxs, c)
		}
	}
	code := 0
	for i, pc := range pcs {
		r := reports[i]
		r.configActive = ""
		if pc.post != nil {
			func() {
				defer func() {
					if e := recover(); e != nil {
						r.undecided("R0", "analyser-panic", "-", fmt.Sprintf("analyser panicked: %v\n%s", e, debug.Stack()))
					}
				}()
				pc.post(ctxs, r, *tier)
			}()
		}
		extra := map[string]interface{}{}
		if *tier == "thorough" && !*noSelf {
			selfValidate(pc.id, *repo, *verif, extra)
		}
		if rc := r.finish(*verif, *tier, seed, names, started, extra); rc > code {
			code = rc
		}
	}
	os.Exit(code)
}

func isFlagSet(name string) bool {
	set := false
	flag.Visit(func(f *flag.Flag) {
		if f.Name == name {
			set = true
		}
	})
	return set
}
