package main

import (
	"fmt"
	"go/token"
	"go/types"
	"path/filepath"
	"strings"

	"golang.org/x/tools/go/ssa"
)

func init() {
	p := register("C25", func(r *Report) {
		r.Explanation = "Every instruction that can panic in packages gateway, client, transactions, topics and util is enumerated; a green result means each has a named argument. (R1) unchecked type assertions: NewControlPacket(<const>).(*T) agrees with paho's code table; assertions on a transaction's stored step data are implied by the types all Proceed sites of that transaction family store - restricted to the Proceed sites of the state the assertion is guarded by when a state guard dominates it; assertions on sync.Map keys/values are implied by all Store sites of that map; (R2) index and slice operations: absent from the compiler's unproven-bounds list, or dominated by a length guard, or the inlined bytes.Buffer accessor; (R3) explicit panics only behind a failed comma-ok assertion that the type-flow shows cannot fail; (R4) pointer fields reset to nil after construction are never used by another goroutine without a common lock; (R5) plain maps shared between goroutines are only accessed under a common lock; (R6) the packet pointer the client's PUBREL handler dereferences is stored on every path of the handler that creates the transaction, for every (stored transaction, DUP) combination (C17-R6, re-run here); (R7) packet pointers of stateful transactions that are filled in after construction are used only under a nil test or under a state guard whose every entry follows the store of the pointer. Known finding: the sleep transaction's DISCONNECT pointer. Not decided: panics inside dependencies, stack or memory exhaustion."
		r.floor("R1", 15)
		r.floor("R2", 2)
		r.floor("R3", 1)
		r.floor("R5", 1)
		r.floor("R6", 4)
		r.floor("R7", 1)
	}, checkC25)
	p.post = postC25
}

var c25Pkgs = []string{"gateway", "client", "transactions", "topics", "util"}

// bounds checks are also decided for the codec-side helpers the five packages call at run time
// (DecodePlain, the short-topic codec, Pack ...); the decode closure itself is C20's.
var c25BoundsPkgs = []string{"gateway", "client", "transactions", "topics", "util", "packets", "packets1"}

// inDecodeClosure: functions whose panic sites C20 decides (entry ReadPacket).
func (c *Ctx) inDecodeClosure(f *ssa.Function) bool {
	for f.Parent() != nil {
		f = f.Parent()
	}
	if c.decodeSet == nil {
		c.decodeSet, _ = c.decodeClosure()
	}
	return c.decodeSet[f]
}

// gatewayHandlerType: the per-session handler struct of package gateway (the struct holding the
// session state cell), whatever its name.
func (c *Ctx) gatewayHandlerType() string {
	p := c.ByPath[pkGateway]
	if p == nil {
		return ""
	}
	scope := p.Types.Scope()
	for _, n := range scope.Names() {
		tn, ok := scope.Lookup(n).(*types.TypeName)
		if !ok {
			continue
		}
		st, ok := tn.Type().Underlying().(*types.Struct)
		if !ok {
			continue
		}
		for k := 0; k < st.NumFields(); k++ {
			if typeIs(derefType(st.Field(k).Type()), pkUtil, "ClientState") {
				return tn.Name()
			}
		}
	}
	return ""
}

type proceedSite struct {
	State int64 // -1 unknown, -2 nil
	Types []string
	Fn    *ssa.Function
	Ctors map[*ssa.Function]bool // transaction constructors whose product can be the receiver here
}

// txCtors: constructors of package rel returning a struct (pointer) that
// (transitively) embeds a transactions.*Transaction type.
func (c *Ctx) txCtors(rel string) []*ssa.Function {
	var out []*ssa.Function
	for _, f := range c.repoFuncs(rel) {
		if f.Parent() != nil || f.Signature.Recv() != nil || f.Signature.Results().Len() != 1 {
			continue
		}
		rt := f.Signature.Results().At(0).Type()
		if !strings.HasPrefix(typeStr(rt), "*"+rel+".") {
			continue
		}
		p := c.ByPath[pkTrans]
		for _, n := range []string{"RetryTransaction", "TimedTransaction", "TransactionBase"} {
			if obj := p.Types.Scope().Lookup(n); obj != nil && c.embeds(rt, types.NewPointer(obj.Type())) {
				out = append(out, f)
				break
			}
		}
	}
	return out
}

// ctorsForRecvType: constructors whose product is R or embeds R.
func (c *Ctx) ctorsForRecvType(rel string, R types.Type) map[*ssa.Function]bool {
	out := map[*ssa.Function]bool{}
	for _, k := range c.txCtors(rel) {
		rt := k.Signature.Results().At(0).Type()
		if types.Identical(rt, R) || c.embeds(rt, R) {
			out[k] = true
		}
	}
	return out
}

type statePair struct {
	State int64
	Types []string
}

// resolvePairs resolves the (state, data) arguments of a Proceed-like call
// jointly, through phis assigned in the same branches and through wrapper
// parameters (callers), so that the pairing survives.
func (c *Ctx) resolvePairs(rel string, stateV, dataV ssa.Value, f *ssa.Function, depth int) []statePair {
	strip := func(v ssa.Value) ssa.Value {
		for {
			switch x := v.(type) {
			case *ssa.MakeInterface:
				if _, isC := x.X.(*ssa.Const); isC {
					return v
				}
				v = x.X
				continue
			case *ssa.ChangeInterface:
				v = x.X
				continue
			}
			return v
		}
	}
	sp, dp := strip(stateV), strip(dataV)
	// edge-wise pairing of phis defined in the same block
	if ps, ok := sp.(*ssa.Phi); ok {
		if pd, ok := dp.(*ssa.Phi); ok && pd.Block() == ps.Block() && len(pd.Edges) == len(ps.Edges) {
			var out []statePair
			for k := range ps.Edges {
				out = append(out, c.resolvePairs(rel, ps.Edges[k], pd.Edges[k], f, depth+1)...)
			}
			return out
		}
		var out []statePair
		for _, e := range ps.Edges {
			out = append(out, c.resolvePairs(rel, e, dataV, f, depth+1)...)
		}
		return out
	}
	state := int64(-1)
	stateParam := (*ssa.Parameter)(nil)
	if k, ok := constInt(stateV); ok {
		state = k
	} else if k, ok := sp.(*ssa.Const); ok && k.Value == nil {
		state = -2
	} else if p, ok := sp.(*ssa.Parameter); ok {
		stateParam = p
	}
	var tys []string
	dataParam := (*ssa.Parameter)(nil)
	if p, ok := dp.(*ssa.Parameter); ok {
		if _, isIface := p.Type().Underlying().(*types.Interface); isIface {
			dataParam = p
		} else {
			tys = []string{typeStr(p.Type())}
		}
	} else if u, ok := dp.(*ssa.UnOp); ok && u.Op == token.MUL {
		if _, isIface := dp.Type().Underlying().(*types.Interface); !isIface {
			tys = []string{typeStr(dp.Type())}
		} else {
			tys = []string{"?" + exprStr(dp)}
		}
	} else {
		tys = c.concreteTypesOf(dataV)
	}
	if (stateParam == nil && dataParam == nil) || depth > 4 {
		if dataParam != nil {
			tys = []string{"?param " + dataParam.Name()}
		}
		return []statePair{{state, tys}}
	}
	// one of them is a parameter of f: go through the callers
	var out []statePair
	n := 0
	for _, g := range c.repoFuncs(rel) {
		allInstrs(g, func(i ssa.Instruction) {
			ci, ok := i.(ssa.CallInstruction)
			if !ok {
				return
			}
			cc := ci.Common()
			var args []ssa.Value
			if h := staticCallee(cc); h == f {
				args = cc.Args
			} else if cc.IsInvoke() && f.Signature.Recv() != nil && cc.Method.Name() == f.Name() {
				if iface, ok := cc.Value.Type().Underlying().(*types.Interface); ok && (types.Implements(f.Signature.Recv().Type(), iface) || c.someEmbedderImplements(rel, f.Signature.Recv().Type(), iface)) {
					args = append([]ssa.Value{cc.Value}, cc.Args...)
				}
			}
			if args == nil {
				return
			}
			n++
			sv, dv := stateV, dataV
			if stateParam != nil {
				sv = args[paramIndex(f, stateParam)]
			}
			if dataParam != nil {
				dv = args[paramIndex(f, dataParam)]
			}
			sub := c.resolvePairs(rel, sv, dv, g, depth+1)
			for _, sp := range sub {
				if stateParam == nil {
					sp.State = state
				}
				if dataParam == nil {
					sp.Types = tys
				}
				out = append(out, sp)
			}
		})
	}
	if n == 0 {
		return []statePair{{state, append(tys, "?no-callers")}}
	}
	return out
}

func (c *Ctx) someEmbedderImplements(rel string, inner types.Type, iface *types.Interface) bool {
	p := c.ByPath[modPath+"/"+rel]
	scope := p.Types.Scope()
	for _, n := range scope.Names() {
		tn, ok := scope.Lookup(n).(*types.TypeName)
		if !ok {
			continue
		}
		pt := types.NewPointer(tn.Type())
		if c.embeds(pt, inner) && types.Implements(pt, iface) {
			return true
		}
	}
	return false
}

// proceedSites: all Proceed calls of package rel with their (state, data
// types) pairs and the constructors whose transactions they can concern.
func (c *Ctx) proceedSites(rel string) []proceedSite {
	var out []proceedSite
	for _, f := range c.repoFuncs(rel) {
		allInstrs(f, func(i ssa.Instruction) {
			ci, ok := i.(ssa.CallInstruction)
			if !ok {
				return
			}
			cc := ci.Common()
			var stateArg, dataArg, recv ssa.Value
			if cc.IsInvoke() && cc.Method.Name() == "Proceed" && len(cc.Args) == 2 {
				recv, stateArg, dataArg = cc.Value, cc.Args[0], cc.Args[1]
			} else if g := staticCallee(cc); g != nil && g.Name() == "Proceed" && strings.Contains(fnPkgPath(g), "/transactions") && len(cc.Args) == 3 {
				recv, stateArg, dataArg = cc.Args[0], cc.Args[1], cc.Args[2]
			} else {
				return
			}
			// constructors concerned
			ctors := map[*ssa.Function]bool{}
			if f.Signature.Recv() != nil {
				ctors = c.ctorsForRecvType(rel, f.Signature.Recv().Type())
			}
			if len(ctors) == 0 {
				for _, k := range c.txCtors(rel) {
					allInstrs(f, func(j ssa.Instruction) {
						if call, ok := j.(*ssa.Call); ok && staticCallee(&call.Call) == k {
							if flowsTo(call, recv) || c.rootedAt(recv, call) || c.phiRootedAt(recv, call) {
								ctors[k] = true
							}
						}
					})
				}
			}
			for _, sp := range c.resolvePairs(rel, stateArg, dataArg, f, 0) {
				out = append(out, proceedSite{State: sp.State, Types: sp.Types, Fn: f, Ctors: ctors})
			}
		})
	}
	// wrapper callers: a site inside a wrapper method (ProceedSN) was resolved through its callers, whose
	// own constructor sets may be narrower; refine: if the wrapper is called through an interface in a plain
	// function, the pairs already carry the right states, the ctor set stays the wrapper's (all embedders).
	return out
}

// phiRootedAt: recv is a field path below a phi/interface that may hold obj.
func (c *Ctx) phiRootedAt(v, obj ssa.Value) bool {
	for d := 0; d < 6; d++ {
		switch x := v.(type) {
		case *ssa.UnOp:
			v = x.X
		case *ssa.FieldAddr:
			v = x.X
		case *ssa.Field:
			v = x.X
		default:
			return flowsTo(obj, v)
		}
	}
	return false
}

func checkC25(c *Ctx, r *Report) {
	// R6: packet pointers a later handler dereferences are stored by the handler that creates the transaction, on every
	// path: the client's PUBREL handler reads the PUBLISH stored by the QoS 2 PUBLISH handler (C17-R6 explores that
	// handler per (stored transaction, DUP) and requires the store on every accepting path; re-run here - an
	// unconditional dereference of a conditionally stored pointer is a nil dereference some packet sequence reaches)
	importRulesF(c, r, "C17", map[string]string{"R6": "R6"}, nil)
	c.checkStateGuardedPointers(r, "R7", "gateway")
	c.checkStateGuardedPointers(r, "R7", "client")
	c.checkStoresReceivedPublish(r, "R6", "a path of the handler that takes the QoS 2 PUBLISH does not store it: the transaction stays registered with a nil PUBLISH and the PUBREL handler dereferences it (topic lookup) - a PUBLISH(DUP=1) followed by PUBREL crashes the client's receive loop with a nil pointer dereference")
	tf := c.newTypeFlow()
	sites := map[string][]proceedSite{}
	for _, rel := range []string{"gateway", "client"} {
		sites[rel] = c.proceedSites(rel)
	}
	// R1: unchecked assertions
	for _, rel := range c25Pkgs {
		for _, f := range c.repoFuncs(rel) {
			allInstrs(f, func(i ssa.Instruction) {
				ta, ok := i.(*ssa.TypeAssert)
				if !ok || ta.CommaOk {
					return
				}
				r.fn(f)
				key := fmt.Sprintf("%s:%s.(%s)", fnKey(f), exprStr(ta.X), typeStr(ta.AssertedType))
				pos := c.instrPos(i)
				// (a) paho constructor
				if call, ok := ta.X.(*ssa.Call); ok && calleeName(&call.Call) == pahoPkts+".NewControlPacket" {
					k, okk := constInt(call.Call.Args[0])
					if okk && pahoTypeOfCode(k) == typeStr(ta.AssertedType) {
						r.ok("R1", key, pos, fmt.Sprintf("NewControlPacket(%d) returns %s (paho code table)", k, typeStr(ta.AssertedType)))
					} else {
						r.bad("R1", key, pos, "NewControlPacket's code does not produce the asserted type: the assertion panics at run time")
					}
					return
				}
				// (b) step data of a retry transaction: field Data or retry-callback parameter
				isData := false
				if u, ok := ta.X.(*ssa.UnOp); ok && u.Op == token.MUL {
					if fa, ok := u.X.(*ssa.FieldAddr); ok && fieldName(fa.X.Type(), fa.Field) == "Data" && strings.Contains(typeStr(fa.X.Type()), "RetryTransaction") {
						isData = true
					}
				}
				if p, ok := ta.X.(*ssa.Parameter); ok && paramIndex(f, p) == len(f.Params)-1 && c.isRetryCallback(f) {
					isData = true
				}
				if isData && (rel == "gateway" || rel == "client") {
					// state guard?
					guardState := int64(-1)
					for _, g := range guardsOf(i.Block()) {
						x, y, op, isCmp := cmpGuard(g)
						if !isCmp || op != token.EQL {
							continue
						}
						if u, ok := x.(*ssa.UnOp); ok && u.Op == token.MUL {
							if fa, ok := u.X.(*ssa.FieldAddr); ok && fieldName(fa.X.Type(), fa.Field) == "State" {
								if k, ok := constInt(y); ok {
									guardState = k
								}
							}
						}
					}
					fam := c.assertionCtors(rel, f)
					var tys []string
					n := 0
					for _, s := range sites[rel] {
						inFam := false
						for k := range s.Ctors {
							if fam[k] {
								inFam = true
							}
						}
						if !inFam {
							continue
						}
						if guardState >= 0 && s.State != guardState && s.State != -1 {
							continue
						}
						n++
						tys = append(tys, s.Types...)
					}
					okAll := n > 0
					bad := ""
					for _, t := range tys {
						if !tf.assertPasses(t, ta.AssertedType) || strings.HasPrefix(t, "?") {
							okAll = false
							bad = t
						}
					}
					gs := "no state guard"
					if guardState >= 0 {
						gs = fmt.Sprintf("guarded by State == %d", guardState)
					}
					if okAll {
						r.ok("R1", key, pos, fmt.Sprintf("%s; all %d Proceed sites of the transaction family store %v", gs, n, uniq(tys)))
					} else if n == 0 {
						r.undecided("R1", key, pos, "no Proceed site found for this transaction family")
					} else {
						r.bad("R1", key, pos, fmt.Sprintf("%s: a Proceed site of this transaction family stores %s, for which the assertion panics (a late or duplicated packet reaches this handler in that step)", gs, bad))
					}
					return
				}
				// (c) sync.Map key / value
				if src := c.syncMapSource(ta.X); src != nil {
					var tys []string
					if src.isKey {
						tys = c.syncMapKeyTypes(tf, src.recv)
					} else {
						tys = sortedKeys(tf.syncMapValues(src.recv, 0))
					}
					okAll := len(tys) > 0
					for _, t := range tys {
						if !tf.assertPasses(t, ta.AssertedType) || strings.HasPrefix(t, "?") {
							okAll = false
						}
					}
					if okAll {
						r.ok("R1", key, pos, fmt.Sprintf("all Store sites of that map store %v", tys))
					} else {
						r.bad("R1", key, pos, fmt.Sprintf("the map can hold %v: the assertion can panic", tys))
					}
					return
				}
				// (d) anything else: type-flow
				tys := tf.Types(ta.X)
				okAll := len(tys) > 0
				for _, t := range tys {
					if strings.HasPrefix(t, "?") || strings.HasPrefix(t, "<") || !tf.assertPasses(t, ta.AssertedType) {
						okAll = false
					}
				}
				if okAll {
					r.ok("R1", key, pos, fmt.Sprintf("type-flow set %v", tys))
				} else {
					r.bad("R1", key, pos, fmt.Sprintf("cannot show the assertion always holds: possible types %v", tys))
				}
			})
		}
	}
	// R3: explicit panics
	for _, rel := range c25Pkgs {
		for _, f := range c.repoFuncs(rel) {
			allInstrs(f, func(i ssa.Instruction) {
				p, ok := i.(*ssa.Panic)
				if !ok {
					return
				}
				if !p.Pos().IsValid() {
					return // synthesized (blocking select fallthrough)
				}
				r.fn(f)
				key := fnKey(f) + ":panic"
				// behind a failed comma-ok assertion whose source type-flow always passes?
				okc := false
				detail := "explicit panic reachable"
				for _, g := range guardsOf(i.Block()) {
					ex, ok := g.Cond.(*ssa.Extract)
					if !ok || g.Truth || ex.Index != 1 {
						continue
					}
					ta, ok := ex.Tuple.(*ssa.TypeAssert)
					if !ok {
						continue
					}
					var tys []string
					if src := c.syncMapSource(ta.X); src != nil && !src.isKey {
						tys = sortedKeys(tf.syncMapValues(src.recv, 0))
					} else {
						tys = tf.Types(ta.X)
					}
					all := len(tys) > 0
					for _, t := range tys {
						if strings.HasPrefix(t, "?") || !tf.assertPasses(t, ta.AssertedType) {
							all = false
						}
					}
					if all {
						okc = true
						detail = fmt.Sprintf("only behind a failed assertion to %s, but every value that can reach it has type %v", typeStr(ta.AssertedType), tys)
					} else {
						detail = fmt.Sprintf("panic behind a failed assertion that can fail: possible types %v", tys)
					}
				}
				r.cond(okc, "R3", key, c.instrPos(i), detail, detail)
			})
		}
	}
	// R4: pointer fields reset to nil after construction
	li := c.newLockInfo()
	c.checkTimerNeverNil(r, "R4", li)
	for _, rel := range []string{"gateway", "client", "transactions"} {
		seen := map[string]bool{}
		for _, f := range c.repoFuncs(rel) {
			allInstrs(f, func(i ssa.Instruction) {
				s, ok := i.(*ssa.Store)
				if !ok || !isNilConst(s.Val) {
					return
				}
				fa, ok := s.Addr.(*ssa.FieldAddr)
				if !ok || isFreshObject(fa.X) {
					return
				}
				if _, isPtr := derefType(fa.Type()).Underlying().(*types.Pointer); !isPtr {
					return
				}
				tn, fn := typeStr(derefType(fa.X.Type())), fieldName(fa.X.Type(), fa.Field)
				if seen[tn+"."+fn] {
					return
				}
				seen[tn+"."+fn] = true
				acc := li.FieldAccesses(tn, fn)
				var common map[string]bool
				for _, a := range acc {
					if a.Fresh {
						continue
					}
					if common == nil {
						common = copySet(a.Held)
					} else {
						common = intersect(common, a.Held)
					}
				}
				key := c.stableFieldKey(tn, fn) + ":nil-reset"
				if len(common) == 0 {
					r.bad("R4", key, c.instrPos(i), "the pointer is reset to nil while other goroutines (timer callbacks / receive loop) may be using it, without a common lock: nil dereference")
				} else {
					r.ok("R4", key, c.instrPos(i), "all accesses under "+heldStr(common))
				}
			})
		}
	}
	// R5: shared plain maps
	sharedOwners := [][2]string{{pkClient, "Client"}}
	if hn := c.gatewayHandlerType(); hn != "" {
		sharedOwners = append(sharedOwners, [2]string{pkGateway, hn})
	}
	for _, tn := range sharedOwners {
		for _, fld := range structFieldNames(c, tn[0], tn[1]) {
			if _, isMap := fld.Type().Underlying().(*types.Map); !isMap {
				continue
			}
			t := strings.TrimPrefix(tn[0], modPath+"/") + "." + tn[1]
			acc := li.FieldAccesses(t, fld.Name())
			var common map[string]bool
			n := 0
			for _, a := range acc {
				if a.Fresh {
					continue
				}
				n++
				if common == nil {
					common = copySet(a.Held)
				} else {
					common = intersect(common, a.Held)
				}
			}
			key := t + "." + fld.Name() + ":map-lockset"
			if n == 0 || !c.mapWritten(t, fld.Name()) {
				continue
			}
			// read lock also counts
			okc := false
			for l := range common {
				_ = l
				okc = true
			}
			if !okc {
				// accept a mix of (R) and write mode of the same mutex
				base := map[string]int{}
				for _, a := range acc {
					if a.Fresh {
						continue
					}
					for l := range a.Held {
						base[strings.TrimSuffix(l, "(R)")]++
					}
				}
				for _, cnt := range base {
					if cnt >= n {
						okc = true
					}
				}
			}
			r.cond(okc, "R5", key, "-", fmt.Sprintf("%d accesses of the map, all under its mutex", n), "a plain Go map shared by the receive loop and API callers is accessed without a common lock (concurrent map writes are fatal)")
		}
	}
}

func uniq(xs []string) []string {
	m := map[string]bool{}
	for _, x := range xs {
		m[x] = true
	}
	return sortedKeys(m)
}

func (c *Ctx) isRetryCallback(f *ssa.Function) bool {
	return len(c.retryCallbackUsers(f)) > 0
}

// retryCallbackOf resolves the retry-callback argument of a NewRetryTransaction call: a closure literal, a bound
// method, a function, or the closure returned by a factory function of the repository.
func (c *Ctx) retryCallbackOf(call *ssa.Call) *ssa.Function {
	if len(call.Call.Args) < 4 {
		return nil
	}
	arg := call.Call.Args[3]
	for {
		if ct, ok := arg.(*ssa.ChangeType); ok {
			arg = ct.X
			continue
		}
		break
	}
	switch x := arg.(type) {
	case *ssa.MakeClosure:
		if t := boundTarget(x); t != nil {
			return t
		}
		f, _ := x.Fn.(*ssa.Function)
		return f
	case *ssa.Function:
		return x
	case *ssa.Call:
		g := staticCallee(&x.Call)
		if g == nil || g.Blocks == nil || !strings.HasPrefix(fnPkgPath(g), modPath) {
			return nil
		}
		var out *ssa.Function
		for _, b := range g.Blocks {
			ret, ok := b.Instrs[len(b.Instrs)-1].(*ssa.Return)
			if !ok || len(ret.Results) != 1 {
				continue
			}
			v := ret.Results[0]
			if ct, ok := v.(*ssa.ChangeType); ok {
				v = ct.X
			}
			mc, ok := v.(*ssa.MakeClosure)
			if !ok {
				return nil
			}
			f, _ := mc.Fn.(*ssa.Function)
			if out != nil && out != f {
				return nil
			}
			out = f
		}
		return out
	}
	return nil
}

// retryCallbackUsers: the top-level functions (transaction constructors) that hand f to NewRetryTransaction.
func (c *Ctx) retryCallbackUsers(f *ssa.Function) map[*ssa.Function]bool {
	out := map[*ssa.Function]bool{}
	for _, rel := range []string{"gateway", "client"} {
		for _, g := range c.repoFuncs(rel) {
			allInstrs(g, func(i ssa.Instruction) {
				if call, ok := i.(*ssa.Call); ok && calleeName(&call.Call) == pkTrans+".NewRetryTransaction" && c.retryCallbackOf(call) == f {
					top := g
					for top.Parent() != nil {
						top = top.Parent()
					}
					out[top] = true
				}
			})
		}
	}
	return out
}

// assertionCtors: the constructors whose transactions an assertion in f is about.
func (c *Ctx) assertionCtors(rel string, f *ssa.Function) map[*ssa.Function]bool {
	top := f
	for top.Parent() != nil {
		top = top.Parent()
	}
	if us := c.retryCallbackUsers(f); len(us) > 0 {
		return us
	}
	if f.Parent() != nil {
		return map[*ssa.Function]bool{top: true}
	}
	if f.Signature.Recv() != nil {
		return c.ctorsForRecvType(rel, f.Signature.Recv().Type())
	}
	return map[*ssa.Function]bool{}
}

type syncMapSrc struct {
	recv  ssa.Value
	isKey bool
}

// syncMapSource: v is the value result of (*sync.Map).Load(recv, ..) or a
// key/value parameter of a closure passed to (*sync.Map).Range(recv, ..).
func (c *Ctx) syncMapSource(v ssa.Value) *syncMapSrc {
	switch x := v.(type) {
	case *ssa.Extract:
		if call, ok := x.Tuple.(*ssa.Call); ok && calleeName(&call.Call) == "(*sync.Map).Load" && x.Index == 0 {
			return &syncMapSrc{call.Call.Args[0], false}
		}
	case *ssa.Parameter:
		f := x.Parent()
		p := f.Parent()
		if p == nil {
			return nil
		}
		var res *syncMapSrc
		allInstrs(p, func(i ssa.Instruction) {
			ci, ok := i.(ssa.CallInstruction)
			if !ok || calleeName(ci.Common()) != "(*sync.Map).Range" {
				return
			}
			if mc, ok := ci.Common().Args[1].(*ssa.MakeClosure); ok && mc.Fn == f {
				res = &syncMapSrc{ci.Common().Args[0], paramIndex(f, x) == 0}
			}
		})
		return res
	}
	return nil
}

func (c *Ctx) syncMapKeyTypes(tf *typeFlow, recv ssa.Value) []string {
	set := map[string]bool{}
	fa, ok := recv.(*ssa.FieldAddr)
	if !ok {
		return []string{"?"}
	}
	want := fieldKey(fa.X.Type(), fa.Field)
	for _, f := range c.allRepoFuncs() {
		allInstrs(f, func(i ssa.Instruction) {
			ci, ok := i.(ssa.CallInstruction)
			if !ok || calleeName(ci.Common()) != "(*sync.Map).Store" {
				return
			}
			if fa2, ok := ci.Common().Args[0].(*ssa.FieldAddr); ok && fieldKey(fa2.X.Type(), fa2.Field) == want {
				for k := range tf.flow(ci.Common().Args[1], 0) {
					set[k] = true
				}
			}
		})
	}
	return sortedKeys(set)
}

// postC25: bounds checks (compiler oracle) for the five packages.
func postC25(cs []*Ctx, r *Report, tier string) {
	for _, c := range cs {
		if c.GOOS == "windows" {
			continue
		}
		cfgName := "linux/amd64"
		if c.GOARCH != "" {
			cfgName = "linux/" + c.GOARCH
		}
		r.configActive = cfgName
		var pk []string
		for _, p := range c25BoundsPkgs {
			pk = append(pk, "./"+p)
		}
		entries, err := runBCE(c.Repo, c.GOARCH, pk...)
		if err != nil {
			r.undecided("R2", "compiler-bce:"+cfgName, "-", err.Error())
			continue
		}
		nProven := 0
		// count sites (for evidence) and decide unproven ones
		unproven := map[string]bceEntry{}
		for _, e := range entries {
			unproven[fmt.Sprintf("%s:%d:%s", e.File, e.Line, e.Kind)] = e
		}
		matched := map[string]bool{}
		for _, rel := range c25BoundsPkgs {
			for _, f := range c.repoFuncs(rel) {
				if (rel == "packets" || rel == "packets1") && c.inDecodeClosure(f) {
					continue // the decoder's own sites are C20's obligations
				}
				allInstrs(f, func(i ssa.Instruction) {
					kind := ""
					switch x := i.(type) {
					case *ssa.IndexAddr:
						if _, isArr := derefType(x.X.Type()).Underlying().(*types.Array); isArr {
							if _, ok := constInt(x.Index); ok {
								return
							}
						}
						kind = "IsInBounds"
					case *ssa.Index:
						kind = "IsInBounds"
					case *ssa.Slice:
						kind = "IsSliceInBounds"
					}
					if kind == "" || !i.Pos().IsValid() {
						return
					}
					pos := c.Fset.Position(i.Pos())
					k := fmt.Sprintf("%s:%d:%s", pos.Filename, pos.Line, kind)
					if _, un := unproven[k]; !un {
						nProven++
						return
					}
					matched[k] = true
					key := fnKey(f) + ":" + instrText(i)
					// dominated by a length guard?
					arg := ""
					okc := false
					if ia, ok := i.(*ssa.IndexAddr); ok {
						if idx, ok := constInt(ia.Index); ok {
							for _, g := range guardsOf(i.Block()) {
								x, y, op, isCmp := cmpGuard(g)
								if !isCmp {
									continue
								}
								call, ok := x.(*ssa.Call)
								if !ok {
									continue
								}
								b, ok := call.Call.Value.(*ssa.Builtin)
								if !ok || b.Name() != "len" || !sameExpr(call.Call.Args[0], ia.X) && call.Call.Args[0] != ia.X {
									continue
								}
								kk, ok := constInt(y)
								if !ok {
									continue
								}
								if (op == token.EQL && kk > idx) || (op == token.GEQ && kk > idx) || (op == token.GTR && kk >= idx) {
									okc = true
									arg = fmt.Sprintf("dominated by len(x) %s %d", op, kk)
								}
							}
						}
					}
					if !okc {
						if a2, ok2 := c.callerLengthGuard(i); ok2 {
							okc, arg = true, a2
						}
					}
					if okc {
						r.ok("R2", key, c.instrPos(i), "not proven by the compiler; "+arg)
					} else {
						r.bad("R2", key, c.instrPos(i), "bounds check the compiler cannot prove and no dominating length guard: a short packet / empty list panics here")
					}
				})
			}
		}
		for k, e := range unproven {
			if matched[k] {
				continue
			}
			rel, _ := filepath.Rel(c.Repo, e.File)
			// inlined library accessors inside a sender function (bytes.Buffer.Bytes)
			inSender := false
			for _, pkg := range []string{"gateway", "client"} {
				for s := range c.mqttSenders(pkg) {
					file, a, b := c.funcLineRange(s)
					if file == e.File && e.Line >= a && e.Line <= b {
						inSender = true
					}
				}
			}
			key := "inlined:" + rel + ":" + e.Kind
			// which analysed function contains the line? a bytes.Buffer accessor called on that line?
			var host *ssa.Function
			bufCall := ""
			for _, pkg := range c25BoundsPkgs {
				for _, f := range c.repoFuncs(pkg) {
					file, a, b := c.funcLineRange(f)
					if file != e.File || e.Line < a || e.Line > b {
						continue
					}
					if host == nil || f.Parent() != nil {
						host = f
					}
					allInstrs(f, func(i ssa.Instruction) {
						ci, ok := i.(ssa.CallInstruction)
						if !ok || !i.Pos().IsValid() || c.Fset.Position(i.Pos()).Line != e.Line {
							return
						}
						if n := calleeName(ci.Common()); strings.HasPrefix(n, "(*bytes.Buffer).") {
							bufCall = n
						}
					})
				}
			}
			if host != nil && c.inDecodeClosure(host) && (strings.HasPrefix(rel, "packets/") || strings.HasPrefix(rel, "packets1/")) {
				continue // C20 decides the decoder's sites
			}
			if bufCall != "" {
				r.ok("R2", key+":"+fnKey(host), fmt.Sprintf("%s:%d", rel, e.Line), "inlined "+bufCall+" (slices its own buffer; invariant of bytes.Buffer)")
				continue
			}
			if inSender && e.Kind == "IsSliceInBounds" {
				r.ok("R2", key, fmt.Sprintf("%s:%d", rel, e.Line), "inlined bytes.Buffer.Bytes() (buf[off:], invariant of bytes.Buffer) inside the MQTT sender")
			} else {
				r.bad("R2", key, fmt.Sprintf("%s:%d", rel, e.Line), "the compiler reports an unproven bounds check that corresponds to no analysed site")
			}
		}
		r.okTrivial("R2", "proven-by-compiler", "-", fmt.Sprintf("%d index/slice sites have their bounds check eliminated by the compiler (%s)", nProven, cfgName))
	}
	r.configActive = ""
}

// mapWritten: some MapUpdate / delete operates on a value loaded from the field.
func (c *Ctx) mapWritten(tname, field string) bool {
	found := false
	for _, f := range c.allRepoFuncs() {
		allInstrs(f, func(i ssa.Instruction) {
			var m ssa.Value
			switch x := i.(type) {
			case *ssa.MapUpdate:
				m = x.Map
			case ssa.CallInstruction:
				if b, ok := x.Common().Value.(*ssa.Builtin); ok && b.Name() == "delete" {
					m = x.Common().Args[0]
				}
			}
			if m == nil {
				return
			}
			if u, ok := m.(*ssa.UnOp); ok && u.Op == token.MUL {
				if fa, ok := u.X.(*ssa.FieldAddr); ok && typeStr(derefType(fa.X.Type())) == tname && fieldName(fa.X.Type(), fa.Field) == field {
					found = true
				}
			}
		})
	}
	return found
}

// checkStateGuardedPointers (C25-R7): packet pointers of stateful transactions that are nil at construction and filled
// in later (by a setter) may only be dereferenced where a nil test or a state guard protects the read, and every way of
// entering the guarding state must come after the pointer was set: for a read under State == S, every Proceed-like call
// that can pass S (constant or phi edge) is dominated, in its function, by the store / setter call. Otherwise some
// packet sequence reaches the read with a nil pointer.
func (c *Ctx) checkStateGuardedPointers(r *Report, rule, rel string) {
	pkg := modPath + "/" + rel
	type fieldKey struct{ cell string }
	// candidate fields: *packet fields of structs of the package that (transitively) embed a RetryTransaction
	cands := map[string]bool{}
	setterNames := map[string]map[string]bool{} // cell -> method names that set it
	for _, f := range c.repoFuncs(rel) {
		allInstrs(f, func(i ssa.Instruction) {
			st, ok := i.(*ssa.Store)
			if !ok {
				return
			}
			fa, ok := st.Addr.(*ssa.FieldAddr)
			if !ok || isFreshObject(fa.X) {
				return
			}
			pt, ok := derefType(fa.Type()).Underlying().(*types.Pointer)
			if !ok {
				return
			}
			nt := namedOf(pt.Elem())
			if nt == nil || nt.Obj().Pkg() == nil || !(nt.Obj().Pkg().Path() == pkPackets1 || nt.Obj().Pkg().Path() == pahoPkts) {
				return
			}
			owner := namedOf(derefType(fa.X.Type()))
			if owner == nil || owner.Obj().Pkg() == nil || owner.Obj().Pkg().Path() != pkg {
				return
			}
			if !c.hasStateField(owner) {
				return
			}
			cell := fieldCell(fa)
			cands[cell] = true
			if p, ok := st.Val.(*ssa.Parameter); ok && p.Parent() == f && f.Signature.Recv() != nil {
				if setterNames[cell] == nil {
					setterNames[cell] = map[string]bool{}
				}
				setterNames[cell][f.Name()] = true
			}
		})
	}
	// exclude fields that every constructor literal initialises
	for cell := range cands {
		for _, k := range c.txCtors(rel) {
			allInstrs(k, func(i ssa.Instruction) {
				if st, ok := i.(*ssa.Store); ok {
					if fa, ok := st.Addr.(*ssa.FieldAddr); ok && fieldCell(fa) == cell && isFreshObject(fa.X) {
						if _, isNil := st.Val.(*ssa.Const); !isNil {
							delete(cands, cell)
						}
					}
				}
			})
		}
	}
	if len(cands) == 0 {
		r.ok(rule, rel+":late-bound-packet-pointers", "-", "no stateful transaction of this package has a packet pointer that is filled in after construction")
		return
	}
	isSet := func(i ssa.Instruction, cell string) bool {
		if st, ok := i.(*ssa.Store); ok {
			if fa, ok := st.Addr.(*ssa.FieldAddr); ok && fieldCell(fa) == cell {
				return true
			}
		}
		if ci, ok := i.(ssa.CallInstruction); ok {
			nm := ""
			if ci.Common().IsInvoke() {
				nm = ci.Common().Method.Name()
			} else if g := staticCallee(ci.Common()); g != nil {
				nm = g.Name()
			}
			return setterNames[cell][nm]
		}
		return false
	}
	dominatedBySet := func(f *ssa.Function, b *ssa.BasicBlock, before ssa.Instruction, cell string) bool {
		ok := false
		allInstrs(f, func(i ssa.Instruction) {
			if !isSet(i, cell) {
				return
			}
			if i.Block() == b {
				if before == nil {
					ok = true
					return
				}
				for _, x := range b.Instrs {
					if x == i {
						ok = true
						return
					}
					if x == before {
						return
					}
				}
			} else if i.Block().Dominates(b) {
				ok = true
			}
		})
		return ok
	}
	stateOfGuard := func(gs []Guard) (int64, bool) {
		for _, g := range gs {
			x, y, op, isCmp := cmpGuard(g)
			if !isCmp || op != token.EQL {
				continue
			}
			for _, pair := range [][2]ssa.Value{{x, y}, {y, x}} {
				mi, ok := pair[1].(*ssa.MakeInterface)
				if !ok {
					continue
				}
				k, isC := constInt(mi.X)
				if !isC {
					continue
				}
				if u, ok := pair[0].(*ssa.UnOp); ok {
					if fa, ok := u.X.(*ssa.FieldAddr); ok && typeStr(derefType(fa.X.Type())) == "transactions.RetryTransaction" {
						return k, true
					}
				}
			}
		}
		return 0, false
	}
	// entries into a state: Proceed-like calls with a constant (or phi of constants) of a named integer type of the package
	type entry struct {
		f     *ssa.Function
		block *ssa.BasicBlock
		at    ssa.Instruction
	}
	entries := map[int64][]entry{}
	for _, f := range c.repoFuncs(rel) {
		allInstrs(f, func(i ssa.Instruction) {
			ci, ok := i.(ssa.CallInstruction)
			if !ok {
				return
			}
			nm := ""
			if ci.Common().IsInvoke() {
				nm = ci.Common().Method.Name()
			} else if g := staticCallee(ci.Common()); g != nil {
				nm = g.Name()
			}
			if !strings.HasPrefix(nm, "Proceed") {
				return
			}
			for _, a := range ci.Common().Args {
				v := a
				if mi, ok := v.(*ssa.MakeInterface); ok {
					v = mi.X
				}
				nt := namedOf(v.Type())
				if nt == nil || nt.Obj().Pkg() == nil || nt.Obj().Pkg().Path() != pkg {
					continue
				}
				if bt, ok := nt.Underlying().(*types.Basic); !ok || bt.Info()&types.IsInteger == 0 {
					continue
				}
				if k, ok := constInt(v); ok {
					entries[k] = append(entries[k], entry{f, i.Block(), i})
				} else if ph, ok := v.(*ssa.Phi); ok {
					for ei, e := range ph.Edges {
						if k, ok := constInt(e); ok {
							entries[k] = append(entries[k], entry{f, ph.Block().Preds[ei], nil})
						}
					}
				}
			}
		})
	}
	for cell := range cands {
		key := rel + ":" + strings.TrimPrefix(cell, "f:") + ":read-only-where-set"
		bad := ""
		nRead := 0
		for _, f := range c.repoFuncs(rel) {
			allInstrs(f, func(i ssa.Instruction) {
				u, ok := i.(*ssa.UnOp)
				if !ok || u.Op != token.MUL {
					return
				}
				fa, ok := u.X.(*ssa.FieldAddr)
				if !ok || fieldCell(fa) != cell || u.Referrers() == nil {
					return
				}
				for _, use := range *u.Referrers() {
					deref := false
					switch x := use.(type) {
					case *ssa.FieldAddr:
						deref = x.X == ssa.Value(u)
					case *ssa.MakeInterface:
						deref = true
					case ssa.CallInstruction:
						deref = true
					}
					if !deref {
						continue
					}
					nRead++
					gs := guardsOf(use.Block())
					nilChecked := false
					for _, g := range gs {
						x, y, op, isCmp := cmpGuard(g)
						if isCmp && op == token.NEQ && (isNilConst(y) || isNilConst(x)) {
							for _, v := range []ssa.Value{x, y} {
								if uu, ok := v.(*ssa.UnOp); ok {
									if fa2, ok := uu.X.(*ssa.FieldAddr); ok && fieldCell(fa2) == cell {
										nilChecked = true
									}
								}
							}
						}
					}
					if nilChecked {
						continue
					}
					s, has := stateOfGuard(gs)
					if !has {
						bad = c.instrPos(use) + ": " + fnKey(f) + " uses the pointer without a nil test and without a state guard"
						continue
					}
					if len(entries[s]) == 0 {
						continue // the guarding state is never entered through a Proceed-like call the analysis sees
					}
					for _, en := range entries[s] {
						if !dominatedBySet(en.f, en.block, en.at, cell) {
							p := c.pos(en.f.Pos())
							if en.at != nil {
								p = c.instrPos(en.at)
							}
							bad = fmt.Sprintf("%s: %s uses the pointer under the guard state == %d, but %s (%s) enters that state on a path on which the pointer was never set", c.instrPos(use), fnKey(f), s, fnKey(en.f), p)
						}
					}
				}
			})
		}
		if nRead == 0 {
			r.ok(rule, key, "-", "never dereferenced")
			continue
		}
		r.cond(bad == "", rule, key, "-", fmt.Sprintf("%d uses: each under a nil test, or under a state every entry of which follows the store of the pointer", nRead),
			"a packet pointer that is nil at construction can be dereferenced while still nil ("+bad+"): some packet sequence reaches it and the session goroutine panics")
	}
}

// hasStateField: the named struct type (transitively) embeds transactions.RetryTransaction (which carries State).
func (c *Ctx) hasStateField(nt *types.Named) bool {
	seen := map[types.Type]bool{}
	var rec func(t types.Type, d int) bool
	rec = func(t types.Type, d int) bool {
		if d > 4 || seen[t] {
			return false
		}
		seen[t] = true
		st := structOf(t)
		if st == nil {
			return false
		}
		for k := 0; k < st.NumFields(); k++ {
			f := st.Field(k)
			if !f.Embedded() {
				continue
			}
			if typeStr(derefType(f.Type())) == "transactions.RetryTransaction" {
				return true
			}
			if rec(derefType(f.Type()), d+1) {
				return true
			}
		}
		return false
	}
	return rec(nt, 0)
}
