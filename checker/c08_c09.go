package main

import (
	"os"
	"go/types"
	"fmt"
	"sort"
	"strings"

	"golang.org/x/tools/go/ssa"
)

// Connect exchange (C08, C09): the transition relation of the gateway's
// connect transaction over (phase, auth, will) is extracted with the path
// explorer and then model-checked exhaustively (it is tiny).

type cxEdge struct {
	Auth, Will  int64
	From        int64 // phase before (-1: exchange start = client CONNECT)
	Trigger     string
	To          int64 // phase after (or -2 unknown)
	SendConnect int   // number of MQTT CONNECT sends
	Events      []string
	Ret         string
	Failed      bool
}

func (e cxEdge) String() string {
	return fmt.Sprintf("auth=%d will=%d phase %d --%s--> %d [%s] ret=%s", e.Auth, e.Will, e.From, e.Trigger, e.To, strings.Join(e.Events, " ; "), e.Ret)
}

type cxGraph struct {
	PhaseCell string
	Phases    []int64
	Edges     []cxEdge
	WillCell  string
}

const willFlagCell = "f:mqtt.ConnectPacket.WillFlag"

func (m *gwModel) connectGraph(r *Report) *cxGraph {
	g := &cxGraph{WillCell: willFlagCell}
	g.PhaseCell, g.Phases = m.connectPhaseCell()
	if g.PhaseCell == "" {
		return g
	}
	authCells := m.authCells()
	type trig struct {
		name  string
		typ   string
		cells map[string]aval
	}
	trigs := []trig{
		{"AUTH(PLAIN)", "*packets1.Auth", map[string]aval{"f:packets1.Auth.Method": kstr("\"PLAIN\"")}},
		{"AUTH(other)", "*packets1.Auth", map[string]aval{"f:packets1.Auth.Method": kstr("\"SCRAM\"")}},
		{"WILLTOPIC", "*packets1.WillTopic", nil},
		{"WILLMSG", "*packets1.WillMsg", nil},
	}
	for _, auth := range []int64{0, 1} {
		for _, will := range []int64{0, 1} {
			// exchange start
			cells := map[string]aval{"state": kint(stDisconnected), "type:sn": kstr("*packets1.Connect"),
				"f:packets1.Connect.Duration": kint(60), "f:packets1.Connect.ProtocolID": kint(1),
				"f:packets1.Connect.Will": kint(will), g.PhaseCell: kint(0), "type:tx": kstr("none")}
			for _, ac := range authCells {
				cells[ac] = kint(auth)
			}
			outs, trunc := m.run(m.snDisp, cells)
			if trunc {
				r.undecided("R0", "explore:connect", "-", "exploration truncated")
			}
			for _, o := range outs {
				g.Edges = append(g.Edges, mkEdge(auth, will, -1, "CONNECT", o, g.PhaseCell))
			}
			for _, ph := range g.Phases {
				for _, t := range trigs {
					cells := map[string]aval{"state": kint(stDisconnected), "type:sn": kstr(t.typ), g.PhaseCell: kint(ph),
						willFlagCell: kint(will), "type:tx": kstr(m.c.gwConnectTx())}
					for k, v := range t.cells {
						cells[k] = v
					}
					for _, ac := range authCells {
						cells[ac] = kint(auth)
					}
					outs, trunc := m.run(m.snDisp, cells)
					if trunc {
						r.undecided("R0", "explore:"+t.name, "-", "exploration truncated")
					}
					for _, o := range outs {
						g.Edges = append(g.Edges, mkEdge(auth, will, ph, t.name, o, g.PhaseCell))
					}
				}
			}
		}
	}
	return g
}

func mkEdge(auth, will, from int64, trig string, o Outcome, phaseCell string) cxEdge {
	e := cxEdge{Auth: auth, Will: will, From: from, Trigger: trig, To: from, Ret: retStr(o)}
	if v, ok := o.Cells[phaseCell]; ok {
		if v.known {
			e.To = v.i
		} else {
			e.To = -2
		}
	}
	for _, ev := range o.Events {
		if strings.HasPrefix(ev, "mq:") || strings.HasPrefix(ev, "sn:") || strings.HasPrefix(ev, "tx.") ||
			strings.HasPrefix(ev, "set f:mqtt.ConnectPacket.") || strings.HasPrefix(ev, "set "+phaseCell) || strings.HasPrefix(ev, "store.Store") {
			e.Events = append(e.Events, ev)
		}
		if strings.HasPrefix(ev, "mq:") && strings.Contains(ev, "ConnectPacket") {
			e.SendConnect++
		}
		if ev == "tx.Fail" {
			e.Failed = true
		}
	}
	return e
}

func (e cxEdge) sends(sub string) bool {
	for _, ev := range e.Events {
		if (strings.HasPrefix(ev, "sn:") || strings.HasPrefix(ev, "mq:")) && strings.Contains(ev, sub) {
			return true
		}
	}
	return false
}

func (e cxEdge) setsCredential() string {
	for _, ev := range e.Events {
		for _, f := range []string{"Username", "Password", "UsernameFlag", "PasswordFlag"} {
			if strings.HasPrefix(ev, "set f:mqtt.ConnectPacket."+f+"=") {
				return ev
			}
		}
	}
	return ""
}

// reachable phases from the start edges of (auth, will) using edges accepted
// by the filter.
func (g *cxGraph) reach(auth, will int64, filter func(cxEdge) bool) map[int64]bool {
	seen := map[int64]bool{}
	var work []int64
	for _, e := range g.Edges {
		if e.Auth == auth && e.Will == will && e.From == -1 && !e.Failed {
			if !seen[e.To] {
				seen[e.To] = true
				work = append(work, e.To)
			}
		}
	}
	for len(work) > 0 {
		p := work[len(work)-1]
		work = work[:len(work)-1]
		for _, e := range g.Edges {
			if e.Auth == auth && e.Will == will && e.From == p && !e.Failed && filter(e) && !seen[e.To] {
				seen[e.To] = true
				work = append(work, e.To)
			}
		}
	}
	return seen
}

func init() {
	register("C08", func(r *Report) {
		r.Explanation = "The connect transaction's handlers are explored for every (auth enabled, will flag, phase, trigger in {CONNECT, AUTH PLAIN, AUTH other method, WILLTOPIC, WILLMSG}); the resulting transition relation over phases is searched exhaustively. Decided: (R1) with auth enabled no MQTT CONNECT send is reachable from the start of an exchange unless an AUTH(PLAIN) edge that did not fail was taken first; (R2) the CONNECT's credential fields are written only on that edge (auth on), from exactly the two results of DecodePlain of the incoming AUTH, on every path that continues the exchange, and never by any client packet when auth is off; at construction they originate from the handler configuration; (R3) an AUTH with another method sends CONNACK(not supported), fails the transaction and reaches no CONNECT send; (R4) a PLAIN AUTH whose DecodePlain fails reaches no CONNECT send. Not decided: what the broker does with the credentials."
		r.floor("R1", 2)
		r.floor("R2", 3)
		r.floor("R3", 1)
	}, checkC08)
	register("C09", func(r *Report) {
		r.Explanation = "Same transition relation as C08. Decided: (R1) WILLTOPICREQ is sent at the start of a will exchange (after AUTH when enabled), WILLMSGREQ only on a WILLTOPIC edge, the MQTT CONNECT of a will exchange only on a WILLMSG edge, no WILL*REQ is reachable without the will flag, and after an edge that sent the MQTT CONNECT no edge reachable in the same transaction sends another one (at most one CONNECT per exchange for all packet orders); (R2) the CONNECT's will/keep-alive/client-id/clean-session fields originate from the corresponding fields of WILLTOPIC, WILLMSG and CONNECT; (R3) the client's CONNACK is accepted exactly for broker return code 0, congestion for every other code, 'not supported' with no transaction stored for a zero keep-alive; (R4) a CONNECT with a usable keep-alive from a client that is not sleeping (disconnected or active; with or without a pending connect exchange; with or without will) always starts a NEW exchange and is never answered by the handler itself with CONNACK 'accepted'. Not decided: timeouts (C10)."
		r.floor("R1", 4)
		r.floor("R2", 6)
		r.floor("R3", 3)
		r.floor("R4", 8)
	}, checkC09)
}

func checkC08(c *Ctx, r *Report) {
	m, err := c.newGwModel()
	if err != nil {
		r.undecided("R0", "gateway-model", "-", err.Error())
		return
	}
	r.fn(m.snDisp)
	g := m.connectGraph(r)
	pos := c.pos(m.snDisp.Pos())
	if g.PhaseCell == "" {
		r.bad("R1", "connect-transaction-phase", pos, "the connect transaction has no phase field tested by its handlers: AUTH/WILLTOPIC/WILLMSG are accepted in any order and each can send a CONNECT")
		return
	}
	r.CallSites += len(g.Edges)
	for _, will := range []int64{0, 1} {
		// R1: auth on: phases reachable without a successful AUTH(PLAIN) edge
		key := fmt.Sprintf("auth=1,will=%d", will)
		bad := false
		for _, e := range g.Edges {
			if e.Auth == 1 && e.Will == will && e.From == -1 && e.SendConnect > 0 {
				r.bad("R1", key+":start", pos, "CONNECT from the client sends the MQTT CONNECT although authentication is enabled: "+e.String())
				bad = true
			}
		}
		noAuth := g.reach(1, will, func(e cxEdge) bool { return e.Trigger != "AUTH(PLAIN)" })
		for _, e := range g.Edges {
			if e.Auth == 1 && e.Will == will && e.From >= 0 && noAuth[e.From] && e.Trigger != "AUTH(PLAIN)" && e.SendConnect > 0 {
				r.bad("R1", fmt.Sprintf("%s:phase%d:%s", key, e.From, e.Trigger), pos, "MQTT CONNECT reachable without an accepted PLAIN AUTH: "+e.String())
				bad = true
			}
		}
		if !bad {
			r.ok("R1", key, pos, fmt.Sprintf("phases reachable without AUTH(PLAIN): %v; none of their edges sends the MQTT CONNECT", keysInt(noAuth)))
		}
	}
	// R5: "as configured": the flag the connect transaction consults is the configured AuthEnabled and nothing else
	// (not a function of the session state, of the packet, ...) at every place a connect transaction is built
	ctxType := c.gwConnectTx()
	nCtor := 0
	for _, f := range c.repoFuncs("gateway") {
		allInstrs(f, func(i ssa.Instruction) {
			call, ok := i.(*ssa.Call)
			if !ok {
				return
			}
			g := staticCallee(&call.Call)
			if g == nil || fnPkgPath(g) != pkGateway || g.Signature.Results().Len() != 1 || typeStr(g.Signature.Results().At(0).Type()) != ctxType {
				return
			}
			for ai, a := range call.Call.Args {
				bt, ok := a.Type().Underlying().(*types.Basic)
				if !ok || bt.Kind() != types.Bool {
					continue
				}
				nCtor++
				key := fmt.Sprintf("%s:connect-transaction-auth-flag(arg %d)", fnKey(f), ai)
				os := c.origins(a)
				okc := len(os) == 1 && (os[0].Kind == "param" || os[0].Kind == "freevar") && len(os[0].Path) >= 1 && os[0].Path[len(os[0].Path)-1] == "AuthEnabled"
				var ds []string
				for _, o := range os {
					ds = append(ds, o.String())
				}
				r.cond(okc, "R5", key, c.instrPos(i), "the transaction's authentication flag is the configured AuthEnabled",
					"the authentication flag given to the connect transaction is not simply the configured AuthEnabled ("+strings.Join(ds, "; ")+"): for some session state or packet the exchange runs as if authentication were configured differently (e.g. a re-CONNECT of an active client sends the MQTT CONNECT without AUTH)")
			}
		})
	}
	if nCtor == 0 {
		r.undecided("R5", "connect-transaction-auth-flag", pos, "no constructor call of the connect transaction with a boolean argument found")
	}
	// R2: credential writers (only phases reachable for that configuration)
	reachAll := map[[2]int64]map[int64]bool{}
	for _, a := range []int64{0, 1} {
		for _, w := range []int64{0, 1} {
			reachAll[[2]int64{a, w}] = g.reach(a, w, func(cxEdge) bool { return true })
		}
	}
	reachable := func(e cxEdge) bool { return e.From == -1 || reachAll[[2]int64{e.Auth, e.Will}][e.From] }
	nCred := 0
	for _, e := range g.Edges {
		cred := e.setsCredential()
		if cred == "" || !reachable(e) {
			continue
		}
		key := fmt.Sprintf("cred-write:auth=%d:%s:phase%d", e.Auth, e.Trigger, e.From)
		if e.From == -1 {
			continue // construction: checked by origin rule below
		}
		nCred++
		if e.Auth == 0 {
			r.bad("R2", key, pos, "a client packet overwrites the configured credentials although authentication is disabled: "+e.String())
		} else if e.Trigger != "AUTH(PLAIN)" {
			r.bad("R2", key, pos, "credentials written by something else than a PLAIN AUTH: "+e.String())
		} else {
			r.ok("R2", key, pos, "credentials written on the AUTH(PLAIN) edge with auth enabled")
		}
	}
	// auth off: AUTH must not send a CONNECT either
	for _, e := range g.Edges {
		if e.Auth == 0 && reachable(e) && strings.HasPrefix(e.Trigger, "AUTH") && (e.SendConnect > 0 || e.sends("WillTopicReq")) {
			r.bad("R2", fmt.Sprintf("auth-off:%s:phase%d", e.Trigger, e.From), pos, "AUTH packet drives the exchange although authentication is disabled: "+e.String())
		}
	}
	c.checkCredentialOrigins(r, m)
	// R3/R4
	seen3 := false
	for _, e := range g.Edges {
		if e.Auth != 1 || !reachable(e) {
			continue
		}
		key := fmt.Sprintf("%s:phase%d:will=%d", e.Trigger, e.From, e.Will)
		if e.Trigger == "AUTH(other)" {
			accepted := false
			for _, ed := range g.Edges {
				if ed.Auth == 1 && ed.Will == e.Will && ed.From == e.From && ed.Trigger == "AUTH(PLAIN)" && (ed.SendConnect > 0 || ed.To != ed.From) {
					accepted = true
				}
			}
			if !accepted {
				// AUTH ignored in this phase
				if e.SendConnect > 0 {
					r.bad("R3", key, pos, "unknown AUTH method reaches a CONNECT send: "+e.String())
				}
				continue
			}
			seen3 = true
			if e.SendConnect > 0 || !e.sends("NewConnack(3)") || !e.Failed {
				if e.sends("NewConnack(3)") && !e.Failed && e.SendConnect == 0 && retIsErrorStr(e.Ret) {
					// the CONNACK could not be sent: error path
					continue
				}
				r.bad("R3", key, pos, "unknown AUTH method must be answered with CONNACK 'not supported', fail the transaction and send no CONNECT: "+e.String())
			} else {
				r.ok("R3", key, pos, e.String())
			}
		}
		if e.Trigger == "AUTH(PLAIN)" && e.Failed && e.SendConnect > 0 {
			r.bad("R4", key, pos, "failed PLAIN AUTH still sends the CONNECT: "+e.String())
		}
	}
	if !seen3 {
		r.undecided("R3", "unknown-auth-method", pos, "no phase in which an AUTH with an unknown method is handled was found")
	}
	r.ok("R4", "failed-plain-auth", pos, "no failing AUTH(PLAIN) edge sends a CONNECT")
}

func retIsErrorStr(s string) bool {
	return strings.HasSuffix(s, "error") || strings.HasSuffix(s, "nonnil") || strings.Contains(s, "global:Err")
}

func keysInt(m map[int64]bool) []int64 {
	var out []int64
	for k := range m {
		out = append(out, k)
	}
	sort.Slice(out, func(i, j int) bool { return out[i] < out[j] })
	return out
}

// checkCredentialOrigins: origin rule for the stores into the CONNECT's
// credential fields.
func (c *Ctx) checkCredentialOrigins(r *Report, m *gwModel) {
	credFields := map[string]bool{"Username": true, "Password": true, "UsernameFlag": true, "PasswordFlag": true}
	for _, f := range c.repoFuncs("gateway") {
		hasAuthParam := false
		for _, p := range f.Params {
			if typeIs(p.Type(), pkPackets1, "Auth") {
				hasAuthParam = true
			}
		}
		stores := map[string][]*ssa.Store{}
		allInstrs(f, func(i ssa.Instruction) {
			s, ok := i.(*ssa.Store)
			if !ok {
				return
			}
			fa, ok := s.Addr.(*ssa.FieldAddr)
			if !ok || !typeIs(fa.X.Type(), pahoPkts, "ConnectPacket") {
				return
			}
			fn := fieldName(fa.X.Type(), fa.Field)
			if credFields[fn] {
				stores[fn] = append(stores[fn], s)
			}
		})
		if len(stores) == 0 {
			continue
		}
		r.fn(f)
		for fn, ss := range stores {
			for _, s := range ss {
				key := fnKey(f) + ":ConnectPacket." + fn
				os := c.origins(s.Val)
				okAll := true
				var descr []string
				for _, o := range os {
					descr = append(descr, o.String())
					switch {
					case hasAuthParam:
						// must be DecodePlain results or the constant true
						if o.Kind == "call" && o.Callee == "(*"+pkPackets1+".Auth).DecodePlain" && ((fn == "Username" && o.ResIdx == 0) || (fn == "Password" && o.ResIdx == 1)) {
							if !c.valueIsField(o.Args[0], pkPackets1, "Auth") {
								okAll = false
							}
							continue
						}
						if o.Kind == "const" && (fn == "UsernameFlag" || fn == "PasswordFlag") {
							if b, ok := constBool(o.Val); ok && b {
								continue
							}
						}
						okAll = false
					default:
						// construction: from the handler configuration only
						if (o.Kind == "param" || o.Kind == "freevar") && strings.Contains(typeStr(o.RootType()), "gateway.") && len(o.Path) >= 1 && o.Path[0] == "cfg" {
							continue
						}
						if o.Kind == "const" && (fn == "UsernameFlag" || fn == "PasswordFlag") {
							// a constant flag at construction (the false arm of `cfg.A != nil && cfg.B != nil`)
							if _, ok := constBool(o.Val); ok {
								continue
							}
						}
						if o.Kind == "binop" {
							// cfg.X != nil
							b := o.Val.(*ssa.BinOp)
							if isNilConst(b.Y) && len(c.origins(b.X)) == 1 && c.origins(b.X)[0].Kind == "param" && len(c.origins(b.X)[0].Path) >= 1 && c.origins(b.X)[0].Path[0] == "cfg" {
								continue
							}
						}
						okAll = false
					}
				}
				if okAll {
					r.ok("R2", key, c.instrPos(s), "origins: "+strings.Join(descr, ", "))
				} else {
					r.bad("R2", key, c.instrPos(s), "credential field written from an unexpected source: "+strings.Join(descr, ", "))
				}
			}
		}
		if hasAuthParam {
			// completeness: every path from entry to a continuation (a call that can
			// reach a sender) passes a store of each credential field.
			senders := map[*ssa.Function]bool{}
			for s := range m.mqSenders {
				senders[s] = true
			}
			for s := range m.snSenders {
				senders[s] = true
			}
			for _, fn := range []string{"Username", "Password", "UsernameFlag", "PasswordFlag"} {
				key := fnKey(f) + ":ConnectPacket." + fn + ":all-paths"
				ss := stores[fn]
				set := map[ssa.Instruction]bool{}
				for _, s := range ss {
					set[s] = true
				}
				// continuation = call reaching the MQTT sender with the CONNECT (any mq sender)
				reach, at := pathExists(f, nil, func(i ssa.Instruction) bool {
					ci, ok := i.(ssa.CallInstruction)
					if !ok {
						return false
					}
					g := staticCallee(ci.Common())
					return g != nil && c.mayReachStatic(g, m.mqSenders, 4)
				}, func(i ssa.Instruction) bool { return set[i] })
				if reach {
					r.bad("R2", key, c.instrPos(at), "a path continues the connect exchange after AUTH without storing the client's "+fn+" (the configured value would be sent)")
				} else {
					r.ok("R2", key, c.pos(f.Pos()), "every continuing path stores the field")
				}
			}
		}
	}
}

func checkC09(c *Ctx, r *Report) {
	m, err := c.newGwModel()
	if err != nil {
		r.undecided("R0", "gateway-model", "-", err.Error())
		return
	}
	r.fn(m.snDisp)
	r.fn(m.mqDisp)
	g := m.connectGraph(r)
	pos := c.pos(m.snDisp.Pos())
	if g.PhaseCell == "" {
		r.bad("R1", "connect-transaction-phase", pos, "the connect transaction has no phase field tested by its handlers: WILLMSG repeated / without WILLTOPIC / without the will flag each send another CONNECT")
		return
	}
	r.CallSites += len(g.Edges)
	for _, auth := range []int64{0, 1} {
		for _, will := range []int64{0, 1} {
			key := fmt.Sprintf("auth=%d,will=%d", auth, will)
			all := g.reach(auth, will, func(cxEdge) bool { return true })
			okc := true
			connectSeen := false
			for _, e := range g.Edges {
				if e.Auth != auth || e.Will != will {
					continue
				}
				if e.From >= 0 && !all[e.From] {
					continue // unreachable phase
				}
				switch {
				case will == 0 && (e.sends("WillTopicReq") || e.sends("WillMsgReq")):
					r.bad("R1", key+":no-will:"+e.Trigger, pos, "WILL*REQ sent although the CONNECT had no will flag: "+e.String())
					okc = false
				case will == 1 && e.sends("WillMsgReq") && e.Trigger != "WILLTOPIC":
					r.bad("R1", key+":willmsgreq:"+e.Trigger, pos, "WILLMSGREQ sent on something else than a WILLTOPIC: "+e.String())
					okc = false
				case will == 1 && e.SendConnect > 0 && e.Trigger != "WILLMSG":
					r.bad("R1", key+":connect:"+e.Trigger, pos, "MQTT CONNECT of a will exchange sent on something else than a WILLMSG: "+e.String())
					okc = false
				case will == 1 && e.sends("WillTopicReq") && !(e.Trigger == "CONNECT" && auth == 0 || e.Trigger == "AUTH(PLAIN)" && auth == 1):
					r.bad("R1", key+":willtopicreq:"+e.Trigger, pos, "WILLTOPICREQ sent at an unexpected point: "+e.String())
					okc = false
				}
				if e.SendConnect > 1 {
					r.bad("R1", key+":double:"+e.Trigger, pos, "one handler invocation sends the MQTT CONNECT more than once: "+e.String())
					okc = false
				}
				if e.SendConnect > 0 {
					connectSeen = true
				}
			}
			// WILLMSGREQ only after WILLTOPICREQ was sent: phases from which a
			// WILLTOPIC edge sends WILLMSGREQ must be targets of WILLTOPICREQ-sending edges
			if will == 1 {
				reqTargets := map[int64]bool{}
				for _, e := range g.Edges {
					if e.Auth == auth && e.Will == will && e.sends("WillTopicReq") && !e.Failed {
						reqTargets[e.To] = true
					}
				}
				for _, e := range g.Edges {
					if e.Auth == auth && e.Will == will && e.From >= 0 && all[e.From] && e.sends("WillMsgReq") && !reqTargets[e.From] {
						r.bad("R1", fmt.Sprintf("%s:willmsgreq-before-willtopicreq:phase%d", key, e.From), pos, "WILLMSGREQ can be sent in a phase not entered by sending WILLTOPICREQ: "+e.String())
						okc = false
					}
				}
				msgTargets := map[int64]bool{}
				for _, e := range g.Edges {
					if e.Auth == auth && e.Will == will && e.sends("WillMsgReq") && !e.Failed {
						msgTargets[e.To] = true
					}
				}
				for _, e := range g.Edges {
					if e.Auth == auth && e.Will == will && e.From >= 0 && all[e.From] && e.SendConnect > 0 && !msgTargets[e.From] {
						r.bad("R1", fmt.Sprintf("%s:connect-before-willmsgreq:phase%d", key, e.From), pos, "MQTT CONNECT can be sent in a phase not entered by sending WILLMSGREQ: "+e.String())
						okc = false
					}
				}
			}
			// at most one CONNECT: closure after a CONNECT-sending edge
			post := map[int64]bool{}
			var work []int64
			for _, e := range g.Edges {
				if e.Auth == auth && e.Will == will && (e.From == -1 || all[e.From]) && e.SendConnect > 0 && !post[e.To] {
					post[e.To] = true
					work = append(work, e.To)
				}
			}
			for len(work) > 0 {
				p := work[len(work)-1]
				work = work[:len(work)-1]
				for _, e := range g.Edges {
					if e.Auth == auth && e.Will == will && e.From == p {
						if e.SendConnect > 0 {
							r.bad("R1", fmt.Sprintf("%s:second-connect:phase%d:%s", key, p, e.Trigger), pos, "a second MQTT CONNECT can be sent in the same connect exchange: "+e.String())
							okc = false
						}
						if !post[e.To] {
							post[e.To] = true
							work = append(work, e.To)
						}
					}
				}
			}
			if !connectSeen {
				r.undecided("R1", key+":connect-reachable", pos, "no edge sending the MQTT CONNECT is reachable")
				okc = false
			}
			if okc {
				r.ok("R1", key, pos, fmt.Sprintf("reachable phases %v; after-CONNECT phases %v send no further CONNECT", keysInt(all), keysInt(post)))
			}
		}
	}
	// R2: will fields and CONNECT fields
	c.checkConnectFieldOrigins(r)
	// R3: CONNACK mapping
	for _, rc := range []int64{0, 1, 2, 3, 4, 5, 6, 0x80, 0xfe, 0xff} {
		for _, st := range []int64{0, 1, 2, 3} {
			cells := map[string]aval{"state": kint(st), "type:mq": kstr("*mqtt.ConnackPacket"), "type:tx": kstr(c.gwConnectTx()),
				"f:mqtt.ConnackPacket.ReturnCode": kint(rc)}
			outs, _ := m.run(m.mqDisp, cells)
			key := fmt.Sprintf("connack-rc=%d/%s", rc, stateNames[st])
			okc := len(outs) > 0
			for _, o := range outs {
				var sn []string
				for _, ev := range o.Events {
					if strings.HasPrefix(ev, "sn:") {
						sn = append(sn, ev)
					}
				}
				want := "sn:*packets1.Connack{NewConnack(1)}"
				if rc == 0 {
					want = "sn:*packets1.Connack{NewConnack(0)}"
				}
				if len(sn) != 1 || sn[0] != want {
					okc = false
					r.bad("R3", key, c.pos(m.mqDisp.Pos()), fmt.Sprintf("broker return code %d must be answered with exactly %s, got %v", rc, want, sn))
				}
			}
			if okc {
				r.ok("R3", key, c.pos(m.mqDisp.Pos()), firstOutcome(outs))
			}
		}
	}
	// R4: every CONNECT with a usable keep-alive from a client that is not sleeping starts a NEW connect exchange
	// (whatever exchange is pending): the handler neither answers it itself with CONNACK 'accepted' (the broker
	// has not accepted anything) nor continues an old exchange whose MQTT CONNECT was built from another packet.
	for _, st := range []int64{stDisconnected, stActive} {
		for _, tx := range []string{"none", c.gwConnectTx()} {
			for _, will := range []int64{0, 1} {
				cells := map[string]aval{"state": kint(st), "type:sn": kstr("*packets1.Connect"),
					"f:packets1.Connect.Duration": kint(60), "f:packets1.Connect.ProtocolID": kint(1), "f:packets1.Connect.Will": kint(will), "type:tx": kstr(tx)}
				outs, _ := m.run(m.snDisp, cells)
				txn := "no-pending-exchange"
				if tx != "none" {
					txn = "pending-connect-exchange"
				}
				key := fmt.Sprintf("connect-starts-exchange/%s/%s/will=%d", stateNames[st], txn, will)
				okc := len(outs) > 0
				for _, o := range outs {
					last := ""
					if len(o.Ret) > 0 {
						last = o.Ret[len(o.Ret)-1]
					}
					if os.Getenv("BISQ_DEBUG") != "" {
						fmt.Println("C09-R4", key, strings.Join(o.Events, " ; "), "=>", o.Ret)
					}
					if hasEventPrefix(o, "sn:*packets1.Connack{NewConnack(0)}") {
						okc = false
						r.bad("R4", key, pos, "the handler answers a CONNECT with CONNACK 'accepted' itself although the client is not returning from sleep: the CONNACK is 'accepted' without the broker having accepted this CONNECT: "+strings.Join(o.Events, " ; "))
						break
					}
					if !hasEventPrefix(o, "store.StoreByType") && (last == "nil" || strings.HasPrefix(last, "result:")) {
						okc = false
						r.bad("R4", key, pos, "a CONNECT is handled successfully without starting a new connect exchange: the exchange that continues (and the MQTT CONNECT it sends) was built from an earlier CONNECT packet: "+strings.Join(o.Events, " ; "))
						break
					}
				}
				if len(outs) == 0 {
					r.undecided("R4", key, pos, "CONNECT case not explored")
				} else if okc {
					r.ok("R4", key, pos, firstOutcome(outs))
				}
			}
		}
	}
	// zero keep-alive
	for _, auth := range []int64{0, 1} {
		cells := map[string]aval{"state": kint(stDisconnected), "type:sn": kstr("*packets1.Connect"),
			"f:packets1.Connect.Duration": kint(0), "f:packets1.Connect.ProtocolID": kint(1), "type:tx": kstr("none")}
		for _, ac := range m.authCells() {
			cells[ac] = kint(auth)
		}
		outs, _ := m.run(m.snDisp, cells)
		key := fmt.Sprintf("zero-keepalive:auth=%d", auth)
		okc := len(outs) > 0
		for _, o := range outs {
			if hasEventPrefix(o, "store.StoreByType") || hasEventPrefix(o, "mq:") || !hasEventPrefix(o, "sn:*packets1.Connack{NewConnack(3)}") {
				okc = false
				r.bad("R3", key, pos, "CONNECT with zero keep-alive must be refused with CONNACK 'not supported' without starting a transaction: "+strings.Join(o.Events, " ; "))
			}
		}
		if okc {
			r.ok("R3", key, pos, firstOutcome(outs))
		}
	}
}

// checkConnectFieldOrigins: R2 of C09.
func (c *Ctx) checkConnectFieldOrigins(r *Report) {
	want := map[string][3]string{ // field -> (src type, src path..)
		"WillTopic":        {"WillTopic", "WillTopic", ""},
		"WillQos":          {"WillTopic", "QOS", ""},
		"WillRetain":       {"WillTopic", "Retain", ""},
		"WillMessage":      {"WillMsg", "WillMsg", ""},
		"WillFlag":         {"Connect", "Will", ""},
		"Keepalive":        {"Connect", "Duration", ""},
		"ClientIdentifier": {"Connect", "ClientID", ""},
		"CleanSession":     {"Connect", "CleanSession", ""},
	}
	seen := map[string]bool{}
	for _, f := range c.repoFuncs("gateway") {
		allInstrs(f, func(i ssa.Instruction) {
			s, ok := i.(*ssa.Store)
			if !ok {
				return
			}
			fa, ok := s.Addr.(*ssa.FieldAddr)
			if !ok || !typeIs(fa.X.Type(), pahoPkts, "ConnectPacket") {
				return
			}
			fn := fieldName(fa.X.Type(), fa.Field)
			w, interesting := want[fn]
			if !interesting {
				return
			}
			r.fn(f)
			seen[fn] = true
			key := fnKey(f) + ":ConnectPacket." + fn
			os := c.origins(s.Val)
			okAll := len(os) > 0
			var descr []string
			for _, o := range os {
				descr = append(descr, o.String())
				if !originIsField(o, pkPackets1, w[0], w[1]) && !c.isMirrorField(o, w[0], w[1]) {
					okAll = false
				}
			}
			if okAll {
				r.ok("R2", key, c.instrPos(s), "= incoming "+w[0]+"."+w[1])
			} else {
				r.bad("R2", key, c.instrPos(s), "CONNECT field "+fn+" must be the client's "+w[0]+"."+w[1]+", found: "+strings.Join(descr, ", "))
			}
		})
	}
	for fn := range want {
		if !seen[fn] {
			r.bad("R2", "ConnectPacket."+fn+":never-set", "-", "no store to CONNECT field "+fn+" found in package gateway")
		}
	}
	// protocol constants
	for _, f := range c.repoFuncs("gateway") {
		allInstrs(f, func(i ssa.Instruction) {
			s, ok := i.(*ssa.Store)
			if !ok {
				return
			}
			fa, ok := s.Addr.(*ssa.FieldAddr)
			if !ok || !typeIs(fa.X.Type(), pahoPkts, "ConnectPacket") {
				return
			}
			fn := fieldName(fa.X.Type(), fa.Field)
			key := fnKey(f) + ":ConnectPacket." + fn
			switch fn {
			case "ProtocolVersion":
				k, ok := constInt(s.Val)
				r.cond(ok && k == 4, "R2", key, c.instrPos(s), "protocol version 4", "protocol version is not the constant 4")
			case "ProtocolName":
				k, ok := constString(s.Val)
				r.cond(ok && k == "MQTT", "R2", key, c.instrPos(s), "protocol name MQTT", "protocol name is not the constant \"MQTT\"")
			}
		})
	}
}

// isMirrorField: the origin is a field of a gateway struct (the handler) that the package only ever assigns from the
// given field of the incoming packet - the handler's copy of the CONNECT's client ID / keep-alive, read back by a
// helper that builds the MQTT CONNECT.
func (c *Ctx) isMirrorField(o Origin, srcType, srcField string) bool {
	if !(o.Kind == "param" || o.Kind == "freevar") || len(o.Path) == 0 || o.Sliced {
		return false
	}
	fld := o.Path[len(o.Path)-1]
	rt := derefType(o.RootType())
	if len(o.Path) > 1 || namedOf(rt) == nil || namedOf(rt).Obj().Pkg() == nil || namedOf(rt).Obj().Pkg().Path() != pkGateway {
		return false
	}
	n, all := 0, true
	for _, f := range c.repoFuncs("gateway") {
		allInstrs(f, func(i ssa.Instruction) {
			st, ok := i.(*ssa.Store)
			if !ok {
				return
			}
			fa, ok := st.Addr.(*ssa.FieldAddr)
			if !ok || fieldName(fa.X.Type(), fa.Field) != fld || !types.Identical(derefType(fa.X.Type()), rt) {
				return
			}
			n++
			if !c.valueIsField(st.Val, pkPackets1, srcType, srcField) {
				all = false
			}
		})
	}
	return n > 0 && all
}
