package main

import "strings"

// importCodec files, under rule `rule` of the importing property, the codec
// obligations that property's statement depends on: a rule about what the
// gateway does with field F of a decoded packet T only means something if T's
// decoder reads F from the position the specification gives it, and a rule
// about a packet handed to the sender only if T's encoder writes it where the
// peer's decoder reads it. The obligations are decided once by C21/C22's code
// (cached per loaded configuration) and re-filed here, restricted to the
// packet types the importing property names:
//
//	decoded T: C22-R1 [T], [T:flag-bits] (field positions = specification),
//	           C21-R4 [T:tag] (the dispatcher's type switch sees the right struct),
//	           C22-R2 (body offset = parsed header size; all header obligations)
//	encoded T: C21-R1 [T] (encoder = decoder), C21-R2 [T:flags], C21-R3 [T…:length],
//	           C21-R4 [T:tag], C22-R1 [T] (decoder = specification, so encoder = specification)
//	short:     C21-R6 (short-topic codec is a byte-exact bijection)
func importCodec(c *Ctx, r *Report, rule string, decoded, encoded []string, short bool) {
	typeOf := func(key string) string {
		for i, ch := range key {
			if ch == ':' || ch == '[' {
				return key[:i]
			}
		}
		return key
	}
	in := func(list []string, t string) bool {
		for _, x := range list {
			if x == t {
				return true
			}
		}
		return false
	}
	file := func(prop string, o *Obligation) {
		o2 := *o
		short := strings.TrimPrefix(o.Rule, prop+"-")
		o2.Rule = r.Prop + "-" + rule
		o2.Key = prop + "/" + short + ":" + o.Key
		r.Obls = append(r.Obls, &o2)
	}
	found := map[string]bool{}
	defer func() {
		for _, t := range append(append([]string{}, decoded...), encoded...) {
			if !found[t] {
				r.undecided(rule, "codec:"+t, "-", "no decoder-layout obligation was produced for packet type "+t+" (type removed or codec not understood, see C22)")
			}
		}
	}()
	for _, prop := range []string{"C21", "C22"} {
		pc, ok := registry[prop]
		if !ok {
			r.undecided("R0", "import:"+prop, "-", "shared rule set "+prop+" not available")
			return
		}
		tmp := c.runCached(pc, r.configActive)
		for _, o := range tmp.Obls {
			sr := strings.TrimPrefix(o.Rule, prop+"-")
			t := typeOf(o.Key)
			switch prop + "-" + sr {
			case "C22-R1":
				if in(decoded, t) || in(encoded, t) {
					file(prop, o)
				}
			case "C22-R2", "C22-R3":
				if len(decoded) > 0 {
					file(prop, o)
				}
			case "C21-R4":
				if in(decoded, t) || in(encoded, t) {
					file(prop, o)
				}
			case "C21-R1", "C21-R2", "C21-R3":
				if in(encoded, t) {
					file(prop, o)
				}
			case "C21-R5":
				if len(encoded) > 0 {
					file(prop, o)
				}
			case "C21-R6":
				if short {
					file(prop, o)
				}
			}
			if prop == "C22" && sr == "R1" {
				found[t] = true
			}
		}
		for f := range tmp.Funcs {
			r.Funcs[f] = true
		}
	}
}

type codecDep struct {
	decoded, encoded []string
	short            bool
}

// codecDeps: which packet types' wire format each property's statement reads
// (decoded: received from the peer and interpreted by the subject of the
// property; encoded: built by the subject and interpreted by the peer).
var codecDeps = map[string]codecDep{
	"C01": {decoded: []string{"Publish"}, short: true},
	"C02": {decoded: []string{"Regack"}, encoded: []string{"Publish", "Register"}, short: true},
	"C03": {decoded: []string{"Pubrel", "Pingreq", "Disconnect", "Subscribe", "Unsubscribe"},
		encoded: []string{"Pubrec", "Pubcomp", "Unsuback", "Suback", "Pingresp"}, short: true},
	"C04": {decoded: []string{"Register", "Subscribe"}, encoded: []string{"Regack", "Suback", "Register"}},
	"C05": {decoded: []string{"Connect"}, encoded: []string{"Connect"}},
	"C06": {decoded: []string{"Publish", "Puback", "Pubrec", "Pubrel", "Pubcomp", "Regack", "Register", "Subscribe", "Unsubscribe", "Suback", "Unsuback"}},
	"C07": {decoded: []string{"Connect", "Disconnect", "Publish", "Pingreq"}, encoded: []string{"Connack"}},
	"C08": {decoded: []string{"Connect", "Auth"}, encoded: []string{"Connack"}},
	"C09": {decoded: []string{"Connect", "WillTopic", "WillMsg"}, encoded: []string{"Connack", "WillTopicReq", "WillMsgReq"}},
	"C11": {decoded: []string{"Pingreq", "Disconnect"}, encoded: []string{"Pingresp", "Disconnect"}},
	"C12": {decoded: []string{"Pingreq", "Disconnect", "Connect"}},
	"C13": {decoded: []string{"Disconnect"}},
	"C14": {decoded: []string{"Disconnect"}},
	"C16": {decoded: []string{"Puback", "Pubrec", "Pubcomp", "Regack", "Publish", "Pubrel"},
		encoded: []string{"Publish", "Pubrel", "Register", "Puback", "Pubrec", "Pubcomp"}},
	"C17": {decoded: []string{"Puback", "Pubrec", "Pubcomp", "Pubrel", "Suback"},
		encoded: []string{"Publish", "Pubrel", "Pubcomp", "Subscribe"}},
	"C23": {encoded: []string{"Connack", "WillTopicReq", "WillMsgReq", "Register", "Regack", "Publish", "Puback",
		"Pubrec", "Pubrel", "Pubcomp", "Suback", "Unsuback", "Pingresp", "Disconnect", "Connect", "Auth",
		"WillTopic", "WillMsg", "Subscribe", "Unsubscribe", "Pingreq"}},
	"C24": {decoded: []string{"Publish", "Subscribe", "Unsubscribe", "Connect", "WillTopic", "WillMsg", "Register"}, short: true},
	"C27": {decoded: []string{"Publish", "Pubrel", "Suback", "Unsuback"}, short: true},
	"C31": {encoded: []string{"Auth", "Connect"}},
	"C32": {decoded: []string{"Publish", "Subscribe", "Unsubscribe", "Suback", "Register"}, short: true},
	"C33": {decoded: []string{"Pingresp"}, encoded: []string{"Pingreq"}},
}
