package main

import (
	"os"
	"sort"
	"fmt"
	"go/token"
	"go/types"
	"strings"

	"golang.org/x/tools/go/ssa"
)

func init() {
	register("C10", func(r *Report) {
		r.Explanation = "Decides that the reaping mechanism is wired on every path and for every stopping point (it does not depend on which packet was last): (R1) the gateway's connect transaction is a TimedTransaction whose timeout argument is the constant 5 s; (R2) the function that starts the connect exchange spawns the watcher goroutine before any early return, on every path, and the watcher returns a non-nil error other than the clean-shutdown sentinel when the transaction failed with anything but the 'cancelled' sentinel (so the errgroup cancels the session); it waits on the transaction's Done() and on the session context; (R3) the timed transaction's timer callback fails it with ErrTimeout and completion closes Done on every path (C18-R1/C19-R3); (R4) after a successful dial every return of the session function runs the deferred Close of the broker connection; (R5) a CONNECT that cancels the pending connect exchange always starts a new one (or ends the session with an error), for every state, keep-alive zero/non-zero and protocol ID: a handler never stays connected to the broker without a running timer; (R6) the timed transaction's timer field is stored by the constructor only and otherwise only stopped (no Reset, no re-arming): the limit runs from the CONNECT and is never extended. Not decided: the numeric bound '5 s + one poll interval'."
		r.floor("R6", 1)
		r.floor("R1", 1)
		r.floor("R2", 2)
		r.floor("R5", 8)
		r.floor("R4", 1)
	}, checkC10)
	register("C13", func(r *Report) {
		r.Explanation = "Decides the no-leak / join / close structure for every termination cause: (R1) the session function joins its goroutines: every return reachable after the first goroutine was spawned passes the group's Wait, and a cancel of a context the group derives from is deferred before the first spawn; (R2) cancellation discipline: every blocking select and bare channel receive in package gateway and util.ConnWithContext has a case on a context's or transaction's Done(), every such context derives from the session/function context (never from context.Background() inside a session goroutine), ConnWithContext.Read/Write re-check the context in every retry iteration (no cycle avoids the check) and set the deadline before each attempt; (R3) the receive loops return the error of ReadPacket and of the dispatcher (context.Canceled -> nil; io.EOF -> sentinel/ErrMqttConnClosed): no path from a failed read or dispatch back to the loop head; (R4) the shutdown goroutine sends DISCONNECT exactly when the state is Active or Awake, and the plain-DISCONNECT path sets Disconnected before returning the clean-shutdown sentinel (so no second DISCONNECT); (R5) the broker connection is closed on every exit after the dial (C10-R4); (R6) the context of the client connection's wrapper is rooted at context.Background() and cancelled only after the shutdown goroutine's last send, so the DISCONNECT sent on session end is really written; (R7) every goroutine of the session's errgroup observes the group's context, or a context that a member waiting for the group context cancels; (R8) lock discipline in packages gateway, transactions and util: nothing waits under a lock and no call made under a lock - including the completion of a transaction, which runs its finally callback - reaches code that acquires the same lock. Not decided: the numeric bound; OS-level blocking inside net.Conn."
		r.floor("R1", 1)
		r.floor("R2", 5)
		r.floor("R6", 1)
		r.floor("R7", 2)
		r.floor("R8", 2)
		r.floor("R3", 2)
		r.floor("R4", 4)
	}, checkC13)
}

// sessionFunc: the gateway function that creates the errgroup.
func (c *Ctx) sessionFunc() *ssa.Function {
	for _, f := range c.repoFuncs("gateway") {
		found := false
		allInstrs(f, func(i ssa.Instruction) {
			if ci, ok := i.(ssa.CallInstruction); ok && calleeName(ci.Common()) == "golang.org/x/sync/errgroup.WithContext" {
				found = true
			}
		})
		if found && f.Parent() == nil {
			return f
		}
	}
	return nil
}

func isGroupGo(i ssa.Instruction) (*ssa.Function, bool) {
	ci, ok := i.(ssa.CallInstruction)
	if !ok || calleeName(ci.Common()) != "(*golang.org/x/sync/errgroup.Group).Go" {
		return nil, false
	}
	if len(ci.Common().Args) > 1 {
		if f := callbackFunction(ci.Common().Args[1]); f != nil {
			return f, true
		}
	}
	return nil, true
}

func isGroupWait(i ssa.Instruction) bool {
	ci, ok := i.(ssa.CallInstruction)
	return ok && calleeName(ci.Common()) == "(*golang.org/x/sync/errgroup.Group).Wait"
}

func (c *Ctx) checkBrokerConnClosed(r *Report, rule string) {
	run := c.sessionFunc()
	if run == nil {
		r.undecided(rule, "session-function", "-", "no function creating an errgroup found in package gateway")
		return
	}
	r.fn(run)
	// the dial: call of DialContext / mockup returning net.Conn stored in a local; deferred closure calling Close on it
	var deferInstr *ssa.Defer
	allInstrs(run, func(i ssa.Instruction) {
		d, ok := i.(*ssa.Defer)
		if !ok {
			return
		}
		g := staticCallee(d.Common())
		if g == nil {
			return
		}
		closes := false
		allInstrs(g, func(j ssa.Instruction) {
			if cj, ok := j.(ssa.CallInstruction); ok && cj.Common().IsInvoke() && cj.Common().Method.Name() == "Close" && typeIs(cj.Common().Value.Type(), "net", "Conn") {
				closes = true
			}
		})
		if closes {
			deferInstr = d
		}
	})
	key := fnKey(run) + ":broker-conn-closed"
	if deferInstr == nil {
		r.bad(rule, key, c.pos(run.Pos()), "the session function has no deferred Close of the broker connection")
		return
	}
	// the dial result must not be usable on a return path that skips the defer: every Return reachable from a
	// successful dial passes the defer registration
	var dialOK []ssa.Instruction
	allInstrs(run, func(i ssa.Instruction) {
		if ci, ok := i.(ssa.CallInstruction); ok {
			n := calleeName(ci.Common())
			if strings.HasSuffix(n, ".DialContext") || strings.HasSuffix(n, ".Dial") {
				dialOK = append(dialOK, i)
			}
		}
	})
	bad := ""
	for _, d := range dialOK {
		// successful dial = the err == nil edge; conservative: any return reachable from the dial that avoids the defer
		// must be dominated by err != nil of that dial
		for _, b := range run.Blocks {
			ret, ok := b.Instrs[len(b.Instrs)-1].(*ssa.Return)
			if !ok {
				continue
			}
			if reach, _ := pathExists(run, d, func(x ssa.Instruction) bool { return x == ssa.Instruction(ret) }, func(x ssa.Instruction) bool { return x == ssa.Instruction(deferInstr) }); reach {
				// acceptable only under the dial-error guard
				okGuard := false
				for _, g := range guardsOf(b) {
					x, y, op, isCmp := cmpGuard(g)
					if isCmp && op == token.NEQ && isNilConst(y) {
						if ex, ok := x.(*ssa.Extract); ok && ex.Tuple == d.(ssa.Value) {
							okGuard = true
						}
					}
				}
				if !okGuard {
					bad = "a return after a successful dial skips the deferred Close (" + c.instrPos(ret) + ")"
				}
			}
		}
	}
	if bad != "" {
		r.bad(rule, key, c.instrPos(deferInstr), bad)
	} else {
		r.ok(rule, key, c.instrPos(deferInstr), "Close of the broker connection is deferred right after the dial; only the dial-error return precedes it")
	}
}

func checkC10(c *Ctx, r *Report) {
	// R1: the connect transaction's timeout
	n1 := 0
	for _, f := range c.repoFuncs("gateway") {
		allInstrs(f, func(i ssa.Instruction) {
			call, ok := i.(*ssa.Call)
			if !ok || calleeName(&call.Call) != pkTrans+".NewTimedTransaction" {
				return
			}
			// is this the connect transaction? its struct holds a *ConnectPacket
			ctor := f
			for ctor.Parent() != nil {
				ctor = ctor.Parent()
			}
			if ctor.Signature.Results().Len() != 1 {
				return
			}
			st := structOf(ctor.Signature.Results().At(0).Type())
			if st == nil {
				return
			}
			has := false
			for k := 0; k < st.NumFields(); k++ {
				if typeIs(st.Field(k).Type(), pahoPkts, "ConnectPacket") {
					has = true
				}
			}
			if !has {
				return
			}
			n1++
			r.fn(ctor)
			key := fnKey(ctor) + ":connect-timeout"
			k, ok := constInt(call.Call.Args[1])
			if ok && k == 5000000000 {
				r.ok("R1", key, c.instrPos(i), "NewTimedTransaction(ctx, 5 s constant, ...)")
			} else if ok {
				r.bad("R1", key, c.instrPos(i), fmt.Sprintf("the connect transaction's timeout is the constant %d ns, not 5 s", k))
			} else {
				r.bad("R1", key, c.instrPos(i), "the connect transaction's timeout is not the 5 s constant but "+exprStr(call.Call.Args[1])+" (a client-chosen value keeps half-open sessions alive)")
			}
		})
	}
	if n1 == 0 {
		r.undecided("R1", "connect-transaction", "-", "no timed connect transaction constructor found")
	}
	// R2: watcher
	c.checkConnectWatcher(r)
	// R3: shared with C19-R3 / C18-R1
	n3 := 0
	timedCtor := c.SSA[pkTrans].Func("NewTimedTransaction")
	var timedCb *ssa.Function
	if timedCtor != nil {
		allInstrs(timedCtor, func(i ssa.Instruction) {
			if ci, ok := i.(ssa.CallInstruction); ok && calleeName(ci.Common()) == "time.AfterFunc" {
				timedCb = callbackFunction(ci.Common().Args[1])
			}
		})
	}
	for _, fn := range c.repoFuncs("transactions") {
		if fn != timedCb {
			continue
		}
		// timer callback of NewTimedTransaction
		if p := timedCtor; p != nil {
			okc := false
			allInstrs(fn, func(i ssa.Instruction) {
				if ci, ok := i.(ssa.CallInstruction); ok {
					if g := staticCallee(ci.Common()); g != nil && g.Name() == "Fail" && len(ci.Common().Args) == 2 {
						if u, ok := ci.Common().Args[1].(*ssa.UnOp); ok {
							if gl, ok := u.X.(*ssa.Global); ok && gl.Name() == "ErrTimeout" {
								okc = true
							}
						}
					}
				}
			})
			isTimer := false
			allInstrs(p, func(i ssa.Instruction) {
				if ci, ok := i.(ssa.CallInstruction); ok && calleeName(ci.Common()) == "time.AfterFunc" {
					if callbackFunction(ci.Common().Args[1]) == fn {
						isTimer = true
						// duration is the constructor's timeout parameter
						if prm, ok := ci.Common().Args[0].(*ssa.Parameter); !ok || prm.Parent() != p {
							okc = false
						}
					}
				}
			})
			if isTimer {
				n3++
				r.cond(okc, "R3", "NewTimedTransaction:timer", c.pos(fn.Pos()), "timer armed with the timeout parameter; callback fails with ErrTimeout", "the timed transaction does not fail with ErrTimeout after its timeout parameter")
			}
		}
	}
	if n3 == 0 {
		r.undecided("R3", "NewTimedTransaction:timer", "-", "timer of the timed transaction not found")
	}
	// R3b: the timer is armed on EVERY path through the constructor (no 'only if timeout > 0')
	if p := c.SSA[pkTrans].Func("NewTimedTransaction"); p != nil {
		var af ssa.Instruction
		allInstrs(p, func(i ssa.Instruction) {
			if ci, ok := i.(ssa.CallInstruction); ok && calleeName(ci.Common()) == "time.AfterFunc" {
				af = i
			}
		})
		if af != nil {
			skip, _ := pathExists(p, nil, func(x ssa.Instruction) bool { _, ok := x.(*ssa.Return); return ok }, func(x ssa.Instruction) bool { return x == af })
			r.cond(!skip, "R3", "NewTimedTransaction:timer-on-every-path", c.instrPos(af), "every path through the constructor arms the timer",
				"a path through NewTimedTransaction returns a transaction whose timer was never armed: an exchange built with that timeout value never times out (or a later completion uses a nil timer)")
		}
	}
	// R6: the time limit runs from the construction of the exchange and is never extended: the timed transaction's
	// timer is written by the constructor only and, once armed, only ever stopped (no Reset, no second AfterFunc)
	if p := c.SSA[pkTrans].Func("NewTimedTransaction"); p != nil && p.Signature.Results().Len() == 1 {
		if st := structOf(p.Signature.Results().At(0).Type()); st != nil {
			tt := p.Signature.Results().At(0).Type()
			nUse := 0
			var bads []string
			for _, f := range c.allRepoFuncs() {
				allInstrs(f, func(i ssa.Instruction) {
					fa, ok := i.(*ssa.FieldAddr)
					if !ok || structOf(fa.X.Type()) != st || !typeIs(st.Field(fa.Field).Type(), "time", "Timer") {
						return
					}
					if fa.Referrers() == nil {
						return
					}
					top := f
					for top.Parent() != nil {
						top = top.Parent()
					}
					for _, u := range *fa.Referrers() {
						nUse++
						switch x := u.(type) {
						case *ssa.Store:
							if x.Addr == ssa.Value(fa) && top != p {
								bads = append(bads, c.instrPos(u)+": the timer is replaced outside the constructor")
							}
						case *ssa.UnOp:
							if x.Referrers() == nil {
								continue
							}
							for _, u2 := range *x.Referrers() {
								switch y := u2.(type) {
								case ssa.CallInstruction:
									if n := calleeName(y.Common()); n != "(*time.Timer).Stop" {
										bads = append(bads, c.instrPos(u2)+": "+n+" on the timer of a running exchange")
									}
								case *ssa.BinOp, *ssa.DebugRef:
								default:
									bads = append(bads, c.instrPos(u2)+": the timer escapes ("+u2.String()+")")
								}
							}
						case *ssa.DebugRef:
						default:
							bads = append(bads, c.instrPos(u)+": the address of the timer field escapes ("+u.String()+")")
						}
					}
				})
			}
			_ = tt
			if nUse == 0 {
				r.undecided("R6", "timed-transaction:timer-never-rearmed", "-", "no use of the timed transaction's timer field found")
			} else {
				sort.Strings(bads)
				r.cond(len(bads) == 0, "R6", "timed-transaction:timer-never-rearmed", c.pos(p.Pos()), fmt.Sprintf("%d uses of the timer field: stored by the constructor only, otherwise only stopped", nUse),
					"the time limit of a running timed transaction can be changed after construction ("+strings.Join(bads, "; ")+"): the connect exchange is then no longer reaped 5 s after the CONNECT (a non-positive or long value leaves the half-open session unreaped)")
			}
		}
	}
	c.checkBrokerConnClosed(r, "R4")
	// R5: a pending exchange is only ever replaced, never just cancelled: every way the CONNECT case completes
	// (fails) the pending connect transaction either starts a new one (stored, watcher spawned) or ends the
	// session with an error - otherwise the handler stays half-open with no timer at all
	m, err := c.newGwModel()
	if err != nil {
		r.undecided("R5", "gateway-model", "-", err.Error())
		return
	}
	for _, st := range []int64{0, 1, 2, 3} {
		for _, dur := range []int64{0, 30} {
			for _, proto := range []int64{1, 2} {
				cells := map[string]aval{"state": kint(st), "type:sn": kstr("*packets1.Connect"), "f:packets1.Connect.Duration": kint(dur), "f:packets1.Connect.ProtocolID": kint(proto), "type:tx": kstr(c.gwConnectTx())}
				outs, _ := m.run(m.snDisp, cells)
				key := fmt.Sprintf("%s/CONNECT(duration=%d,protocol=%d)", stateNames[st], dur, proto)
				okc := len(outs) > 0
				detail := ""
				for _, o := range outs {
					cancelled, replaced := false, false
					for _, ev := range o.Events {
						if ev == "tx.Fail" {
							cancelled = true
						}
						if strings.HasPrefix(ev, "store.StoreByType") {
							replaced = true
						}
					}
					last := ""
					if len(o.Ret) > 0 {
						last = o.Ret[len(o.Ret)-1]
					}
					if cancelled && !replaced && last == "nil" {
						okc = false
						detail = "the pending connect exchange is cancelled but no new one is started and the session goes on: nothing reaps the handler any more (its broker connection stays open until the gateway stops): " + strings.Join(o.Events, " ; ")
					}
				}
				if okc {
					r.ok("R5", key, c.pos(m.snDisp.Pos()), firstOutcome(outs))
				} else if detail == "" {
					r.undecided("R5", key, c.pos(m.snDisp.Pos()), "no outcome explored")
				} else {
					r.bad("R5", key, c.pos(m.snDisp.Pos()), detail)
				}
			}
		}
	}
}

// checkConnectWatcher: R2 of C10.
func (c *Ctx) checkConnectWatcher(r *Report) {
	n := 0
	for _, f := range c.repoFuncs("gateway") {
		if f.Signature.Recv() == nil {
			continue
		}
		st := structOf(f.Signature.Recv().Type())
		if st == nil {
			continue
		}
		has := false
		for k := 0; k < st.NumFields(); k++ {
			if typeIs(st.Field(k).Type(), pahoPkts, "ConnectPacket") {
				has = true
			}
		}
		if !has {
			continue
		}
		// the method that spawns a goroutine
		var goInstr ssa.Instruction
		var watcher *ssa.Function
		allInstrs(f, func(i ssa.Instruction) {
			if w, ok := isGroupGo(i); ok {
				goInstr, watcher = i, w
			}
		})
		if goInstr == nil {
			continue
		}
		n++
		r.fn(f)
		key := fnKey(f) + ":watcher-spawned-on-every-path"
		// every return of f is preceded by the spawn
		if reach, at := pathExists(f, nil, func(i ssa.Instruction) bool { _, ok := i.(*ssa.Return); return ok }, func(i ssa.Instruction) bool { return i == goInstr }); reach {
			r.bad("R2", key, c.instrPos(at), "a path through the start of the connect exchange returns without spawning the goroutine that turns the transaction's timeout into a session error (half-open sessions are never reaped on that path)")
		} else {
			r.ok("R2", key, c.instrPos(goInstr), "the watcher goroutine is spawned before every return")
		}
		if watcher == nil {
			r.undecided("R2", fnKey(f)+":watcher", c.instrPos(goInstr), "the spawned function is not a closure literal")
			continue
		}
		r.fn(watcher)
		// watcher: select on Done() and ctx.Done()
		k2 := fnKey(watcher) + ":watcher-propagates-timeout"
		selOK := false
		allInstrs(watcher, func(i ssa.Instruction) {
			if sel, ok := i.(*ssa.Select); ok && sel.Blocking {
				done, ctx := false, false
				for _, s := range sel.States {
					if s.Dir != types.RecvOnly {
						continue
					}
					if c.isContextDone(s.Chan) {
						ctx = true
					} else if isDoneChan(s.Chan) {
						done = true
					}
				}
				selOK = done && ctx
			}
		})
		// explore the watcher: Err() unknown/nil/Cancelled/other
		e := &explorer{c: c, MaxDepth: 1}
		e.Inline = func(*ssa.Function) bool { return false }
		okRet := true
		detail := ""
		for _, errv := range []string{"nil", "global:Cancelled", "global:ErrTimeout", "error"} {
			ev := errv
			e.CallValue = func(call *ssa.Call, ex *explorer, st *pstate, fr *frame) ([]aval, bool) {
				if g := staticCallee(&call.Call); g != nil && g.Name() == "Err" {
					return []aval{kstr(ev)}, true
				}
				if call.Call.IsInvoke() && call.Call.Method.Name() == "Err" {
					return []aval{kstr(ev)}, true
				}
				return nil, false
			}
			e.ValueHook = func(v ssa.Value, ex *explorer, st *pstate, fr *frame) (aval, bool) {
				// the select index: 0 = first case; explore only the Done() branch
				if x, ok := v.(*ssa.Extract); ok {
					if sel, ok := x.Tuple.(*ssa.Select); ok && x.Index == 0 {
						for k, s := range sel.States {
							if isDoneChan(s.Chan) && !c.isContextDone(s.Chan) {
								return kint(int64(k)), true
							}
						}
					}
				}
				return aval{}, false
			}
			outs := e.Explore(watcher, nil, nil)
			for _, o := range outs {
				ret := strings.Join(o.Ret, ",")
				switch ev {
				case "nil", "global:Cancelled":
					if ret != "nil" {
						okRet, detail = false, fmt.Sprintf("transaction finished with %s but the watcher returns %s", ev, ret)
					}
				default:
					if ret == "nil" || ret == "global:Shutdown" {
						okRet, detail = false, fmt.Sprintf("transaction failed with %s but the watcher returns %s: the session is not ended", ev, ret)
					}
					// the result of a repository function (a send, a helper) may be nil: the session would go on
					if strings.HasPrefix(ret, "result:") && strings.Contains(ret, modPath) || strings.HasPrefix(ret, "result:(*gateway.") || strings.HasPrefix(ret, "result:gateway.") {
						okRet, detail = false, fmt.Sprintf("transaction failed with %s but the watcher returns %s, which is nil when that call succeeds: the session is not ended and the half-open exchange is never reaped", ev, ret)
					}
					if os.Getenv("BISQ_DEBUG") != "" {
						fmt.Println("C10-R2 watcher", ev, "=>", ret)
					}
				}
			}
			if len(outs) == 0 {
				okRet, detail = false, "watcher not explorable"
			}
		}
		switch {
		case !selOK:
			r.bad("R2", k2, c.pos(watcher.Pos()), "the watcher does not wait on both the transaction's Done() and the session context")
		case !okRet:
			r.bad("R2", k2, c.pos(watcher.Pos()), detail)
		default:
			r.ok("R2", k2, c.pos(watcher.Pos()), "waits on Done() and ctx.Done(); a failed (non-cancelled) transaction yields a non-nil, non-sentinel error")
		}
	}
	if n == 0 {
		r.undecided("R2", "connect-watcher", "-", "no method of the connect transaction spawning a watcher goroutine found")
	}
}

// ctxDerivation classifies where a context value comes from: "param",
// "background", "derived:<...>" etc.
func (c *Ctx) ctxRoot(v ssa.Value, depth int) string {
	if depth > 8 {
		return "?"
	}
	switch x := v.(type) {
	case *ssa.Parameter:
		return "param"
	case *ssa.FreeVar:
		if p := capturedParam(x); p != nil {
			return "param"
		}
		// captured local: resolve binding
		f := x.Parent()
		idx := -1
		for i, fv := range f.FreeVars {
			if fv == x {
				idx = i
			}
		}
		res := "?"
		if par := f.Parent(); par != nil && idx >= 0 {
			allInstrs(par, func(i ssa.Instruction) {
				if mc, ok := i.(*ssa.MakeClosure); ok && mc.Fn == f && idx < len(mc.Bindings) {
					res = c.ctxRoot(mc.Bindings[idx], depth+1)
				}
			})
		}
		return res
	case *ssa.Alloc:
		res := ""
		if refs := x.Referrers(); refs != nil {
			for _, rf := range *refs {
				if s, ok := rf.(*ssa.Store); ok && s.Addr == ssa.Value(x) {
					rr := c.ctxRoot(s.Val, depth+1)
					if res != "" && res != rr {
						return "mixed(" + res + "," + rr + ")"
					}
					res = rr
				}
			}
		}
		if res == "" {
			return "?"
		}
		return res
	case *ssa.UnOp:
		if x.Op == token.MUL {
			switch a := x.X.(type) {
			case *ssa.FieldAddr:
				return "field:" + fieldName(a.X.Type(), a.Field)
			default:
				return c.ctxRoot(x.X, depth+1)
			}
		}
	case *ssa.Extract:
		if call, ok := x.Tuple.(*ssa.Call); ok {
			n := calleeName(&call.Call)
			switch n {
			case "context.WithCancel", "context.WithTimeout", "context.WithDeadline", "golang.org/x/sync/errgroup.WithContext":
				return c.ctxRoot(call.Call.Args[0], depth+1)
			}
			return "call:" + shortName(n)
		}
	case *ssa.Call:
		n := calleeName(&x.Call)
		switch n {
		case "context.Background", "context.TODO":
			return "background"
		case "context.WithValue":
			return c.ctxRoot(x.Call.Args[0], depth+1)
		}
		return "call:" + shortName(n)
	case *ssa.Phi:
		res := ""
		for _, e := range x.Edges {
			rr := c.ctxRoot(e, depth+1)
			if res != "" && res != rr {
				return "mixed(" + res + "," + rr + ")"
			}
			res = rr
		}
		return res
	case *ssa.MakeInterface:
		return c.ctxRoot(x.X, depth+1)
	case *ssa.ChangeInterface:
		return c.ctxRoot(x.X, depth+1)
	}
	return "?" + exprStr(v)
}

func checkC13(c *Ctx, r *Report) {
	run := c.sessionFunc()
	if run == nil {
		r.undecided("R1", "session-function", "-", "no function creating an errgroup found in package gateway")
		return
	}
	r.fn(run)
	// R1: join
	var firstGo ssa.Instruction
	allInstrs(run, func(i ssa.Instruction) {
		if _, ok := isGroupGo(i); ok && firstGo == nil {
			firstGo = i
		}
	})
	key := fnKey(run) + ":join"
	if firstGo == nil {
		r.undecided("R1", key, c.pos(run.Pos()), "the session function spawns no goroutine")
	} else {
		// deferred cancel before the first spawn, of a context the group derives from
		deferredCancel := false
		allInstrs(run, func(i ssa.Instruction) {
			d, ok := i.(*ssa.Defer)
			if !ok {
				return
			}
			// defer cancel(): value is Extract #1 of context.WithCancel
			if ex, ok := d.Common().Value.(*ssa.Extract); ok && ex.Index == 1 {
				if call, ok := ex.Tuple.(*ssa.Call); ok && strings.HasPrefix(calleeName(&call.Call), "context.With") {
					if d.Block().Dominates(firstGo.Block()) {
						// the group's context must derive from this one
						allInstrs(run, func(j ssa.Instruction) {
							if cj, ok := j.(*ssa.Call); ok && calleeName(&cj.Call) == "golang.org/x/sync/errgroup.WithContext" {
								if ex0, ok := cj.Call.Args[0].(*ssa.Extract); ok && ex0.Tuple == ssa.Value(call) {
									deferredCancel = true
								}
							}
						})
					}
				}
			}
		})
		bad := ""
		for _, b := range run.Blocks {
			ret, ok := b.Instrs[len(b.Instrs)-1].(*ssa.Return)
			if !ok {
				continue
			}
			if reach, _ := pathExists(run, firstGo, func(x ssa.Instruction) bool { return x == ssa.Instruction(ret) }, isGroupWait); reach {
				bad = "a return after the first goroutine was spawned does not wait for the group (" + c.instrPos(ret) + ")"
			}
		}
		switch {
		case bad != "":
			r.bad("R1", key, c.instrPos(firstGo), bad+": goroutines of the session outlive it")
		case !deferredCancel:
			r.bad("R1", key, c.instrPos(firstGo), "no cancel of a context the group derives from is deferred before the first spawn")
		default:
			r.ok("R1", key, c.instrPos(firstGo), "every return after the first spawn passes group.Wait(); cancel of the group's parent context is deferred before the first spawn")
		}
	}
	// R2: cancellation discipline
	c.checkCancellation(r, []string{"gateway", "util"})
	// R3: receive loops
	c.checkReceiveLoops(r, "gateway")
	// R4: shutdown goroutine and plain DISCONNECT
	m, err := c.newGwModel()
	if err != nil {
		r.undecided("R4", "gateway-model", "-", err.Error())
	} else {
		// "... and did not disconnect itself": the state the shutdown goroutine reads says Disconnected only because
		// the client sent a plain DISCONNECT. Every place the session state is set to the constant Disconnected is
		// in the MQTT-SN dispatcher under Duration == 0 of the decoded DISCONNECT (a receive loop that marks the
		// client disconnected on a read or decode error makes the goroutine skip the DISCONNECT an active client is owed)
		nSet := 0
		for _, f := range c.repoFuncs("gateway") {
			allInstrs(f, func(i ssa.Instruction) {
				ci, ok := i.(ssa.CallInstruction)
				if !ok {
					return
				}
				g := staticCallee(ci.Common())
				if g == nil || len(ci.Common().Args) < 2 {
					return
				}
				isSetter := calleeName(ci.Common()) == "(*"+pkUtil+".ClientState).Set"
				if !isSetter && fnPkgPath(g) == pkGateway {
					allInstrs(g, func(j ssa.Instruction) {
						if cj, ok := j.(ssa.CallInstruction); ok && calleeName(cj.Common()) == "(*"+pkUtil+".ClientState).Set" {
							if p, ok := cj.Common().Args[1].(*ssa.Parameter); ok && p.Parent() == g {
								isSetter = true
							}
						}
					})
				}
				if !isSetter {
					return
				}
				k, isC := constInt(ci.Common().Args[len(ci.Common().Args)-1])
				if !isC || k != stDisconnected {
					return
				}
				nSet++
				key := fnKey(f) + ":state<-Disconnected"
				plainAt := func(site ssa.Instruction) bool {
					for _, gd := range guardsOf(site.Block()) {
						x, y, op, isCmp := cmpGuard(gd)
						if isCmp && op == token.EQL {
							if kk, isK := constInt(y); isK && kk == 0 && c.valueIsField(x, pkPackets1, "Disconnect", "Duration") {
								return true
							}
						}
					}
					return false
				}
				// in place, or in a helper every call of which is under that guard
				okc := plainAt(i)
				if !okc && f != m.snDisp {
					nCall, all := 0, true
					for _, g2 := range c.repoFuncs("gateway") {
						allInstrs(g2, func(j ssa.Instruction) {
							if cj, ok := j.(ssa.CallInstruction); ok && staticCallee(cj.Common()) == f {
								nCall++
								if !plainAt(j) {
									all = false
								}
							}
						})
					}
					okc = nCall > 0 && all
				}
				r.cond(okc, "R4", key, c.instrPos(i), "set only while handling the client's plain DISCONNECT (Duration == 0)", "the session state is set to Disconnected outside the handling of the client's plain DISCONNECT: the shutdown goroutine then takes the client for one that disconnected itself and does not send the DISCONNECT an active or awake client must receive when the session ends")
			})
		}
		if nSet == 0 {
			r.undecided("R4", "state<-Disconnected", "-", "no place sets the session state to Disconnected")
		}
		var shutdown *ssa.Function
		cands := closuresIn(run)
		for _, cl := range closuresIn(run) {
			if t := forwardTarget(cl); t != cl {
				cands = append(cands, t)
			}
		}
		for _, cl := range cands {
			getsState, waitsCtx := false, false
			allInstrs(cl, func(i ssa.Instruction) {
				if ci, ok := i.(ssa.CallInstruction); ok && calleeName(ci.Common()) == "(*"+pkUtil+".ClientState).Get" {
					getsState = true
				}
				if u, ok := i.(*ssa.UnOp); ok && u.Op == token.ARROW && c.isContextDone(u.X) {
					waitsCtx = true
				}
			})
			if getsState && waitsCtx {
				shutdown = cl
			}
		}
		if shutdown == nil {
			r.undecided("R4", "shutdown-goroutine", c.pos(run.Pos()), "no session goroutine reading the state found")
		} else {
			r.fn(shutdown)
			for _, st := range []int64{0, 1, 2, 3} {
				e := m.explorer()
				outs := e.Explore(shutdown, map[string]aval{"state": kint(st)}, nil)
				key := "shutdown/" + stateNames[st]
				okc := len(outs) > 0
				for _, o := range outs {
					sent := false
					for _, ev := range eventsWithPrefix(o, "sn:") {
						if strings.Contains(ev, "Disconnect") {
							sent = true
						} else {
							okc = false
						}
					}
					if sent != (st == stActive || st == stAwake) {
						okc = false
					}
				}
				if okc {
					r.ok("R4", key, c.pos(shutdown.Pos()), firstOutcome(outs))
				} else {
					r.bad("R4", key, c.pos(shutdown.Pos()), "on session end the client must receive a DISCONNECT exactly when it was active or awake: "+firstOutcome(outs))
				}
			}
		}
		// plain DISCONNECT: state set to Disconnected before returning the sentinel
		for _, st := range []int64{1, 3} {
			outs, _ := m.run(m.snDisp, map[string]aval{"state": kint(st), "type:sn": kstr("*packets1.Disconnect"), "f:packets1.Disconnect.Duration": kint(0)})
			key := stateNames[st] + "/plain-DISCONNECT"
			okc := len(outs) > 0
			detail := ""
			for _, o := range outs {
				last := ""
				if len(o.Ret) > 0 {
					last = o.Ret[len(o.Ret)-1]
				}
				if last == "global:Shutdown" {
					if o.Cells["state"].i != stDisconnected || !o.Cells["state"].known {
						okc, detail = false, "the handler returns the clean-shutdown sentinel while the state is still "+stateNames[o.Cells["state"].i]+": the shutdown goroutine sends a second DISCONNECT"
					}
				} else if last == "nil" {
					okc, detail = false, "a plain DISCONNECT does not end the session"
				}
			}
			if okc {
				r.ok("R4", key, c.pos(m.snDisp.Pos()), firstOutcome(outs))
			} else {
				r.bad("R4", key, c.pos(m.snDisp.Pos()), detail)
			}
		}
	}
	c.checkBrokerConnClosed(r, "R5")
	c.checkSnConnContext(r, run)
	// R7: every member of the session's errgroup observes the group context (or a context a waiting member cancels)
	c.checkGroupContexts(r, "R7", "gateway")
	// R8: lock discipline on the session's paths (a self-deadlock in the teardown keeps the session function from
	// returning: the broker connection is never closed)
	c.checkLockDiscipline(r, "R8", c.newLockInfo(), []string{"gateway", "transactions", "util"})
}

// checkSnConnContext: R6 of C13. The shutdown goroutine sends the DISCONNECT
// after the session context was cancelled, through the connection wrapper
// whose Write refuses to write once *its* context is cancelled. So the context
// given to the wrapper of the client's connection (the net.Conn the session
// function received) must not derive from the session function's context
// parameter (which is a parent of the group context): it must be rooted at
// context.Background(), and its cancel function may only be called after the
// last send in the shutdown goroutine, or deferred.
func (c *Ctx) checkSnConnContext(r *Report, run *ssa.Function) {
	var connParam *ssa.Parameter
	for _, p := range run.Params {
		if typeIs(p.Type(), "net", "Conn") {
			connParam = p
		}
	}
	n := 0
	allInstrs(run, func(i ssa.Instruction) {
		call, ok := i.(*ssa.Call)
		if !ok || calleeName(&call.Call) != pkUtil+".NewConnWithContext" || len(call.Call.Args) < 2 {
			return
		}
		if connParam == nil || !flowsTo(connParam, call.Call.Args[1]) {
			return
		}
		n++
		key := fnKey(run) + ":client-connection-context"
		root := c.ctxRoot(call.Call.Args[0], 0)
		if root != "background" {
			r.bad("R6", key, c.instrPos(i), "the context of the client connection's wrapper is rooted at '"+root+"', not at context.Background(): it is cancelled together with (or before) the session context, so the DISCONNECT the shutdown goroutine sends on session end is refused by ConnWithContext.Write and never reaches an active/awake client")
			return
		}
		// the cancel function of that context: every call is in a closure after its last sender call, or deferred
		bad := ""
		skipped := ""
		ctxVal := call.Call.Args[0]
		if u, ok := ctxVal.(*ssa.UnOp); ok && u.Op == token.MUL {
			if a, ok := u.X.(*ssa.Alloc); ok && a.Referrers() != nil {
				for _, rf := range *a.Referrers() {
					if st, ok := rf.(*ssa.Store); ok && st.Addr == ssa.Value(a) {
						ctxVal = st.Val
					}
				}
			}
		}
		if ex, ok := ctxVal.(*ssa.Extract); !ok {
			bad = "cannot find the WithCancel call that created the connection context"
		} else {
			if refs := ex.Tuple.Referrers(); refs != nil {
				for _, rf := range *refs {
					e2, ok := rf.(*ssa.Extract)
					if !ok || e2.Index != 1 {
						continue
					}
					c.cancelUses(e2, run, func(site ssa.Instruction, deferred bool) {
						if deferred {
							return
						}
						f := site.Parent()
						senders := c.snSenders("gateway")
						// no sender call reachable after the cancel call in f
						if found, at := pathExists(f, site, func(j ssa.Instruction) bool {
							ci, ok := j.(ssa.CallInstruction)
							if !ok || j == site {
								return false
							}
							g := staticCallee(ci.Common())
							return g != nil && senders[g]
						}, nil); found {
							bad = "the connection context is cancelled at " + c.instrPos(site) + " before a packet is sent at " + c.instrPos(at)
						}
						if f == run && !deferred {
							bad = "the connection context is cancelled in the session function itself (" + c.instrPos(site) + "), not after the shutdown DISCONNECT"
						}
						// the context is rooted at Background: this call is the only thing that ever ends the read
						// of the client connection, so no path through the goroutine may skip it
						if f != run {
							if skip, at := pathExists(f, nil, func(j ssa.Instruction) bool { _, ok := j.(*ssa.Return); return ok }, func(j ssa.Instruction) bool { return j == site }); skip {
								skipped = "a path through the shutdown goroutine returns (" + c.instrPos(at) + ") without cancelling the connection context (" + c.instrPos(site) + "): that context is rooted at context.Background() and cancelled nowhere else, so the MQTT-SN receive loop keeps reading from the silent client, the errgroup never finishes and the session is never released"
							}
						}
					})
				}
			}
		}
		if bad != "" {
			r.bad("R6", key, c.instrPos(i), bad)
		} else {
			r.ok("R6", key, c.instrPos(i), "rooted at context.Background(); cancelled only after the shutdown goroutine's last send (or deferred)")
		}
		r.cond(skipped == "", "R6", key+":cancelled-on-every-path", c.instrPos(i), "every path through the goroutine that cancels the connection context reaches the cancel", skipped)
	})
	if n == 0 {
		r.undecided("R6", fnKey(run)+":client-connection-context", c.pos(run.Pos()), "no NewConnWithContext call wrapping the session function's net.Conn parameter found")
	}
}

// cancelUses reports every call (or defer) of the function value v, following
// captures into closures of f.
func (c *Ctx) cancelUses(v ssa.Value, f *ssa.Function, fn func(site ssa.Instruction, deferred bool)) {
	var visit func(v ssa.Value, depth int)
	visit = func(v ssa.Value, depth int) {
		if depth > 4 || v.Referrers() == nil {
			return
		}
		for _, rf := range *v.Referrers() {
			switch x := rf.(type) {
			case *ssa.Call:
				if x.Call.Value == v {
					fn(x, false)
				}
			case *ssa.Defer:
				if x.Call.Value == v {
					fn(x, true)
				}
			case *ssa.Go:
				if x.Call.Value == v {
					fn(x, false)
				}
			case *ssa.Store:
				if x.Val == v {
					if a, ok := x.Addr.(*ssa.Alloc); ok && a.Referrers() != nil {
						for _, r2 := range *a.Referrers() {
							switch y := r2.(type) {
							case *ssa.UnOp:
								visit(y, depth+1)
							case *ssa.MakeClosure:
								for bi, b := range y.Bindings {
									if b == ssa.Value(a) {
										fv := y.Fn.(*ssa.Function).FreeVars[bi]
										if fv.Referrers() != nil {
											for _, r3 := range *fv.Referrers() {
												if u, ok := r3.(*ssa.UnOp); ok {
													visit(u, depth+1)
												}
											}
										}
									}
								}
							}
						}
					}
				}
			case *ssa.MakeClosure:
				for bi, b := range x.Bindings {
					if b == v {
						visit(x.Fn.(*ssa.Function).FreeVars[bi], depth+1)
					}
				}
			}
		}
	}
	visit(v, 0)
}

// checkCancellation: R2 of C13 (also used for the client in C28).
func (c *Ctx) checkCancellation(r *Report, rels []string) {
	for _, rel := range rels {
		for _, f := range c.repoFuncs(rel) {
			if rel == "util" && !(f.Signature.Recv() != nil && typeIs(f.Signature.Recv().Type(), pkUtil, "ConnWithContext")) {
				continue
			}
			allInstrs(f, func(i ssa.Instruction) {
				switch x := i.(type) {
				case *ssa.Select:
					r.fn(f)
					key := fmt.Sprintf("%s:select#%d", fnKey(f), selectOrdinal(f, x))
					hasDone := false
					hasCtx := false
					roots := []string{}
					for _, s := range x.States {
						if s.Dir != types.RecvOnly {
							continue
						}
						if c.isContextDone(s.Chan) {
							hasDone = true
							hasCtx = true
							call := s.Chan.(*ssa.Call)
							roots = append(roots, c.ctxRoot(call.Call.Value, 0))
						} else if isDoneChan(s.Chan) {
							hasDone = true
							if c.doneClosedOnCancel(s.Chan) {
								hasCtx = true
								roots = append(roots, "transaction(completes on cancellation)")
							} else {
								roots = append(roots, "transaction")
							}
						}
					}
					if !x.Blocking {
						if hasDone {
							r.okTrivial("R2", key, c.instrPos(i), "non-blocking poll of Done()")
						}
						return
					}
					bg := false
					for _, rt := range roots {
						if strings.Contains(rt, "background") {
							bg = true
						}
					}
					// a session goroutine (closure passed to group.Go) must wait on a context deriving from the session
					switch {
					case !hasDone:
						r.bad("R2", key, c.instrPos(i), "blocking select without a Done() case: the goroutine cannot be cancelled")
					case !hasCtx:
						r.bad("R2", key, c.instrPos(i), "the only Done() case of this blocking select is a transaction's, and cancelling the session context does not complete a transaction (it only stops its timer): the goroutine waits forever when the session ends while the exchange is pending")
					case bg && allRootsBackground(roots):
						r.bad("R2", key, c.instrPos(i), "the only cancellation case of this blocking select is a context derived from context.Background(), not from the session: the goroutine outlives the session until its own timeout ("+strings.Join(roots, ",")+")")
					default:
						r.ok("R2", key, c.instrPos(i), "blocking select with Done() case(s) rooted at "+strings.Join(roots, ","))
					}
				case *ssa.UnOp:
					if x.Op != token.ARROW {
						return
					}
					r.fn(f)
					key := fmt.Sprintf("%s:recv(%s)", fnKey(f), exprStr(x.X))
					if isDoneChan(x.X) && !c.isContextDone(x.X) && !c.doneClosedOnCancel(x.X) {
						r.bad("R2", key, c.instrPos(i), "bare blocking receive on a transaction's Done(): cancelling the session context does not complete a transaction (it only stops its timer), so this wait never ends when the session is terminated while the exchange is pending")
					} else if c.isContextDone(x.X) || isDoneChan(x.X) {
						rt := "transaction"
						if call, ok := x.X.(*ssa.Call); ok && c.isContextDone(x.X) {
							rt = c.ctxRoot(call.Call.Value, 0)
						}
						if strings.Contains(rt, "background") {
							r.bad("R2", key, c.instrPos(i), "blocking receive on a context derived from context.Background()")
						} else {
							r.ok("R2", key, c.instrPos(i), "waits for cancellation itself (root "+rt+")")
						}
					} else {
						r.bad("R2", key, c.instrPos(i), "bare blocking channel receive without cancellation")
					}
				case *ssa.Send:
					r.fn(f)
					r.bad("R2", fmt.Sprintf("%s:send(%s)", fnKey(f), exprStr(x.Chan)), c.instrPos(i), "bare blocking channel send without cancellation")
				}
			})
		}
	}
	// ConnWithContext.Read / Write: every cycle passes the context poll and the deadline
	for _, f := range c.repoFuncs("util") {
		if f.Signature.Recv() == nil || !typeIs(f.Signature.Recv().Type(), pkUtil, "ConnWithContext") || (f.Name() != "Read" && f.Name() != "Write") {
			continue
		}
		r.fn(f)
		key := fnKey(f) + ":retry-loop"
		pollBlocks := map[*ssa.BasicBlock]bool{}
		deadlineBlocks := map[*ssa.BasicBlock]bool{}
		allInstrs(f, func(i ssa.Instruction) {
			if sel, ok := i.(*ssa.Select); ok && !sel.Blocking {
				for _, s := range sel.States {
					if c.isContextDone(s.Chan) {
						pollBlocks[i.Block()] = true
					}
				}
			}
			if ci, ok := i.(ssa.CallInstruction); ok && ci.Common().IsInvoke() && strings.HasPrefix(ci.Common().Method.Name(), "Set") && strings.HasSuffix(ci.Common().Method.Name(), "Deadline") {
				deadlineBlocks[i.Block()] = true
			}
		})
		cyc1 := cycleAvoiding(f, pollBlocks)
		cyc2 := cycleAvoiding(f, deadlineBlocks)
		ioCall := false
		allInstrs(f, func(i ssa.Instruction) {
			if ci, ok := i.(ssa.CallInstruction); ok && ci.Common().IsInvoke() && (ci.Common().Method.Name() == "Read" || ci.Common().Method.Name() == "Write") {
				ioCall = true
			}
		})
		switch {
		case len(pollBlocks) == 0:
			r.bad("R2", key, c.pos(f.Pos()), "the connection wrapper never polls its context")
		case cyc1:
			r.bad("R2", key, c.pos(f.Pos()), "the retry loop has an iteration that does not re-check the context: an I/O that keeps timing out can never be cancelled")
		case cyc2 || len(deadlineBlocks) == 0:
			r.bad("R2", key, c.pos(f.Pos()), "the retry loop has an iteration that does not set a deadline before the I/O attempt")
		case !ioCall:
			r.undecided("R2", key, c.pos(f.Pos()), "no I/O call found")
		default:
			r.ok("R2", key, c.pos(f.Pos()), "every iteration of the retry loop polls ctx.Done() and sets a deadline before the I/O")
		}
	}
}

func allRootsBackground(roots []string) bool {
	for _, rt := range roots {
		if !strings.Contains(rt, "background") {
			return false
		}
	}
	return len(roots) > 0
}

func selectOrdinal(f *ssa.Function, s *ssa.Select) int {
	n := 0
	ord := 0
	allInstrs(f, func(i ssa.Instruction) {
		if x, ok := i.(*ssa.Select); ok {
			n++
			if x == s {
				ord = n
			}
		}
	})
	return ord
}

// cycleAvoiding: the CFG without the given blocks still has a cycle.
func cycleAvoiding(f *ssa.Function, avoid map[*ssa.BasicBlock]bool) bool {
	color := map[*ssa.BasicBlock]int{}
	var dfs func(b *ssa.BasicBlock) bool
	dfs = func(b *ssa.BasicBlock) bool {
		if avoid[b] {
			return false
		}
		color[b] = 1
		for _, s := range b.Succs {
			if avoid[s] {
				continue
			}
			if color[s] == 1 {
				return true
			}
			if color[s] == 0 && dfs(s) {
				return true
			}
		}
		color[b] = 2
		return false
	}
	for _, b := range f.Blocks {
		if color[b] == 0 && dfs(b) {
			return true
		}
	}
	return false
}

// checkReceiveLoops: R3 of C13.
func (c *Ctx) checkReceiveLoops(r *Report, rel string) {
	n := 0
	for _, f := range c.repoFuncs(rel) {
		var reads []*ssa.Call
		allInstrs(f, func(i ssa.Instruction) {
			if call, ok := i.(*ssa.Call); ok {
				nm := calleeName(&call.Call)
				if (nm == pkPackets1+".ReadPacket" || nm == pahoPkts+".ReadPacket") && inCycle(i.Block()) {
					reads = append(reads, call)
				}
			}
		})
		for _, rd := range reads {
			n++
			r.fn(f)
			key := fnKey(f) + ":read-error-ends-loop"
			// the err != nil edge of the read must not lead back to the read
			var errIf *ssa.If
			var errTrue *ssa.BasicBlock
			for _, b := range f.Blocks {
				iff, ok := b.Instrs[len(b.Instrs)-1].(*ssa.If)
				if !ok {
					continue
				}
				for _, g := range normGuard(iff.Cond, true) {
					x, y, op, isCmp := cmpGuard(g)
					if isCmp && isNilConst(y) {
						if ex, ok := x.(*ssa.Extract); ok && ex.Tuple == ssa.Value(rd) && ex.Index == 1 {
							errIf = iff
							if op == token.NEQ {
								errTrue = b.Succs[0]
							} else {
								errTrue = b.Succs[1]
							}
						}
					}
				}
			}
			if errIf == nil {
				r.bad("R3", key, c.instrPos(rd), "the error of ReadPacket is not tested")
				continue
			}
			if reach, _ := pathExists(f, errTrue.Instrs[0], func(x ssa.Instruction) bool { return x == ssa.Instruction(rd) }, nil); reach || errTrue.Instrs[0] == ssa.Instruction(rd) {
				r.bad("R3", key, c.instrPos(rd), "after a failed read the receive loop continues instead of returning (decode errors / closed connections do not end the session)")
			} else {
				// and it returns non-nil except for context.Canceled: a nil result does not cancel the errgroup, the
				// session would stay up with a dead connection
				badNil := ""
				seenB := map[*ssa.BasicBlock]bool{}
				var walk func(b *ssa.BasicBlock)
				walk = func(b *ssa.BasicBlock) {
					if seenB[b] {
						return
					}
					seenB[b] = true
					if ret, ok := b.Instrs[len(b.Instrs)-1].(*ssa.Return); ok && len(ret.Results) > 0 && isNilConst(retVal(ret, len(ret.Results)-1)) {
						cancelled := false
						for _, g := range guardsOf(b) {
							x, y, op, isCmp := cmpGuard(g)
							if !isCmp || op != token.EQL {
								continue
							}
							for _, v := range []ssa.Value{x, y} {
								if u, ok := v.(*ssa.UnOp); ok {
									if gl, ok := u.X.(*ssa.Global); ok && gl.Name() == "Canceled" && gl.Pkg != nil && gl.Pkg.Pkg.Path() == "context" {
										cancelled = true
									}
								}
							}
						}
						if !cancelled {
							badNil = c.instrPos(ret)
						}
					}
					for _, s := range b.Succs {
						walk(s)
					}
				}
				walk(errTrue)
				if badNil != "" {
					r.bad("R3", key, c.instrPos(rd), "after a failed read the receive loop returns nil ("+badNil+") for an error other than context.Canceled: a nil result does not cancel the session's errgroup, so the session stays up with a closed connection and its resources are not released")
				} else {
					r.ok("R3", key, c.instrPos(rd), "every path after a failed read returns, with a non-nil result unless the error is context.Canceled")
				}
			}
			// dispatcher error
			k2 := fnKey(f) + ":dispatch-error-ends-loop"
			var disp *ssa.Call
			allInstrs(f, func(i ssa.Instruction) {
				if call, ok := i.(*ssa.Call); ok && inCycle(i.Block()) {
					if g := staticCallee(&call.Call); g != nil && fnPkgPath(g) == modPath+"/"+rel && call != rd {
						for _, a := range call.Call.Args {
							if ex, ok := a.(*ssa.Extract); ok && ex.Tuple == ssa.Value(rd) && ex.Index == 0 {
								disp = call
							}
						}
					}
				}
			})
			if disp == nil {
				r.undecided("R3", k2, c.instrPos(rd), "no dispatcher call on the packet read")
				continue
			}
			var dTrue *ssa.BasicBlock
			for _, b := range f.Blocks {
				iff, ok := b.Instrs[len(b.Instrs)-1].(*ssa.If)
				if !ok {
					continue
				}
				for _, g := range normGuard(iff.Cond, true) {
					x, y, op, isCmp := cmpGuard(g)
					if isCmp && isNilConst(y) && x == ssa.Value(disp) {
						if op == token.NEQ {
							dTrue = b.Succs[0]
						} else {
							dTrue = b.Succs[1]
						}
					}
				}
			}
			if dTrue == nil {
				r.bad("R3", k2, c.instrPos(disp), "the dispatcher's error is dropped by the receive loop")
				continue
			}
			returnsIt := true
			nRet := 0
			// every return reachable from the error edge (without going round the loop) returns the dispatcher's error
			for _, b := range f.Blocks {
				ret, ok := b.Instrs[len(b.Instrs)-1].(*ssa.Return)
				if !ok {
					continue
				}
				reach, _ := pathExists(f, dTrue.Instrs[0], func(x ssa.Instruction) bool { return x == ssa.Instruction(ret) }, func(x ssa.Instruction) bool { return x == ssa.Instruction(rd) })
				if !reach && b != dTrue {
					continue
				}
				nRet++
				if len(ret.Results) != 1 || !(ret.Results[0] == ssa.Value(disp) || flowsTo(disp, ret.Results[0])) {
					returnsIt = false
				}
			}
			if back, _ := pathExists(f, dTrue.Instrs[0], func(x ssa.Instruction) bool { return x == ssa.Instruction(rd) }, nil); back || nRet == 0 {
				returnsIt = false
			}
			r.cond(returnsIt, "R3", k2, c.instrPos(disp), "the dispatcher's error is returned by the loop", "a dispatcher error does not end the receive loop with that error")
		}
	}
	if n == 0 {
		r.undecided("R3", rel+":receive-loops", "-", "no loop around ReadPacket found")
	}
}

// doneClosedOnCancel: v is the Done() channel of a transaction whose type is
// completed (Done closed) when the context given to its constructor is
// cancelled. Decided from the constructors of package transactions: the
// goroutine they spawn must, on its ctx.Done() case, reach a call that closes
// the done channel (Fail/Success/finish). Today no transaction type does: the
// cancellation case only stops the timer.
func (c *Ctx) doneClosedOnCancel(v ssa.Value) bool {
	// the static type the Done() method is called on
	var recv types.Type
	switch x := v.(type) {
	case *ssa.Call:
		if x.Call.IsInvoke() {
			recv = x.Call.Value.Type()
		} else if len(x.Call.Args) > 0 {
			recv = x.Call.Args[0].Type()
		}
	case *ssa.ChangeType:
		return c.doneClosedOnCancel(x.X)
	}
	if recv == nil {
		return false
	}
	okAny, all := false, true
	for _, f := range c.repoFuncs("transactions") {
		if f.Parent() != nil || f.Signature.Recv() != nil || !strings.HasPrefix(f.Name(), "New") || f.Signature.Results().Len() != 1 {
			continue
		}
		rt := f.Signature.Results().At(0).Type()
		if !(types.Identical(rt, recv) || c.embeds(recv, rt)) {
			continue
		}
		// does a goroutine spawned by the constructor complete the transaction on ctx.Done()?
		completes := false
		for _, cl := range closuresIn(f) {
			allInstrs(cl, func(i ssa.Instruction) {
				sel, ok := i.(*ssa.Select)
				if !ok {
					return
				}
				for idx, st := range sel.States {
					if !c.isContextDone(st.Chan) {
						continue
					}
					// blocks reached when this case was chosen: follow the index comparison
					for _, b := range selectCaseBlocks(sel, idx) {
						seen := map[*ssa.BasicBlock]bool{}
						var walk func(b *ssa.BasicBlock)
						walk = func(b *ssa.BasicBlock) {
							if seen[b] {
								return
							}
							seen[b] = true
							for _, j := range b.Instrs {
								if ci, ok := j.(ssa.CallInstruction); ok {
									n := calleeName(ci.Common())
									if strings.HasSuffix(n, ".Fail") || strings.HasSuffix(n, ".Success") || strings.HasSuffix(n, ".finish") || strings.HasSuffix(n, ".fail") {
										completes = true
									}
								}
							}
							for _, s := range b.Succs {
								walk(s)
							}
						}
						walk(b)
					}
				}
			})
		}
		if completes {
			okAny = true
		} else {
			all = false
		}
	}
	return okAny && all
}

// selectCaseBlocks: the blocks entered when case idx of the select was chosen
// (SSA: index := extract sel #0; if index == idx goto B).
func selectCaseBlocks(sel *ssa.Select, idx int) []*ssa.BasicBlock {
	var out []*ssa.BasicBlock
	refs := sel.Referrers()
	if refs == nil {
		return nil
	}
	for _, rf := range *refs {
		ex, ok := rf.(*ssa.Extract)
		if !ok || ex.Index != 0 || ex.Referrers() == nil {
			continue
		}
		for _, u := range *ex.Referrers() {
			bo, ok := u.(*ssa.BinOp)
			if !ok || bo.Op != token.EQL || bo.Referrers() == nil {
				continue
			}
			k, ok := constInt(bo.Y)
			if !ok || int(k) != idx {
				continue
			}
			for _, w := range *bo.Referrers() {
				if iff, ok := w.(*ssa.If); ok {
					out = append(out, iff.Block().Succs[0])
				}
			}
		}
	}
	return out
}
