package main

import (
	"os"
	"go/types"
	"sort"
	"strings"
)

// Transaction types are unexported and freely renameable; rules and obligation
// keys refer to them by ROLE: the set of packet types their handler methods
// take (a method with exactly one parameter whose type is a pointer to an
// MQTT-SN or MQTT packet struct). Examples today:
//
//	gateway.tx[mqtt.Suback]            subscribeTransaction
//	gateway.tx[Puback,Regack]          brokerPublishQOS1Transaction
//	client.tx[Puback]                  publishQOS1Transaction
//	client.tx[Disconnect,Pingresp]     sleepTransaction
type txInfo struct {
	Type string // "*gateway.subscribeTransaction"
	Role string // "gateway.tx[mqtt.Suback]"
	pkts map[string]bool
}

func (c *Ctx) txInfos(rel string) []txInfo {
	if c.txCache == nil {
		c.txCache = map[string][]txInfo{}
	}
	if v, ok := c.txCache[rel]; ok {
		return v
	}
	var out []txInfo
	p := c.ByPath[modPath+"/"+rel]
	if p == nil {
		return nil
	}
	scope := p.Types.Scope()
	for _, n := range scope.Names() {
		tn, ok := scope.Lookup(n).(*types.TypeName)
		if !ok {
			continue
		}
		if _, isStruct := tn.Type().Underlying().(*types.Struct); !isStruct {
			continue
		}
		// a transaction: embeds (transitively) one of the transactions package's types
		isTx := false
		for _, base := range []string{"TransactionBase", "RetryTransaction", "TimedTransaction"} {
			if obj := c.ByPath[pkTrans].Types.Scope().Lookup(base); obj != nil && c.embeds(tn.Type(), types.NewPointer(obj.Type())) {
				isTx = true
			}
		}
		if !isTx {
			continue
		}
		pk := map[string]bool{}
		received := c.receivedPacketTypes(rel)
		ms := types.NewMethodSet(types.NewPointer(tn.Type()))
		for i := 0; i < ms.Len(); i++ {
			fn, ok := ms.At(i).Obj().(*types.Func)
			if !ok {
				continue
			}
			sig := fn.Type().(*types.Signature)
			if sig.Params().Len() != 1 {
				continue
			}
			pt, ok := sig.Params().At(0).Type().(*types.Pointer)
			if !ok {
				continue
			}
			nm := namedOf(pt.Elem())
			if nm == nil || nm.Obj().Pkg() == nil {
				continue
			}
			// only packets this package RECEIVES make a handler (a helper method that takes the transaction's own
			// request packet, e.g. the stored UNSUBSCRIBE, is not one)
			switch nm.Obj().Pkg().Path() {
			case pkPackets1:
				if received == nil || received["*packets1."+nm.Obj().Name()] {
					pk[nm.Obj().Name()] = true
				}
			case pahoPkts:
				if received == nil || received["*mqtt."+nm.Obj().Name()] {
					pk["mqtt."+strings.TrimSuffix(nm.Obj().Name(), "Packet")] = true
				}
			}
		}
		names := sortedKeys(pk)
		out = append(out, txInfo{Type: "*" + rel + "." + tn.Name(), Role: rel + ".tx[" + strings.Join(names, ",") + "]", pkts: pk})
	}
	sort.Slice(out, func(i, j int) bool { return out[i].Type < out[j].Type })
	c.txCache[rel] = out
	return out
}

// txType: the transaction type of package rel whose handler methods take exactly
// the given packet types (e.g. "Puback" or "mqtt.Suback"); "" when not unique.
func (c *Ctx) txType(rel string, pkts ...string) string {
	want := map[string]bool{}
	for _, p := range pkts {
		want[p] = true
	}
	found := ""
	for _, ti := range c.txInfos(rel) {
		if len(ti.pkts) != len(want) {
			continue
		}
		same := true
		for p := range want {
			if !ti.pkts[p] {
				same = false
			}
		}
		if same {
			if found != "" {
				return "?ambiguous transaction role " + strings.Join(pkts, ",")
			}
			found = ti.Type
		}
	}
	if found == "" {
		return "?no transaction with role " + strings.Join(pkts, ",")
	}
	return found
}

// txRoleOf: role name for a type string ("*gateway.subscribeTransaction" or "gateway.subscribeTransaction").
func (c *Ctx) txRoleOf(typ string) string {
	t := strings.TrimPrefix(typ, "*")
	i := strings.Index(t, ".")
	if i < 0 {
		return typ
	}
	for _, ti := range c.txInfos(t[:i]) {
		if strings.TrimPrefix(ti.Type, "*") == t {
			return ti.Role
		}
	}
	return typ
}

func init() {
	if os.Getenv("BISQ_DEBUG") == "" {
		return
	}
	register("TXROLES", func(r *Report) {}, func(c *Ctx, r *Report) {
		for _, rel := range []string{"gateway", "client"} {
			for _, ti := range c.txInfos(rel) {
				r.okTrivial("R0", ti.Role, "-", ti.Type)
			}
		}
	})
}

// txHaving: the unique transaction type of package rel whose handler methods
// include all of `has` and none of `not`.
func (c *Ctx) txHaving(rel string, has []string, not ...string) string {
	found := ""
	for _, ti := range c.txInfos(rel) {
		ok := true
		for _, h := range has {
			if !ti.pkts[h] {
				ok = false
			}
		}
		for _, n := range not {
			if ti.pkts[n] {
				ok = false
			}
		}
		if !ok {
			continue
		}
		if found != "" {
			return "?ambiguous transaction role " + strings.Join(has, ",")
		}
		found = ti.Type
	}
	if found == "" {
		return "?no transaction with role " + strings.Join(has, ",")
	}
	return found
}

func (c *Ctx) gwConnectTx() string   { return c.txHaving("gateway", []string{"mqtt.Connack"}) }
func (c *Ctx) gwSubscribeTx() string { return c.txHaving("gateway", []string{"mqtt.Suback"}) }
func (c *Ctx) gwBrokerPub0Tx() string {
	return c.txHaving("gateway", []string{"Regack"}, "Puback", "Pubrec")
}
func (c *Ctx) gwBrokerPub1Tx() string { return c.txHaving("gateway", []string{"Puback"}) }
func (c *Ctx) gwBrokerPub2Tx() string { return c.txHaving("gateway", []string{"Pubrec"}) }
func (c *Ctx) clPub1Tx() string       { return c.txHaving("client", []string{"Puback"}) }
func (c *Ctx) clPub2Tx() string       { return c.txHaving("client", []string{"Pubrec", "Pubcomp"}) }
func (c *Ctx) clBrokerPub2Tx() string { return c.txHaving("client", []string{"Pubrel"}) }
func (c *Ctx) clSubscribeTx() string  { return c.txHaving("client", []string{"Suback"}) }

// receivedPacketTypes: the packet types the dispatchers of package rel have a case for.
func (c *Ctx) receivedPacketTypes(rel string) map[string]bool {
	if c.recvCache == nil {
		c.recvCache = map[string]map[string]bool{}
	}
	if v, ok := c.recvCache[rel]; ok {
		return v
	}
	out := map[string]bool{}
	_, sn := c.dispatcherOf(rel, pkPackets, "Packet")
	for _, t := range sn {
		out[t] = true
	}
	_, mq := c.dispatcherOf(rel, pahoPkts, "ControlPacket")
	for _, t := range mq {
		out[t] = true
	}
	if len(out) == 0 {
		out = nil
	}
	c.recvCache[rel] = out
	return out
}
