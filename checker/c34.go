package main

import (
	"fmt"
	"sort"
	"strings"

	"golang.org/x/tools/go/ssa"
)

// C34 Sessions of vanished clients are reaped.
//
// The statement is a wall-clock bound under an assumption about the broker
// (it enforces MQTT keep-alive and drops connections that never CONNECT). No
// static argument bounds the time. What the shape of the code does decide is
// the structural part the bound rests on: when the client falls silent, the
// broker must fall silent too - then the assumed broker closes the connection
// and the session ends. That is a who-may-send rule:
//
//	R1  every send to the broker is CAUSED: its call site is reachable only from
//	    the MQTT-SN receive loop (a client packet), from the MQTT receive loop
//	    (a broker packet), from a retry callback of a RetryTransaction (bounded
//	    by the retry budget, C19), or from the sleep pinger. No ticker, timer
//	    callback or other goroutine of the gateway talks to the broker on its
//	    own, which would keep a dead client's session alive for ever.
//	R2  the sleep pinger is bounded: started only by a DISCONNECT(duration),
//	    stopped by its own stop function after exactly the announced duration,
//	    leaves on its context (C12's rules for the timer and the pinger body).
//	R3  the broker is told the client's keep-alive and a zero keep-alive is
//	    refused (C09's rules for Keepalive / zero-keepalive).
//	R4  the broker closing the connection ends the session, and the session
//	    closes the broker connection (C13-R3, C10-R4); the connect exchange has
//	    its timer and a CONNECT never leaves the handler without one (C10).
//
// Not decided: every numeric bound of the statement.
func init() {
	register("C34", func(r *Report) {
		r.Explanation = "Structural necessary conditions of the reaping bound (the bound itself - connect timeout, 1.5x keep-alive, sleep duration + 1.5x keep-alive - is a property of timed histories under an assumption about the broker and is NOT decided): (R1) every call site that hands a packet to the MQTT sender is reachable only from the MQTT-SN receive loop (caused by a client packet), the MQTT receive loop (caused by a broker packet), a RetryTransaction retry callback (bounded by the retry budget) or the sleep pinger: the gateway never talks to the broker on its own, so a silent client means a silent broker connection, which the assumed broker then drops; (R2) the sleep pinger is bounded: armed by DISCONNECT(duration) only, stopped by its own stop function after exactly the announced duration, leaves on its context (C12's timer and pinger-body rules, re-run here); (R3) the MQTT CONNECT carries the client's keep-alive and a zero keep-alive is refused without starting an exchange (C09-R2/R3, re-run here); (R4) a read error or EOF on the broker connection ends the session, the session end always cancels the read of the client connection (C13-R6), the broker connection is closed on every exit, and the connect exchange is reaped by its timer on every path (C13-R3, C10, re-run here)."
		r.floor("R1", 5)
		r.floor("R2", 2)
		r.floor("R3", 3)
		r.floor("R4", 6)
	}, checkC34)
}

func importRulesF(c *Ctx, r *Report, prop string, mapping map[string]string, keep func(rule, key string) bool) {
	pc, ok := registry[prop]
	if !ok {
		r.undecided("R0", "import:"+prop, "-", "shared rule set "+prop+" not available")
		return
	}
	tmp := c.runCached(pc, r.configActive)
	for _, o := range tmp.Obls {
		short := strings.TrimPrefix(o.Rule, prop+"-")
		nr, ok := mapping[short]
		if !ok || (keep != nil && !keep(short, o.Key)) {
			continue
		}
		o2 := *o
		o2.Rule = r.Prop + "-" + nr
		o2.Key = prop + "/" + short + ":" + o.Key
		r.Obls = append(r.Obls, &o2)
	}
	for f := range tmp.Funcs {
		r.Funcs[f] = true
	}
}

func checkC34(c *Ctx, r *Report) {
	m, err := c.newGwModel()
	if err != nil {
		r.undecided("R0", "gateway-model", "-", err.Error())
		return
	}
	// R1
	for _, s := range c.sendSites("gateway", m.mqSenders) {
		r.fn(s.Fn)
		r.CallSites++
		roots := c.rootsOf(s.Fn)
		var names []string
		bad := ""
		for _, rt := range roots {
			names = append(names, rt)
			switch {
			case strings.HasPrefix(rt, "sn-receive-loop"), strings.HasPrefix(rt, "mqtt-receive-loop"), strings.HasPrefix(rt, "retry-callback"), strings.HasPrefix(rt, "sleep-pinger"):
			default:
				bad = rt
			}
		}
		sort.Strings(names)
		key := fnKey(s.Fn) + ":mqtt-send(" + strings.Join(c.concreteTypesOf(s.Arg), "|") + ")"
		if len(roots) == 0 {
			r.undecided("R1", key, c.instrPos(s.Call), "cannot find what executes this send to the broker")
		} else if bad != "" {
			r.bad("R1", key, c.instrPos(s.Call), "this send to the broker can be executed by "+bad+", i.e. not in reaction to a packet from the client or the broker (and not by a budget-bounded retransmission or the duration-bounded sleep pinger): the gateway keeps the broker connection of a vanished client alive on its own, so the broker's keep-alive never expires and the session is never reaped")
		} else {
			r.ok("R1", key, c.instrPos(s.Call), "executed only by: "+strings.Join(names, ", "))
		}
	}
	// R2: bounded pinger
	importRulesF(c, r, "C12", map[string]string{"R2": "R2", "R3": "R2"}, func(rule, key string) bool {
		return strings.Contains(key, "sleep-timer") || strings.Contains(key, ":pinger")
	})
	// R3
	importRulesF(c, r, "C09", map[string]string{"R2": "R3", "R3": "R3"}, func(rule, key string) bool {
		return strings.Contains(key, "Keepalive") || strings.Contains(key, "zero-keepalive")
	})
	// R4
	importRulesF(c, r, "C13", map[string]string{"R3": "R4", "R6": "R4"}, nil)
	importRulesF(c, r, "C10", map[string]string{"R1": "R4", "R2": "R4", "R3": "R4", "R4": "R4", "R5": "R4"}, nil)
}

// rootsOf: the kinds of goroutine roots / callbacks from which f is reachable
// through static calls and closures inside package gateway.
func (c *Ctx) rootsOf(f *ssa.Function) []string {
	roots := map[string]bool{}
	seen := map[*ssa.Function]bool{}
	funcs := c.repoFuncs("gateway")
	var up func(f *ssa.Function, d int)
	classifyUse := func(user ssa.Instruction, fn *ssa.Function) (root string, viaCaller *ssa.Function) {
		switch x := user.(type) {
		case *ssa.Go:
			return c.goroutineKind(fn), nil
		case *ssa.Defer:
			return "", x.Parent()
		case *ssa.Call:
			n := calleeName(&x.Call)
			switch n {
			case "(*golang.org/x/sync/errgroup.Group).Go":
				return c.goroutineKind(fn), nil
			case "time.AfterFunc":
				return "timer-callback(" + fnKey(fn) + ")", nil
			case pkTrans + ".NewRetryTransaction":
				// retry callback (4th) or finally (5th)?
				for k, a := range x.Call.Args {
					for {
						if ct, ok := a.(*ssa.ChangeType); ok {
							a = ct.X
							continue
						}
						break
					}
					if mc, ok := a.(*ssa.MakeClosure); ok && (mc.Fn == ssa.Value(fn) || boundTarget(mc) == fn) {
						if k == 3 {
							return "retry-callback(" + fnKey(fn) + ")", nil
						}
						return "completion-callback(" + fnKey(fn) + ")", nil
					}
				}
				return "callback(" + fnKey(fn) + ")", nil
			case pkTrans + ".NewTimedTransaction", pkTrans + ".NewTransactionBase":
				return "completion-callback(" + fnKey(fn) + ")", nil
			}
			if x.Call.Value == nil {
				return "", nil
			}
			// called directly as a function value
			return "", x.Parent()
		}
		return "stored-function-value(" + fnKey(fn) + ")", nil
	}
	up = func(f *ssa.Function, d int) {
		if seen[f] || d > 12 {
			return
		}
		seen[f] = true
		found := false
		// static callers
		for _, g := range funcs {
			allInstrs(g, func(i ssa.Instruction) {
				ci, ok := i.(ssa.CallInstruction)
				if !ok {
					return
				}
				if staticCallee(ci.Common()) == f {
					found = true
					if _, isGo := i.(*ssa.Go); isGo {
						roots[c.goroutineKind(f)] = true
						return
					}
					up(g, d+1)
				}
			})
		}
		// closures and bound methods: how is the function value used?
		for _, g := range funcs {
			allInstrs(g, func(i ssa.Instruction) {
				mc, ok := i.(*ssa.MakeClosure)
				if !ok || !(mc.Fn == ssa.Value(f) || boundTarget(mc) == f) {
					return
				}
				found = true
				if mc.Referrers() == nil {
					return
				}
				var users []ssa.Instruction
				var collect func(v ssa.Value, d int)
				collect = func(v ssa.Value, d int) {
					if v.Referrers() == nil || d > 3 {
						return
					}
					for _, u := range *v.Referrers() {
						switch x := u.(type) {
						case *ssa.ChangeType:
							collect(x, d+1)
						case *ssa.MakeInterface:
							collect(x, d+1)
						default:
							users = append(users, u)
						}
					}
				}
				collect(mc, 0)
				for _, u := range users {
					root, via := classifyUse(u, f)
					if root != "" {
						roots[root] = true
					}
					if via != nil {
						up(via, d+1)
					}
				}
			})
		}
		if !found {
			// the gateway's entry points (exported API called by the command line tool) are not roots of packet handling
			roots["entry-point("+fnKey(f)+")"] = true
		}
	}
	up(f, 0)
	return sortedKeys(roots)
}

// boundTarget: for a closure made of a bound-method wrapper, the method it wraps.
func boundTarget(mc *ssa.MakeClosure) *ssa.Function {
	w, ok := mc.Fn.(*ssa.Function)
	if !ok || !strings.HasPrefix(w.Synthetic, "bound method wrapper") {
		return nil
	}
	target := w
	for d := 0; d < 4 && target != nil && target.Synthetic != ""; d++ {
		var next *ssa.Function
		allInstrs(target, func(i ssa.Instruction) {
			if ci, ok := i.(ssa.CallInstruction); ok {
				if g := staticCallee(ci.Common()); g != nil {
					next = g
				}
			}
		})
		target = next
	}
	return target
}

// goroutineKind classifies the body of a goroutine of package gateway.
func (c *Ctx) goroutineKind(f *ssa.Function) string {
	kind := ""
	seen := map[*ssa.Function]bool{}
	var scan func(g *ssa.Function, d int)
	scan = func(g *ssa.Function, d int) {
		if seen[g] || d > 3 || g.Blocks == nil {
			return
		}
		seen[g] = true
		allInstrs(g, func(i ssa.Instruction) {
			ci, ok := i.(ssa.CallInstruction)
			if !ok {
				return
			}
			switch calleeName(ci.Common()) {
			case pkPackets1 + ".ReadPacket":
				kind = "sn-receive-loop"
			case pahoPkts + ".ReadPacket":
				kind = "mqtt-receive-loop"
			case "time.After":
				if kind == "" && inCycle(i.Block()) {
					kind = "sleep-pinger"
				}
			case "time.NewTicker", "time.Tick", "time.NewTimer":
				if kind == "" {
					kind = "ticker-goroutine"
				}
			}
			if h := staticCallee(ci.Common()); h != nil && fnPkgPath(h) == pkGateway && d < 2 {
				scan(h, d+1)
			}
		})
	}
	scan(f, 0)
	if kind == "" {
		kind = "goroutine"
	}
	return fmt.Sprintf("%s(%s)", kind, fnKey(f))
}
