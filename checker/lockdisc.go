package main

import (
	"fmt"
	"go/token"
	"sort"
	"strings"

	"golang.org/x/tools/go/ssa"
)

// Lock discipline (shared by C28-R7, C17-R7, C18-R5): schedule independent
// causes of a call that never returns.
//
//	(a) no wait under a lock: a blocking select, a bare channel receive/send,
//	    a WaitGroup/errgroup Wait, or a static call of a repository function
//	    that may do one of these, executed while a mutex is certainly held.
//	    The receive loop needs the same lock to process the very packet the
//	    waiter waits for (or a packet queued in front of it).
//	(b) no re-acquisition: a static call, made while lock L is certainly held,
//	    of a function that (transitively, through static calls) acquires L.
//	    sync.Mutex and sync.RWMutex are not reentrant: the goroutine deadlocks
//	    on itself (read-after-read is tolerated).
func (c *Ctx) checkLockDiscipline(r *Report, rule string, li *lockInfo, rels []string) {
	inScope := func(f *ssa.Function) bool {
		p := fnPkgPath(f)
		for _, rel := range rels {
			if p == modPath+"/"+rel {
				return true
			}
		}
		return false
	}
	funcs := c.allRepoFuncs()
	isBlockingOp := func(i ssa.Instruction) string {
		switch x := i.(type) {
		case *ssa.Select:
			if x.Blocking {
				return "blocking select"
			}
		case *ssa.UnOp:
			if x.Op == token.ARROW {
				return "channel receive"
			}
		case *ssa.Send:
			return "channel send"
		case ssa.CallInstruction:
			if _, isGo := i.(*ssa.Go); isGo {
				return ""
			}
			if _, isDefer := i.(*ssa.Defer); isDefer {
				return ""
			}
			switch calleeName(x.Common()) {
			case "(*sync.WaitGroup).Wait", "(*golang.org/x/sync/errgroup.Group).Wait":
				return "Wait()"
			}
		}
		return ""
	}
	// mayBlock / acquires summaries (static calls, not through go/defer of closures)
	mayBlock := map[*ssa.Function]string{}
	acquires := map[*ssa.Function]map[string]bool{}
	for _, f := range funcs {
		acquires[f] = map[string]bool{}
		allInstrs(f, func(i ssa.Instruction) {
			if w := isBlockingOp(i); w != "" && mayBlock[f] == "" {
				mayBlock[f] = w + " at " + c.instrPos(i)
			}
			if ci, ok := i.(ssa.CallInstruction); ok {
				if _, isGo := i.(*ssa.Go); isGo {
					return
				}
				if name, op, write := lockOp(ci.Common()); op > 0 {
					if write {
						acquires[f][name] = true
					} else {
						acquires[f][name+"(R)"] = true
					}
				}
			}
		})
	}
	// Completion runs user code: Fail/Success -> finish -> the transaction's finally callback, and every finally
	// callback in this repository deletes the transaction from its store (taking the store's lock). A dynamic call of
	// a transactions.FinallyCallback value may therefore acquire whatever any closure passed as such a callback
	// acquires; an interface call of Fail/Success on a transactions interface may do what any implementation does.
	isFinallyType := func(v ssa.Value) bool { return typeIs(v.Type(), pkTrans, "FinallyCallback") }
	var finallyClosures []*ssa.Function
	for _, f := range funcs {
		allInstrs(f, func(i ssa.Instruction) {
			ci, ok := i.(ssa.CallInstruction)
			if !ok {
				return
			}
			for _, a := range ci.Common().Args {
				v := a
				for {
					if ct, ok := v.(*ssa.ChangeType); ok {
						v = ct.X
						continue
					}
					break
				}
				if !isFinallyType(a) {
					continue
				}
				if mc, ok := v.(*ssa.MakeClosure); ok {
					if cl, ok := mc.Fn.(*ssa.Function); ok {
						finallyClosures = append(finallyClosures, cl)
					}
				}
			}
		})
	}
	completionImpls := func(name string) []*ssa.Function {
		var out []*ssa.Function
		for _, f := range funcs {
			if f.Name() == name && f.Signature.Recv() != nil && fnPkgPath(f) == pkTrans {
				out = append(out, f)
			}
		}
		return out
	}
	dynTargets := func(ci ssa.CallInstruction) []*ssa.Function {
		cc := ci.Common()
		if cc.IsInvoke() {
			if (cc.Method.Name() == "Fail" || cc.Method.Name() == "Success") && cc.Method.Pkg() != nil && cc.Method.Pkg().Path() == pkTrans {
				return completionImpls(cc.Method.Name())
			}
			return nil
		}
		if staticCallee(cc) == nil && isFinallyType(cc.Value) {
			return finallyClosures
		}
		return nil
	}
	for changed, n := true, 0; changed && n < 30; n++ {
		changed = false
		for _, f := range funcs {
			allInstrs(f, func(i ssa.Instruction) {
				ci, ok := i.(ssa.CallInstruction)
				if !ok {
					return
				}
				if _, isGo := i.(*ssa.Go); isGo {
					return
				}
				for _, t := range dynTargets(ci) {
					for k := range acquires[t] {
						if !acquires[f][k] {
							acquires[f][k] = true
							changed = true
						}
					}
				}
				g := staticCallee(ci.Common())
				if g == nil || acquires[g] == nil {
					return
				}
				if _, isDefer := i.(*ssa.Defer); !isDefer {
					if mayBlock[g] != "" && mayBlock[f] == "" {
						mayBlock[f] = "calls " + fnKey(g) + " (" + mayBlock[g] + ")"
						changed = true
					}
				}
				for k := range acquires[g] {
					if !acquires[f][k] {
						acquires[f][k] = true
						changed = true
					}
				}
			})
		}
	}
	nWait, nLock := 0, 0
	for _, f := range funcs {
		if !inScope(f) {
			continue
		}
		allInstrs(f, func(i ssa.Instruction) {
			held := li.HeldAt(i)
			if len(held) == 0 {
				return
			}
			var hs []string
			for k := range held {
				hs = append(hs, k)
			}
			sort.Strings(hs)
			if w := isBlockingOp(i); w != "" {
				nWait++
				r.fn(f)
				r.bad(rule, fmt.Sprintf("%s:wait-under-lock(%s)", fnKey(f), strings.Join(hs, ",")), c.instrPos(i),
					"a "+w+" is executed while "+strings.Join(hs, ", ")+" is held: whoever must take that lock to make the awaited event happen (the receive loop processing a packet) blocks behind the waiter")
				return
			}
			ci, ok := i.(ssa.CallInstruction)
			if !ok {
				return
			}
			if _, isGo := i.(*ssa.Go); isGo {
				return
			}
			if _, isDefer := i.(*ssa.Defer); isDefer {
				return
			}
			g := staticCallee(ci.Common())
			if g == nil {
				// completion through an interface / the finally callback itself
				for _, t := range dynTargets(ci) {
					for k := range acquires[t] {
						base := strings.TrimSuffix(k, "(R)")
						if held[base] || (held[base+"(R)"] && !strings.HasSuffix(k, "(R)")) {
							nLock++
							r.fn(f)
							r.bad(rule, fmt.Sprintf("%s:reacquires(%s)->completion", fnKey(f), base), c.instrPos(i),
								"a transaction is completed (Fail/Success, which runs its finally callback) while "+base+" is held, and the finally callbacks of this repository take that very lock to delete the transaction from its store: the goroutine deadlocks on itself and everything that needs the store hangs")
							return
						}
					}
				}
				return
			}
			if acquires[g] == nil {
				return
			}
			if mayBlock[g] != "" {
				nWait++
				r.fn(f)
				r.bad(rule, fmt.Sprintf("%s:wait-under-lock(%s)->%s", fnKey(f), strings.Join(hs, ","), fnKey(g)), c.instrPos(i),
					fnKey(g)+" may block ("+mayBlock[g]+") and is called while "+strings.Join(hs, ", ")+" is held: the receive loop needs that lock to process the packets queued in front of the awaited acknowledgement, so the acknowledgement is never seen in time")
				return
			}
			for k := range acquires[g] {
				base := strings.TrimSuffix(k, "(R)")
				reacq := ""
				switch {
				case held[base]:
					reacq = base // exclusive held, any acquisition
				case held[base+"(R)"] && !strings.HasSuffix(k, "(R)"):
					reacq = base // read held, exclusive wanted
				}
				if reacq != "" {
					nLock++
					r.fn(f)
					r.bad(rule, fmt.Sprintf("%s:reacquires(%s)->%s", fnKey(f), reacq, fnKey(g)), c.instrPos(i),
						fnKey(g)+" acquires "+reacq+", which the caller already holds here (Go mutexes are not reentrant): the goroutine deadlocks on itself, the transaction never completes and every waiter hangs")
				}
			}
		})
	}
	if nWait == 0 {
		r.ok(rule, "no-wait-under-lock", "-", "no blocking select / receive / send / Wait, and no call of a function that may block, while a mutex is certainly held ("+strings.Join(rels, ", ")+")")
	}
	if nLock == 0 {
		r.ok(rule, "no-lock-reacquisition", "-", "no static call made under a lock reaches a function that acquires the same lock ("+strings.Join(rels, ", ")+")")
	}
}
