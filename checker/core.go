package main

import (
	"encoding/json"
	"fmt"
	"go/token"
	"go/types"
	"os"
	"path/filepath"
	"sort"
	"strings"
	"time"

	"golang.org/x/tools/go/callgraph"
	"golang.org/x/tools/go/callgraph/cha"
	"golang.org/x/tools/go/callgraph/vta"
	"golang.org/x/tools/go/packages"
	"golang.org/x/tools/go/ssa"
	"golang.org/x/tools/go/ssa/ssautil"
)

const modPath = "github.com/energomonitor/bisquitt"
const pahoPkts = "github.com/eclipse/paho.mqtt.golang/packets"

// Ctx is one loaded configuration of /repo.
type Ctx struct {
	Repo     string
	Tier     string
	GOOS     string
	GOARCH   string
	Pkgs     []*packages.Package
	ByPath   map[string]*packages.Package
	Prog     *ssa.Program
	SSA      map[string]*ssa.Package
	Fset     *token.FileSet
	AllFuncs map[*ssa.Function]bool
	cg       *callgraph.Graph
	cgVTA    bool
	domCache map[*ssa.Function]*domInfo
	summ     map[string]map[*ssa.Function]bool
	imports  map[string]*Report
	decodeSet map[*ssa.Function]bool
	txCache   map[string][]txInfo
	recvCache map[string]map[string]bool
}

// runCached runs a property's rule set once per loaded configuration; shared
// rules (importRules, importCodec) read the cached obligations.
func (c *Ctx) runCached(pc *propCheck, config string) *Report {
	if c.imports == nil {
		c.imports = map[string]*Report{}
	}
	if t, ok := c.imports[pc.id]; ok {
		return t
	}
	tmp := newReport(pc.id)
	tmp.configActive = config
	c.imports[pc.id] = tmp // (set first: a cyclic import sees the partial report instead of recursing)
	pc.run(c, tmp)
	if pc.post != nil {
		// rules decided after the per-configuration pass (C20's compiler listing): for this configuration only
		pc.post([]*Ctx{c}, tmp, "quick")
		tmp.configActive = config
	}
	return tmp
}

func loadRepo(repo, tier, goos, goarch string) (*Ctx, error) {
	env := os.Environ()
	out := env[:0]
	for _, e := range env {
		if strings.HasPrefix(e, "GOFLAGS=") || strings.HasPrefix(e, "GOWORK=") ||
			strings.HasPrefix(e, "GOOS=") || strings.HasPrefix(e, "GOARCH=") {
			continue
		}
		out = append(out, e)
	}
	out = append(out, "GOFLAGS=-mod=readonly", "GOWORK=off", "GOPROXY=off", "GOSUMDB=off", "GOTOOLCHAIN=local")
	if goos != "" {
		out = append(out, "GOOS="+goos)
	}
	if goarch != "" {
		out = append(out, "GOARCH="+goarch)
	}
	cfg := &packages.Config{
		Mode:  packages.LoadAllSyntax,
		Dir:   repo,
		Env:   out,
		Tests: false,
	}
	pkgs, err := packages.Load(cfg, "./...")
	if err != nil {
		return nil, fmt.Errorf("packages.Load: %v", err)
	}
	var errs []string
	n := 0
	packages.Visit(pkgs, nil, func(p *packages.Package) {
		if strings.HasPrefix(p.PkgPath, modPath) {
			for _, e := range p.Errors {
				errs = append(errs, e.Error())
			}
		}
	})
	for _, p := range pkgs {
		if strings.HasPrefix(p.PkgPath, modPath) {
			n++
		}
	}
	if len(errs) > 0 {
		return nil, fmt.Errorf("type/load errors in %s: %s", repo, strings.Join(errs, "; "))
	}
	if n < 13 {
		return nil, fmt.Errorf("expected >= 13 packages of %s, loaded %d", modPath, n)
	}
	prog, _ := ssautil.AllPackages(pkgs, ssa.InstantiateGenerics)
	prog.Build()
	c := &Ctx{Repo: repo, Tier: tier, GOOS: goos, GOARCH: goarch, Pkgs: pkgs, Prog: prog,
		ByPath: map[string]*packages.Package{}, SSA: map[string]*ssa.Package{},
		Fset: prog.Fset, domCache: map[*ssa.Function]*domInfo{}, summ: map[string]map[*ssa.Function]bool{}}
	packages.Visit(pkgs, nil, func(p *packages.Package) {
		c.ByPath[p.PkgPath] = p
	})
	for _, sp := range prog.AllPackages() {
		c.SSA[sp.Pkg.Path()] = sp
	}
	c.AllFuncs = ssautil.AllFunctions(prog)
	c.fillCanonicalFieldNames()
	return c, nil
}

// CG returns the whole-program call graph (CHA in quick, VTA in thorough).
func (c *Ctx) CG() *callgraph.Graph {
	if c.cg != nil {
		return c.cg
	}
	g := cha.CallGraph(c.Prog)
	if c.Tier == "thorough" {
		g = vta.CallGraph(c.AllFuncs, g)
		c.cgVTA = true
	}
	c.cg = g
	return g
}

func (c *Ctx) pkg(rel string) *ssa.Package {
	p := modPath
	if rel != "" {
		p = modPath + "/" + rel
	}
	return c.SSA[p]
}

// repoFuncs returns all functions (incl. closures and methods) whose source is in
// the given repo-relative package, sorted by position.
func (c *Ctx) repoFuncs(rel string) []*ssa.Function {
	var out []*ssa.Function
	want := modPath
	if rel != "" {
		want = modPath + "/" + rel
	}
	for f := range c.AllFuncs {
		if f.Blocks == nil || f.Synthetic != "" {
			continue
		}
		if fnPkgPath(f) == want {
			out = append(out, f)
		}
	}
	sort.Slice(out, func(i, j int) bool { return out[i].Pos() < out[j].Pos() })
	return out
}

func (c *Ctx) allRepoFuncs() []*ssa.Function {
	var out []*ssa.Function
	for f := range c.AllFuncs {
		if f.Blocks == nil || f.Synthetic != "" {
			continue
		}
		if strings.HasPrefix(fnPkgPath(f), modPath) {
			out = append(out, f)
		}
	}
	sort.Slice(out, func(i, j int) bool { return out[i].Pos() < out[j].Pos() })
	return out
}

func fnPkgPath(f *ssa.Function) string {
	for f.Parent() != nil {
		f = f.Parent()
	}
	if f.Pkg != nil {
		return f.Pkg.Pkg.Path()
	}
	if f.Object() != nil && f.Object().Pkg() != nil {
		return f.Object().Pkg().Path()
	}
	return ""
}

// fnKey is a stable, line-independent name of a function: package-relative,
// closures are named after their enclosing function plus an ordinal.
func fnKey(f *ssa.Function) string {
	if f == nil {
		return "<nil>"
	}
	s := f.String()
	s = strings.ReplaceAll(s, modPath+"/", "")
	s = strings.ReplaceAll(s, modPath, "")
	s = strings.ReplaceAll(s, pahoPkts, "mqtt")
	return s
}

func (c *Ctx) pos(p token.Pos) string {
	if !p.IsValid() {
		return "-"
	}
	ps := c.Fset.Position(p)
	rel, err := filepath.Rel(c.Repo, ps.Filename)
	if err != nil || strings.HasPrefix(rel, "..") {
		rel = ps.Filename
	}
	return fmt.Sprintf("%s:%d", rel, ps.Line)
}

func (c *Ctx) instrPos(i ssa.Instruction) string {
	p := i.Pos()
	if !p.IsValid() {
		// fall back to the closest positioned instruction in the block
		if b := i.Block(); b != nil {
			for _, j := range b.Instrs {
				if j.Pos().IsValid() {
					p = j.Pos()
					if j == i {
						break
					}
				}
			}
		}
		if !p.IsValid() && i.Parent() != nil {
			p = i.Parent().Pos()
		}
	}
	return c.pos(p)
}

// ---------------------------------------------------------------------------
// Obligations, report, evidence.

type Obligation struct {
	Rule       string `json:"rule"`
	Key        string `json:"construct"`
	Status     string `json:"status"` // discharged | violation | undecided | assumed
	Pos        string `json:"pos"`
	Detail     string `json:"detail"`
	NonTrivial bool   `json:"nontrivial"`
	Known      bool   `json:"known_finding,omitempty"`
	Config     string `json:"config,omitempty"`
}

type Report struct {
	Prop         string
	Obls         []*Obligation
	Funcs        map[string]bool
	CallSites    int
	Assumptions  []string
	Explanation  string
	TrustedBase  []string
	Floors       map[string]int // rule -> minimal number of instances
	Level        string
	Notes        []string
	configActive string
}

func newReport(prop string) *Report {
	return &Report{Prop: prop, Funcs: map[string]bool{}, Floors: map[string]int{}, Level: "other"}
}

func (r *Report) add(rule, key, status, pos, detail string, nontrivial bool) *Obligation {
	o := &Obligation{Rule: r.Prop + "-" + rule, Key: key, Status: status, Pos: pos, Detail: detail, NonTrivial: nontrivial, Config: r.configActive}
	r.Obls = append(r.Obls, o)
	return o
}
func (r *Report) ok(rule, key, pos, detail string) {
	r.add(rule, key, "discharged", pos, detail, true)
}
func (r *Report) okTrivial(rule, key, pos, detail string) {
	r.add(rule, key, "discharged", pos, detail, false)
}
func (r *Report) bad(rule, key, pos, detail string) {
	r.add(rule, key, "violation", pos, detail, true)
}
func (r *Report) undecided(rule, key, pos, detail string) {
	r.add(rule, key, "undecided", pos, detail, true)
}
func (r *Report) cond(okc bool, rule, key, pos, okDetail, badDetail string) {
	if okc {
		r.ok(rule, key, pos, okDetail)
	} else {
		r.bad(rule, key, pos, badDetail)
	}
}
func (r *Report) fn(f *ssa.Function) {
	if f != nil {
		r.Funcs[fnKey(f)] = true
	}
}
func (r *Report) floor(rule string, n int) { r.Floors[r.Prop+"-"+rule] = n }
func (r *Report) assume(s string) {
	for _, a := range r.Assumptions {
		if a == s {
			return
		}
	}
	r.Assumptions = append(r.Assumptions, s)
}

type KnownFinding struct {
	Property  string `json:"property"`
	Rule      string `json:"rule"`
	Construct string `json:"construct"`
	WhatFails string `json:"what_fails"`
	Status    string `json:"status"` // open | fixed
	Commit    string `json:"commit,omitempty"`
}

type KnownFile struct {
	Comment  string         `json:"comment"`
	Findings []KnownFinding `json:"findings"`
}

func loadKnown(path string) (*KnownFile, error) {
	b, err := os.ReadFile(path)
	if err != nil {
		if os.IsNotExist(err) {
			return &KnownFile{}, nil
		}
		return nil, err
	}
	var k KnownFile
	if err := json.Unmarshal(b, &k); err != nil {
		return nil, err
	}
	return &k, nil
}

// finish merges per-configuration duplicates, applies floors and known findings,
// writes evidence and replay files and returns the exit code.
func (r *Report) finish(verifDir, tier string, seed int, configs []string, started time.Time, extra map[string]interface{}) int {
	// floors (vacuity guard)
	count := map[string]int{}
	for _, o := range r.Obls {
		count[o.Rule]++
	}
	var rules []string
	for rule := range r.Floors {
		rules = append(rules, rule)
	}
	sort.Strings(rules)
	for _, rule := range rules {
		if count[rule] < r.Floors[rule] {
			o := &Obligation{Rule: rule, Key: "vacuity-floor", Status: "undecided", Pos: "-",
				Detail:     fmt.Sprintf("rule matched %d instances, fewer than the %d confirmed by hand: the anchor was not found (refactored beyond recognition?)", count[rule], r.Floors[rule]),
				NonTrivial: true}
			r.Obls = append(r.Obls, o)
		}
	}
	// de-duplicate across configurations: same rule+key+status
	seen := map[string]*Obligation{}
	var obls []*Obligation
	for _, o := range r.Obls {
		k := o.Rule + "\x00" + o.Key + "\x00" + o.Status
		if p, ok := seen[k]; ok {
			if o.Config != "" && !strings.Contains(p.Config, o.Config) {
				p.Config += "," + o.Config
			}
			continue
		}
		seen[k] = o
		obls = append(obls, o)
	}
	r.Obls = obls

	known, err := loadKnown(filepath.Join(verifDir, "known_findings.json"))
	if err != nil {
		fmt.Printf("cannot read known_findings.json: %v\n", err)
		return 2
	}
	knownOpen := map[string]KnownFinding{}
	for _, k := range known.Findings {
		if k.Property == r.Prop && k.Status == "open" {
			knownOpen[k.Rule+"\x00"+k.Construct] = k
		}
	}
	nViol, nKnown, nDis, nNon := 0, 0, 0, 0
	distinct := map[string]bool{}
	var viols []*Obligation
	for _, o := range r.Obls {
		switch o.Status {
		case "discharged", "assumed":
			nDis++
		default:
			if k, ok := knownOpen[o.Rule+"\x00"+o.Key]; ok && o.Status == "violation" {
				o.Known = true
				nKnown++
				fmt.Printf("KNOWN-FINDING: property=%s %s [%s %s] %s\n", r.Prop, k.WhatFails, o.Rule, o.Key, o.Pos)
			} else {
				nViol++
				viols = append(viols, o)
			}
		}
		if o.NonTrivial && !distinct[o.Rule+"\x00"+o.Key] {
			distinct[o.Rule+"\x00"+o.Key] = true
			nNon++
		}
	}
	if os.Getenv("BISQ_DUMP") != "" {
		for _, o := range r.Obls {
			fmt.Printf("OBL %s [%s] %s %s\n", o.Rule, o.Key, o.Status, o.Pos)
		}
	}
	// replay files + VIOLATION lines
	os.MkdirAll(filepath.Join(verifDir, "replay"), 0o755)
	old, _ := filepath.Glob(filepath.Join(verifDir, "replay", r.Prop+"-*.json"))
	for _, f := range old {
		os.Remove(f)
	}
	for i, o := range viols {
		p := filepath.Join(verifDir, "replay", fmt.Sprintf("%s-%d.json", r.Prop, i+1))
		b, _ := json.MarshalIndent(map[string]interface{}{
			"property": r.Prop, "rule": o.Rule, "construct": o.Key, "status": o.Status,
			"pos": o.Pos, "detail": o.Detail, "config": o.Config, "tier": tier,
		}, "", " ")
		os.WriteFile(p, b, 0o644)
		fmt.Printf("%s: %s %s [%s]: %s\n", o.Pos, strings.ToUpper(o.Status), o.Rule, o.Key, o.Detail)
		fmt.Printf("VIOLATION property=%s replay=%s\n", r.Prop, p)
	}
	// evidence
	var samples []interface{}
	perRule := map[string]int{}
	for _, o := range r.Obls {
		if perRule[o.Rule] < 3 || o.Status != "discharged" {
			perRule[o.Rule]++
			samples = append(samples, o)
		}
	}
	var funcs []string
	for f := range r.Funcs {
		funcs = append(funcs, f)
	}
	sort.Strings(funcs)
	if len(r.TrustedBase) == 0 {
		r.TrustedBase = []string{"go/types type checker", "go/ssa construction (x/tools v0.29.0)", "go list / go/packages loading the tree with its real build flags"}
	}
	if r.Notes == nil {
		r.Notes = []string{}
	}
	if r.Assumptions == nil {
		r.Assumptions = []string{}
	}
	ruleCounts := map[string]int{}
	for _, o := range r.Obls {
		ruleCounts[o.Rule]++
	}
	cov := map[string]interface{}{
		"explanation":            r.Explanation,
		"obligations":            len(r.Obls),
		"discharged":             nDis,
		"evaluations":            len(r.Obls),
		"distinct_nontrivial":    nNon,
		"rule":                   "one obligation per (rule, construct) instance found in /repo's current source; non-trivial = needed a path search, dataflow trace, guard/dominance argument or lockset (not mere enumeration); distinct = distinct (rule, construct) keys",
		"samples":                samples,
		"known_findings_matched": nKnown,
		"functions_analysed":     funcs,
		"functions_analysed_n":   len(funcs),
		"call_sites":             r.CallSites,
		"build_configs":          configs,
		"per_rule_instances":     ruleCounts,
		"checker_cmd":            fmt.Sprintf("/verif/check %s %s", r.Prop, tier),
		"trusted_base":           r.TrustedBase,
		"exhaustive":             true,
		"notes":                  r.Notes,
	}
	for k, v := range extra {
		cov[k] = v
	}
	ev := map[string]interface{}{
		"property_id": r.Prop,
		"tier":        tier,
		"seed":        seed,
		"level":       r.Level,
		"coverage":    cov,
		"assumptions": r.Assumptions,
		"wall_s":      time.Since(started).Seconds(),
		"violations":  nViol,
	}
	os.MkdirAll(filepath.Join(verifDir, "evidence"), 0o755)
	b, _ := json.MarshalIndent(ev, "", " ")
	if err := os.WriteFile(filepath.Join(verifDir, "evidence", r.Prop+".json"), b, 0o644); err != nil {
		fmt.Printf("cannot write evidence: %v\n", err)
		return 2
	}
	fmt.Printf("%s %s: %d obligations, %d discharged, %d known findings, %d violations (%d functions, configs %v, %.1fs)\n",
		r.Prop, tier, len(r.Obls), nDis, nKnown, nViol, len(funcs), configs, time.Since(started).Seconds())
	if nViol > 0 {
		return 1
	}
	return 0
}

// ---------------------------------------------------------------------------
// small type helpers

func namedOf(t types.Type) *types.Named {
	for {
		switch tt := t.(type) {
		case *types.Pointer:
			t = tt.Elem()
		case *types.Named:
			return tt
		case *types.Alias:
			t = types.Unalias(tt)
		default:
			return nil
		}
	}
}

// typeIs reports whether t (possibly a pointer) is the named type pkgpath.name.
func typeIs(t types.Type, pkgpath, name string) bool {
	n := namedOf(t)
	if n == nil || n.Obj() == nil {
		return false
	}
	if n.Obj().Name() != name {
		return false
	}
	if n.Obj().Pkg() == nil {
		return pkgpath == ""
	}
	return n.Obj().Pkg().Path() == pkgpath
}

func typeStr(t types.Type) string {
	s := types.TypeString(t, func(p *types.Package) string {
		path := p.Path()
		if path == pahoPkts {
			return "mqtt"
		}
		if strings.HasPrefix(path, modPath+"/") {
			return strings.TrimPrefix(path, modPath+"/")
		}
		return p.Name()
	})
	return s
}
