package main

import (
	"fmt"
	"go/token"
	"go/types"
	"sort"
	"strings"

	"golang.org/x/tools/go/ssa"
)

// Codec layout extraction (DESIGN A8) for packages packets / packets1.
//
// Pack and Unpack of every packet type are explored path by path with the
// finite-domain explorer: variable-length fields get the fixed length 3, the
// few fields the codecs branch on (TopicIDType, Duration, empty WillTopic) are
// enumerated. The encoder yields the ordered list of buffer writes, the
// decoder the list of (field <- buffer position) stores.

type layItem struct {
	Field string
	Off   int64
	Width int64 // -1: rest of the buffer
	Kind  string
}

func (i layItem) String() string {
	w := fmt.Sprint(i.Width)
	if i.Width < 0 {
		w = "rest"
	}
	return fmt.Sprintf("%s@%d+%s", i.Field, i.Off, w)
}

type codecVariant struct {
	Name  string
	Cells map[string]aval
}

const varLen = 3 // length given to every variable-length field

type codecModel struct {
	c     *Ctx
	types []string // "*packets1.X"
}

func (c *Ctx) newCodecModel() *codecModel {
	return &codecModel{c: c, types: c.decodedTypes()}
}

func (cm *codecModel) method(tname, m string) *ssa.Function {
	t := cm.lookup(tname)
	if t == nil {
		return nil
	}
	sel := cm.c.Prog.MethodSets.MethodSet(t).Lookup(cm.c.ByPath[pkPackets1].Types, m)
	if sel == nil {
		return nil
	}
	return cm.c.Prog.MethodValue(sel)
}

func (cm *codecModel) lookup(tname string) types.Type {
	name := strings.TrimPrefix(tname, "*packets1.")
	obj := cm.c.ByPath[pkPackets1].Types.Scope().Lookup(name)
	if obj == nil {
		return nil
	}
	return types.NewPointer(obj.Type())
}

func (cm *codecModel) structFields(tname string) map[string]types.Type {
	out := map[string]types.Type{}
	t := cm.lookup(tname)
	if t == nil {
		return out
	}
	st := structOf(t)
	for i := 0; i < st.NumFields(); i++ {
		out[st.Field(i).Name()] = st.Field(i).Type()
	}
	return out
}

// variants enumerates the valuations the codec of a type branches on.
func (cm *codecModel) variants(tname string) []codecVariant {
	short := strings.TrimPrefix(tname, "*")
	fields := cm.structFields(tname)
	base := map[string]aval{}
	for fn, ft := range fields {
		switch u := ft.Underlying().(type) {
		case *types.Slice:
			base["len:f:"+short+"."+fn] = kint(varLen)
		case *types.Basic:
			if u.Kind() == types.String {
				base["len:f:"+short+"."+fn] = kint(varLen)
			}
		}
	}
	vs := []codecVariant{{"", base}}
	mul := func(cell string, vals ...int64) {
		var out []codecVariant
		for _, v := range vs {
			for _, x := range vals {
				n := map[string]aval{}
				for k, a := range v.Cells {
					n[k] = a
				}
				n[cell] = kint(x)
				nm := v.Name
				if nm != "" {
					nm += ","
				}
				out = append(out, codecVariant{nm + strings.Replace(cell, "f:"+short+".", "", 1) + "=" + fmt.Sprint(x), n})
			}
		}
		vs = out
	}
	if _, ok := fields["TopicIDType"]; ok {
		mul("f:"+short+".TopicIDType", 0, 1, 2)
	}
	if _, ok := fields["Duration"]; ok && tname == "*packets1.Disconnect" {
		mul("f:"+short+".Duration", 0, 5)
	}
	if _, ok := fields["WillTopic"]; ok {
		mul("len:f:"+short+".WillTopic", 0, varLen)
	}
	return vs
}

func (cm *codecModel) baseExplorer(used map[string]bool) *explorer {
	e := &explorer{c: cm.c, MaxDepth: 6}
	e.Inline = func(g *ssa.Function) bool {
		p := fnPkgPath(g)
		if p != pkPackets1 && p != pkPackets {
			return false
		}
		switch g.Name() {
		case "PackToBuffer", "EncodeUint16", "String":
			return false
		}
		return true
	}
	e.CellOf = func(v ssa.Value, fr *frame) (string, bool) {
		switch x := v.(type) {
		case *ssa.UnOp:
			if x.Op == token.MUL {
				switch a := x.X.(type) {
				case *ssa.FieldAddr:
					return fieldCell(a), true
				case *ssa.IndexAddr:
					if p, ok := a.X.(*ssa.Parameter); ok && isByteSlice(p.Type()) {
						if k, ok := constInt(a.Index); ok {
							cell := fmt.Sprintf("buf[%d]", k)
							used[cell] = true
							return cell, true
						}
					}
				}
			}
		case *ssa.Call:
			if b, ok := x.Call.Value.(*ssa.Builtin); ok && b.Name() == "len" {
				arg := x.Call.Args[0]
				if p, ok := arg.(*ssa.Parameter); ok && isByteSlice(p.Type()) {
					return "len:buf", true
				}
				if u, ok := arg.(*ssa.UnOp); ok && u.Op == token.MUL {
					if fa, ok := u.X.(*ssa.FieldAddr); ok {
						return "len:" + fieldCell(fa), true
					}
				}
				if cv, ok := arg.(*ssa.Convert); ok {
					if u, ok := cv.X.(*ssa.UnOp); ok && u.Op == token.MUL {
						if fa, ok := u.X.(*ssa.FieldAddr); ok {
							return "len:" + fieldCell(fa), true
						}
					}
				}
			}
		}
		return "", false
	}
	e.CellStore = func(i ssa.Instruction, fr *frame) (string, ssa.Value, bool) {
		if s, ok := i.(*ssa.Store); ok {
			if fa, ok := s.Addr.(*ssa.FieldAddr); ok {
				return fieldCell(fa), s.Val, true
			}
		}
		return "", nil, false
	}
	return e
}

func isByteSlice(t types.Type) bool {
	s, ok := t.Underlying().(*types.Slice)
	if !ok {
		return false
	}
	b, ok := s.Elem().Underlying().(*types.Basic)
	return ok && b.Kind() == types.Uint8
}

// fieldOf returns the receiver field path a value is loaded from ("" if not).
func (cm *codecModel) fieldOf(v ssa.Value) string {
	os := cm.c.origins(v)
	if len(os) != 1 || (os[0].Kind != "param" && os[0].Kind != "freevar") || len(os[0].Path) == 0 {
		return ""
	}
	return os[0].Path[len(os[0].Path)-1]
}

type encResult struct {
	Items     []layItem
	HdrArg    aval // argument of the last SetVarPartLength before the header write
	HdrFirst  bool // header written before any field
	SetBefore bool // length set before header write (or constant-length type)
	Raw       []string
	Err       string
}

// encode explores Pack for one variant.
func (cm *codecModel) encode(tname string, v codecVariant) encResult {
	pack := cm.method(tname, "Pack")
	if pack == nil {
		return encResult{Err: "no Pack method"}
	}
	used := map[string]bool{}
	e := cm.baseExplorer(used)
	e.Event = func(i ssa.Instruction, ex *explorer, st *pstate, fr *frame) (string, bool, bool) {
		ci, ok := i.(ssa.CallInstruction)
		if !ok {
			return "", false, false
		}
		cc := ci.Common()
		n := calleeName(cc)
		switch n {
		case "(*" + pkPackets + ".Header).PackToBuffer":
			return "HDR", true, true
		case "(*" + pkPackets + ".Header).SetVarPartLength":
			a := ex.eval(cc.Args[1], st, fr)
			return "SETLEN:" + a.String(), true, false
		case "(*bytes.Buffer).WriteByte":
			return "W1:" + cm.describeByte(cc.Args[1], ex, st, fr), true, true
		case "(*bytes.Buffer).Write":
			return "W:" + cm.describeSlice(cc.Args[1], ex, st, fr), true, true
		case "(*bytes.Buffer).WriteString":
			return "W:bytes:" + cm.fieldOf(cc.Args[1]), true, true
		}
		return "", false, false
	}
	outs := e.Explore(pack, v.Cells, nil)
	var okOuts []Outcome
	for _, o := range outs {
		if len(o.Ret) == 2 && o.Ret[1] == "nil" {
			okOuts = append(okOuts, o)
		}
	}
	if len(okOuts) != 1 {
		return encResult{Err: fmt.Sprintf("%d successful encoder paths for one variant (expected exactly 1)", len(okOuts))}
	}
	res := encResult{SetBefore: true}
	off := int64(0)
	hdrSeen := false
	lastSet := unk()
	for _, ev := range okOuts[0].Events {
		switch {
		case strings.HasPrefix(ev, "SETLEN:"):
			if hdrSeen {
				res.SetBefore = false
			}
			var k int64
			if _, err := fmt.Sscanf(ev, "SETLEN:%d", &k); err == nil {
				lastSet = kint(k)
			} else {
				lastSet = unk()
			}
		case ev == "HDR":
			hdrSeen = true
			res.HdrFirst = len(res.Items) == 0
			res.HdrArg = lastSet
		case strings.HasPrefix(ev, "W1:"):
			res.Raw = append(res.Raw, ev)
			res.Items = append(res.Items, layItem{Field: strings.TrimPrefix(ev, "W1:"), Off: off, Width: 1, Kind: "u8"})
			off++
		case strings.HasPrefix(ev, "W:"):
			res.Raw = append(res.Raw, ev)
			d := strings.TrimPrefix(ev, "W:")
			switch {
			case strings.HasPrefix(d, "u16:"):
				res.Items = append(res.Items, layItem{Field: strings.TrimPrefix(d, "u16:"), Off: off, Width: 2, Kind: "u16"})
				off += 2
			case strings.HasPrefix(d, "bytes:"):
				res.Items = append(res.Items, layItem{Field: strings.TrimPrefix(d, "bytes:"), Off: off, Width: varLen, Kind: "bytes"})
				if lc, ok := v.Cells["len:f:"+strings.TrimPrefix(tname, "*")+"."+strings.TrimPrefix(d, "bytes:")]; ok {
					res.Items[len(res.Items)-1].Width = lc.i
					off += lc.i
				} else {
					off += varLen
				}
			default:
				res.Items = append(res.Items, layItem{Field: "?" + d, Off: off, Width: 0, Kind: "?"})
			}
		}
	}
	if !hdrSeen {
		res.Err = "Pack never writes the header"
	}
	return res
}

func (cm *codecModel) describeByte(v ssa.Value, ex *explorer, st *pstate, fr *frame) string {
	for {
		if cv, ok := v.(*ssa.Convert); ok {
			v = cv.X
			continue
		}
		if cv, ok := v.(*ssa.ChangeType); ok {
			v = cv.X
			continue
		}
		break
	}
	if call, ok := v.(*ssa.Call); ok {
		if g := staticCallee(&call.Call); g != nil && g.Signature.Recv() != nil && g.Signature.Params().Len() == 0 && fnPkgPath(g) == pkPackets1 {
			if b, ok := g.Signature.Results().At(0).Type().Underlying().(*types.Basic); ok && b.Kind() == types.Uint8 {
				return "flags"
			}
		}
		if b, ok := call.Call.Value.(*ssa.Builtin); ok && b.Name() == "len" {
			return "len(" + cm.fieldOf(stripConv(call.Call.Args[0])) + ")"
		}
	}
	if f := cm.fieldOf(v); f != "" {
		return f
	}
	if cm.isFlagExpr(v) {
		return "flags"
	}
	return "?" + exprStr(v)
}

func stripConv(v ssa.Value) ssa.Value {
	for {
		switch x := v.(type) {
		case *ssa.Convert:
			v = x.X
			continue
		case *ssa.ChangeType:
			v = x.X
			continue
		}
		return v
	}
}

func (cm *codecModel) describeSlice(v ssa.Value, ex *explorer, st *pstate, fr *frame) string {
	if call, ok := v.(*ssa.Call); ok {
		if calleeName(&call.Call) == pkPackets+".EncodeUint16" {
			if f := cm.fieldOf(call.Call.Args[0]); f != "" {
				return "u16:" + f
			}
			return "u16:?" + exprStr(call.Call.Args[0])
		}
	}
	if f := cm.fieldOf(stripConv(v)); f != "" {
		return "bytes:" + f
	}
	return "?" + exprStr(v)
}

type decResult struct {
	Items []layItem
	Err   string
	Used  map[string]bool
	Paths int
}

// decode explores Unpack with a buffer of n bytes for the variant (cells of
// the variant act as the oracle of what decodeFlags will store).
func (cm *codecModel) decode(tname string, v codecVariant, n int64, extra map[string]aval) decResult {
	unpack := cm.method(tname, "Unpack")
	if unpack == nil {
		return decResult{Err: "no Unpack method"}
	}
	used := map[string]bool{}
	e := cm.baseExplorer(used)
	cells := map[string]aval{"len:buf": kint(n)}
	short := strings.TrimPrefix(tname, "*")
	oracle := map[string]bool{}
	for k, a := range v.Cells {
		if strings.HasPrefix(k, "f:"+short+".") {
			cells[k] = a
			oracle[k] = true
		}
	}
	for k, a := range extra {
		cells[k] = a
	}
	e.StoreEvent = func(s *ssa.Store, ex *explorer, st *pstate, fr *frame) (string, bool, bool) {
		fa, ok := s.Addr.(*ssa.FieldAddr)
		if !ok {
			return "", false, false
		}
		cell := fieldCell(fa)
		field := fieldName(fa.X.Type(), fa.Field)
		d := cm.describeDecoded(s.Val, ex, st, fr)
		return "DEC:" + field + "<-" + d, true, oracle[cell]
	}
	// SetDUP(x) style setters are inlined and become stores.
	outs := e.Explore(unpack, cells, nil)
	var okOuts []Outcome
	for _, o := range outs {
		if len(o.Ret) == 1 && o.Ret[0] == "nil" {
			okOuts = append(okOuts, o)
		}
	}
	res := decResult{Used: used, Paths: len(okOuts)}
	if len(okOuts) != 1 {
		res.Err = fmt.Sprintf("%d accepting decoder paths for a %d-byte body (expected exactly 1)", len(okOuts), n)
		return res
	}
	for _, ev := range okOuts[0].Events {
		if !strings.HasPrefix(ev, "DEC:") {
			continue
		}
		parts := strings.SplitN(strings.TrimPrefix(ev, "DEC:"), "<-", 2)
		field, d := parts[0], parts[1]
		var off, hi int64
		switch {
		case strings.HasPrefix(d, "u8@"):
			fmt.Sscanf(d, "u8@%d", &off)
			res.Items = append(res.Items, layItem{field, off, 1, "u8"})
		case strings.HasPrefix(d, "u16@"):
			fmt.Sscanf(d, "u16@%d", &off)
			res.Items = append(res.Items, layItem{field, off, 2, "u16"})
		case strings.HasPrefix(d, "rest@"):
			fmt.Sscanf(d, "rest@%d", &off)
			res.Items = append(res.Items, layItem{field, off, n - off, "bytes"})
		case strings.HasPrefix(d, "bytes@"):
			fmt.Sscanf(d, "bytes@%d:%d", &off, &hi)
			res.Items = append(res.Items, layItem{field, off, hi - off, "bytes"})
		case strings.HasPrefix(d, "flag"):
			res.Items = append(res.Items, layItem{field, 0, 1, "flag"})
		case d == "const":
		default:
			res.Items = append(res.Items, layItem{field, -1, 0, "?" + d})
		}
	}
	return res
}

func (cm *codecModel) describeDecoded(v ssa.Value, ex *explorer, st *pstate, fr *frame) string {
	v0 := v
	v = stripConv(v)
	switch x := v.(type) {
	case *ssa.Const:
		return "const"
	case *ssa.Parameter:
		if isByteSlice(x.Type()) {
			return "rest@0"
		}
		// parameter of an inlined setter / decodeFlags: describe the argument bound to it
		if a, ok := fr.params[x]; ok && a.known {
			return "const"
		}
		return "flagparam"
	case *ssa.UnOp:
		if x.Op == token.MUL {
			if ia, ok := x.X.(*ssa.IndexAddr); ok {
				if p, ok := ia.X.(*ssa.Parameter); ok && isByteSlice(p.Type()) {
					if k, ok := constInt(ia.Index); ok {
						return fmt.Sprintf("u8@%d", k)
					}
				}
			}
		}
	case *ssa.Slice:
		if p, ok := x.X.(*ssa.Parameter); ok && isByteSlice(p.Type()) {
			lo, hi := int64(0), int64(-1)
			if x.Low != nil {
				a := ex.eval(x.Low, st, fr)
				if !a.known {
					return "?slice-low"
				}
				lo = a.i
			}
			if x.High != nil {
				a := ex.eval(x.High, st, fr)
				if !a.known {
					return "?slice-high"
				}
				hi = a.i
			}
			if hi < 0 {
				return fmt.Sprintf("rest@%d", lo)
			}
			return fmt.Sprintf("bytes@%d:%d", lo, hi)
		}
	case *ssa.Call:
		n := calleeName(&x.Call)
		if n == "(encoding/binary.bigEndian).Uint16" {
			arg := x.Call.Args[1]
			switch s := arg.(type) {
			case *ssa.Slice:
				if p, ok := s.X.(*ssa.Parameter); ok && isByteSlice(p.Type()) {
					lo := int64(0)
					if s.Low != nil {
						a := ex.eval(s.Low, st, fr)
						if !a.known {
							return "?u16-low"
						}
						lo = a.i
					}
					if s.High != nil {
						a := ex.eval(s.High, st, fr)
						if !a.known || a.i-lo != 2 {
							return "?u16-width"
						}
					}
					return fmt.Sprintf("u16@%d", lo)
				}
			case *ssa.Parameter:
				if isByteSlice(s.Type()) {
					return "u16@0"
				}
			}
			return "?u16:" + exprStr(arg)
		}
	case *ssa.BinOp:
		// (b & mask) >> k etc. on the flags byte: handled structurally
		return "flag"
	case *ssa.Extract:
		if call, ok := x.Tuple.(*ssa.Call); ok {
			if d, ok := cm.describeHelperResult(call, x.Index, ex, st, fr); ok {
				return d
			}
		}
	}
	if call, ok := v.(*ssa.Call); ok {
		if d, ok := cm.describeHelperResult(call, 0, ex, st, fr); ok {
			return d
		}
	}
	_ = v0
	return "?" + exprStr(v)
}

// describeHelperResult: result k of a decoding helper of the codec packages that is handed the decoder's own buffer
// unsliced: described by the helper's return expressions (constant results of its error paths aside), which must agree.
func (cm *codecModel) describeHelperResult(call *ssa.Call, k int, ex *explorer, st *pstate, fr *frame) (string, bool) {
	g := staticCallee(&call.Call)
	if g == nil || g.Blocks == nil {
		return "", false
	}
	if p := fnPkgPath(g); p != pkPackets1 && p != pkPackets {
		return "", false
	}
	for ai, a := range call.Call.Args {
		if ai < len(g.Params) && isByteSlice(g.Params[ai].Type()) {
			if p, ok := a.(*ssa.Parameter); !ok || !isByteSlice(p.Type()) {
				return "", false
			}
		}
	}
	out := ""
	for _, b := range g.Blocks {
		ret, ok := b.Instrs[len(b.Instrs)-1].(*ssa.Return)
		if !ok || k >= len(ret.Results) {
			continue
		}
		if _, isC := stripConv(ret.Results[k]).(*ssa.Const); isC {
			continue
		}
		d := cm.describeDecoded(ret.Results[k], ex, st, fr)
		if out != "" && d != out {
			return "", false
		}
		out = d
	}
	return out, out != ""
}

// ---------------------------------------------------------------------------

// flagEncoder: the function whose byte-typed OR/AND expressions build the
// flags octet of tname: the method Pack hands to WriteByte (a receiver method
// without further parameters returning a byte; today encodeFlags), or Pack
// itself when the expression is written in place. second result: the value
// written in place (nil when a method is called).
func (cm *codecModel) flagEncoder(tname string) (*ssa.Function, ssa.Value) {
	pack := cm.method(tname, "Pack")
	if pack == nil {
		return nil, nil
	}
	var fn *ssa.Function
	var inline ssa.Value
	allInstrs(pack, func(i ssa.Instruction) {
		ci, ok := i.(ssa.CallInstruction)
		if !ok || calleeName(ci.Common()) != "(*bytes.Buffer).WriteByte" || len(ci.Common().Args) < 2 {
			return
		}
		v := stripConv(ci.Common().Args[1])
		if call, ok := v.(*ssa.Call); ok {
			if g := staticCallee(&call.Call); g != nil && g.Signature.Recv() != nil && g.Signature.Params().Len() == 0 && fnPkgPath(g) == pkPackets1 && len(call.Call.Args) == 1 && call.Call.Args[0] == ssa.Value(pack.Params[0]) {
				fn = g
			}
			return
		}
		if cm.isFlagExpr(v) {
			fn, inline = pack, v
		}
	})
	return fn, inline
}

// isFlagExpr: a byte expression built from masks/shifts/ors (not a plain field load).
func (cm *codecModel) isFlagExpr(v ssa.Value) bool {
	v = stripConv(v)
	switch x := v.(type) {
	case *ssa.BinOp:
		switch x.Op {
		case token.OR, token.AND, token.SHL:
			return true
		}
	case *ssa.Phi:
		for _, e := range x.Edges {
			if cm.isFlagExpr(e) {
				return true
			}
		}
	}
	return false
}

// flagDecoder: the function that decodes the flags octet of tname and the
// predicate telling which values are "the flags octet" there: the receiver
// method Unpack calls with one byte argument buf[k] (today decodeFlags; the
// byte is its parameter), or Unpack itself when the fields are assigned in
// place (the byte is any load of buf[k] that is masked with a constant).
func (cm *codecModel) flagDecoder(tname string) (f *ssa.Function, isByte func(ssa.Value) bool, off int64) {
	u := cm.method(tname, "Unpack")
	off = -1
	if u == nil {
		return nil, nil, off
	}
	allInstrs(u, func(i ssa.Instruction) {
		ci, ok := i.(ssa.CallInstruction)
		if !ok || f != nil {
			return
		}
		g := staticCallee(ci.Common())
		if g == nil || g.Signature.Recv() == nil || fnPkgPath(g) != pkPackets1 || len(ci.Common().Args) != 2 || ci.Common().Args[0] != ssa.Value(u.Params[0]) {
			return
		}
		if b, ok := g.Signature.Params().At(0).Type().Underlying().(*types.Basic); !ok || b.Kind() != types.Uint8 {
			return
		}
		if l, ok := ci.Common().Args[1].(*ssa.UnOp); ok && l.Op == token.MUL {
			if ia, ok := l.X.(*ssa.IndexAddr); ok {
				if k, ok := constInt(ia.Index); ok {
					f, off = g, k
					bp := g.Params[1]
					isByte = func(v ssa.Value) bool { return v == ssa.Value(bp) }
				}
			}
		}
	})
	if f != nil {
		return
	}
	// in place: loads of buf[k] that are ANDed with a constant
	offs := map[int64]bool{}
	allInstrs(u, func(i ssa.Instruction) {
		b, ok := i.(*ssa.BinOp)
		if !ok || b.Op != token.AND {
			return
		}
		if _, isC := constInt(b.Y); !isC {
			return
		}
		if l, ok := stripConv(b.X).(*ssa.UnOp); ok && l.Op == token.MUL {
			if ia, ok := l.X.(*ssa.IndexAddr); ok && len(u.Params) > 1 && ia.X == ssa.Value(u.Params[1]) {
				if k, ok := constInt(ia.Index); ok {
					offs[k] = true
				}
			}
		}
	})
	if len(offs) != 1 {
		return nil, nil, -1
	}
	for k := range offs {
		off = k
	}
	f = u
	isByte = func(v ssa.Value) bool {
		l, ok := v.(*ssa.UnOp)
		if !ok || l.Op != token.MUL {
			return false
		}
		ia, ok := l.X.(*ssa.IndexAddr)
		if !ok || ia.X != ssa.Value(u.Params[1]) {
			return false
		}
		k, ok := constInt(ia.Index)
		return ok && k == off
	}
	return
}

// Flags (structural): masks and shifts of the flags octet (in encodeFlags / decodeFlags or written in place).

type flagSpec struct {
	Mask, Shift int64
	Bool        bool
}

func (f flagSpec) String() string {
	if f.Bool {
		return fmt.Sprintf("mask %#x (bool)", f.Mask)
	}
	return fmt.Sprintf("mask %#x shift %d", f.Mask, f.Shift)
}

// encodeFlagSpecs analyses encodeFlags: returns field -> spec, or error text.
func (cm *codecModel) encodeFlagSpecs(tname string) (map[string]flagSpec, string) {
	f, inline := cm.flagEncoder(tname)
	if f == nil {
		return nil, ""
	}
	out := map[string]flagSpec{}
	bad := ""
	parseTerm := func(term ssa.Value) {
		a, ok := stripConv(term).(*ssa.BinOp)
		if !ok || a.Op != token.AND {
			bad = "unrecognised flag term: " + exprStr(term)
			return
		}
		mask, ok := constInt(a.Y)
		if !ok {
			bad = "non-constant mask: " + exprStr(a)
			return
		}
		x := a.X
		shift := int64(0)
		if sh, ok := x.(*ssa.BinOp); ok && sh.Op == token.SHL {
			k, ok := constInt(sh.Y)
			if !ok {
				bad = "non-constant shift"
				return
			}
			shift = k
			x = sh.X
		}
		fn := cm.fieldOf(stripConv(x))
		if fn == "" {
			bad = "flag term does not load a field: " + exprStr(x)
			return
		}
		out[fn] = flagSpec{Mask: mask, Shift: shift}
	}
	// a single term written in place (no OR at all)
	if inline != nil {
		if b, ok := stripConv(inline).(*ssa.BinOp); ok && b.Op != token.OR {
			parseTerm(inline)
			return out, bad
		}
	}
	// every BinOp OR in the function contributes one term
	allInstrs(f, func(i ssa.Instruction) {
		b, ok := i.(*ssa.BinOp)
		if !ok || b.Op != token.OR {
			return
		}
		if bt, ok := b.Type().Underlying().(*types.Basic); !ok || bt.Kind() != types.Uint8 {
			return
		}
		term := b.Y
		if _, isTerm := stripConv(b.X).(*ssa.BinOp); isTerm {
			if xb := stripConv(b.X).(*ssa.BinOp); xb.Op == token.AND {
				parseTerm(b.X) // a | b written as one expression: the left operand is a term too
			}
		}
		// term forms
		if k, ok := constInt(term); ok {
			// b |= mask under a bool condition: find the guard of this block
			gs := guardsOf(b.Block())
			field := ""
			for _, g := range gs {
				if !g.Truth {
					continue
				}
				if fn := cm.fieldOfBool(g.Cond); fn != "" {
					field = fn
				}
			}
			if field == "" {
				bad = "constant flag bit not guarded by a boolean field: " + exprStr(b)
				return
			}
			out[field] = flagSpec{Mask: k, Bool: true}
			return
		}
		if a, ok := term.(*ssa.BinOp); ok && a.Op == token.AND {
			mask, ok := constInt(a.Y)
			if !ok {
				bad = "non-constant mask: " + exprStr(a)
				return
			}
			x := a.X
			shift := int64(0)
			if s, ok := x.(*ssa.BinOp); ok && s.Op == token.SHL {
				k, ok := constInt(s.Y)
				if !ok {
					bad = "non-constant shift"
					return
				}
				shift = k
				x = s.X
			}
			fn := cm.fieldOf(stripConv(x))
			if fn == "" {
				bad = "flag term does not load a field: " + exprStr(x)
				return
			}
			out[fn] = flagSpec{Mask: mask, Shift: shift}
			return
		}
		bad = "unrecognised flag term: " + exprStr(term)
	})
	return out, bad
}

func (cm *codecModel) fieldOfBool(v ssa.Value) string {
	if f := cm.fieldOf(v); f != "" {
		return f
	}
	return ""
}

// decodeFlagSpecs analyses decodeFlags.
func (cm *codecModel) decodeFlagSpecs(tname string) (map[string]flagSpec, string) {
	f, isByte, _ := cm.flagDecoder(tname)
	if f == nil {
		return nil, ""
	}
	inPlace := f.Name() == "Unpack"
	out := map[string]flagSpec{}
	bad := ""
	// mentions the flags octet?
	var mentions func(v ssa.Value, d int) bool
	mentions = func(v ssa.Value, d int) bool {
		v = stripConv(v)
		if isByte(v) {
			return true
		}
		if b, ok := v.(*ssa.BinOp); ok && d < 4 {
			return mentions(b.X, d+1) || mentions(b.Y, d+1)
		}
		return false
	}
	spec := func(v ssa.Value) (flagSpec, bool) {
		v = stripConv(v)
		b, ok := v.(*ssa.BinOp)
		if !ok {
			return flagSpec{}, false
		}
		switch b.Op {
		case token.SHR:
			k, ok1 := constInt(b.Y)
			a, ok2 := stripConv(b.X).(*ssa.BinOp)
			if ok1 && ok2 && a.Op == token.AND && isByte(stripConv(a.X)) {
				if m, ok := constInt(a.Y); ok {
					return flagSpec{Mask: m, Shift: k}, true
				}
			}
		case token.AND:
			if isByte(stripConv(b.X)) {
				if m, ok := constInt(b.Y); ok {
					return flagSpec{Mask: m, Shift: 0}, true
				}
			}
		case token.EQL, token.NEQ:
			a, ok2 := stripConv(b.X).(*ssa.BinOp)
			if ok2 && a.Op == token.AND && isByte(stripConv(a.X)) {
				m, ok1 := constInt(a.Y)
				k, ok3 := constInt(b.Y)
				if ok1 && ok3 && ((b.Op == token.EQL && k == m) || (b.Op == token.NEQ && k == 0)) {
					return flagSpec{Mask: m, Bool: true}, true
				}
			}
		}
		return flagSpec{}, false
	}
	allInstrs(f, func(i ssa.Instruction) {
		switch x := i.(type) {
		case *ssa.Store:
			fa, ok := x.Addr.(*ssa.FieldAddr)
			if !ok {
				return
			}
			fn := fieldName(fa.X.Type(), fa.Field)
			if inPlace && !mentions(x.Val, 0) {
				return // another field of the packet, not a flag
			}
			s, ok := spec(x.Val)
			if !ok {
				bad = "field " + fn + " decoded from an unrecognised expression: " + exprStr(x.Val)
				return
			}
			out[fn] = s
		case ssa.CallInstruction:
			g := staticCallee(x.Common())
			if g == nil || g.Blocks == nil {
				return
			}
			// setter: SetDUP(cond)
			for _, w := range cm.c.setterWrites(g) {
				if w.ParamIdx >= 0 && w.ParamIdx < len(x.Common().Args) {
					if inPlace && !mentions(x.Common().Args[w.ParamIdx], 0) {
						continue
					}
					s, ok := spec(x.Common().Args[w.ParamIdx])
					if !ok {
						bad = "setter argument not a recognised flag expression: " + exprStr(x.Common().Args[w.ParamIdx])
						return
					}
					out[w.Path[len(w.Path)-1]] = s
				}
			}
		}
	})
	return out, bad
}

func sortedItems(items []layItem) []layItem {
	out := append([]layItem{}, items...)
	sort.Slice(out, func(i, j int) bool {
		if out[i].Off != out[j].Off {
			return out[i].Off < out[j].Off
		}
		return out[i].Field < out[j].Field
	})
	return out
}

// getterField: name of the receiver field a getter method returns.
func (cm *codecModel) getterField(f *ssa.Function) string {
	if f == nil {
		return "?"
	}
	name := "?"
	allInstrs(f, func(i ssa.Instruction) {
		if ret, ok := i.(*ssa.Return); ok && len(ret.Results) == 1 {
			if n := cm.fieldOf(ret.Results[0]); n != "" {
				name = n
			}
		}
	})
	return name
}
