package main

import (
	"fmt"
	"go/token"
	"go/types"
	"sort"

	"golang.org/x/tools/go/ssa"
)

// checkStoreKeySpaces: R5 of C29. The transaction store's two key spaces - by
// message ID (uint16 parameter) and by packet type (PacketType parameter) -
// are independent: an operation of one family never touches an entry of the
// other. Decided per map field of TransactionStore: either only one family
// uses the field (today: two maps), or the key each family computes is an
// integer expression of its parameter and the two images, evaluated over the
// whole parameter domains (65536 IDs, 256 types), are disjoint. In both cases
// the key must be a function of the parameter alone.
func (c *Ctx) checkStoreKeySpaces(r *Report, rule string) {
	type op struct {
		fn     *ssa.Function
		family string // "id" | "type"
		key    ssa.Value
		pos    string
	}
	perMap := map[string][]op{}
	for _, fn := range c.repoFuncs("transactions") {
		if fn.Signature.Recv() == nil || !typeIs(fn.Signature.Recv().Type(), pkTrans, "TransactionStore") || len(fn.Params) < 2 {
			continue
		}
		family := ""
		switch {
		case typeIs(fn.Params[1].Type(), pkPackets, "PacketType"):
			family = "type"
		default:
			if b, ok := fn.Params[1].Type().Underlying().(*types.Basic); ok && b.Kind() == types.Uint16 {
				family = "id"
			}
		}
		if family == "" {
			continue
		}
		allInstrs(fn, func(i ssa.Instruction) {
			var m, key ssa.Value
			switch x := i.(type) {
			case *ssa.MapUpdate:
				m, key = x.Map, x.Key
			case *ssa.Lookup:
				m, key = x.X, x.Index
			case ssa.CallInstruction:
				if b, ok := x.Common().Value.(*ssa.Builtin); ok && b.Name() == "delete" {
					m, key = x.Common().Args[0], x.Common().Args[1]
				}
			}
			if m == nil {
				return
			}
			u, ok := m.(*ssa.UnOp)
			if !ok {
				return
			}
			fa, ok := u.X.(*ssa.FieldAddr)
			if !ok {
				return
			}
			name := fieldName(fa.X.Type(), fa.Field)
			perMap[name] = append(perMap[name], op{fn, family, key, c.instrPos(i)})
		})
	}
	if len(perMap) == 0 {
		r.undecided(rule, "TransactionStore:key-spaces", "-", "no map operation in a by-ID / by-type method of TransactionStore found")
		return
	}
	var names []string
	for n := range perMap {
		names = append(names, n)
	}
	sort.Strings(names)
	for _, name := range names {
		ops := perMap[name]
		key := "TransactionStore." + name + ":key-space"
		fams := map[string]bool{}
		for _, o := range ops {
			fams[o.family] = true
			r.fn(o.fn)
		}
		// every key is a function of the method's key parameter alone; evaluate it
		images := map[string]map[int64]int64{"id": {}, "type": {}}
		bad := ""
		for _, o := range ops {
			dom := int64(65536)
			if o.family == "type" {
				dom = 256
			}
			for v := int64(0); v < dom; v++ {
				k, ok := evalIntExpr(o.key, map[*ssa.Parameter]int64{o.fn.Params[1]: v}, 0)
				if !ok {
					bad = fmt.Sprintf("%s: the key %s is not an integer function of the method's key parameter that the analysis can evaluate", o.pos, exprStr(o.key))
					break
				}
				if len(fams) > 1 || v < 4 {
					images[o.family][k] = v
				}
				if len(fams) == 1 && k != v {
					// single family: the key must identify the parameter (injective); identity is what the code does
					if prev, dup := images[o.family][k]; dup && prev != v {
						bad = fmt.Sprintf("%s: keys for %d and %d coincide", o.pos, prev, v)
					}
					images[o.family][k] = v
				}
			}
			if bad != "" {
				break
			}
		}
		if bad == "" && len(fams) > 1 {
			for k, id := range images["id"] {
				if t, clash := images["type"][k]; clash {
					bad = fmt.Sprintf("the map is used by both the by-message-ID and the by-packet-type methods and their keys collide: message ID %d and packet type %d map to the same key %d, so Store/Delete of one touches the entry of the other", id, t, k)
					break
				}
			}
		}
		switch {
		case bad != "":
			r.bad(rule, key, ops[0].pos, bad)
		case len(fams) == 1:
			r.ok(rule, key, ops[0].pos, fmt.Sprintf("%d operations, all of the by-%s family, keyed by the parameter", len(ops), ops[0].family))
		default:
			r.ok(rule, key, ops[0].pos, "shared by both families with disjoint key images over the whole parameter domains")
		}
	}
}

// evalIntExpr evaluates a loop-free integer expression over parameters;
// static calls of single-return helper functions are evaluated recursively.
func evalIntExpr(v ssa.Value, env map[*ssa.Parameter]int64, d int) (int64, bool) {
	if d > 6 {
		return 0, false
	}
	switch x := v.(type) {
	case *ssa.Const:
		return constInt(x)
	case *ssa.Parameter:
		k, ok := env[x]
		return k, ok
	case *ssa.Convert:
		k, ok := evalIntExpr(x.X, env, d+1)
		if !ok {
			return 0, false
		}
		return wrapToWidth(x.Type(), k), true
	case *ssa.ChangeType:
		return evalIntExpr(x.X, env, d+1)
	case *ssa.BinOp:
		a, ok1 := evalIntExpr(x.X, env, d+1)
		b, ok2 := evalIntExpr(x.Y, env, d+1)
		if !ok1 || !ok2 {
			return 0, false
		}
		var res int64
		switch x.Op {
		case token.ADD:
			res = a + b
		case token.SUB:
			res = a - b
		case token.MUL:
			res = a * b
		case token.SHL:
			res = a << uint(b)
		case token.SHR:
			res = a >> uint(b)
		case token.OR:
			res = a | b
		case token.AND:
			res = a & b
		case token.XOR:
			res = a ^ b
		default:
			return 0, false
		}
		return wrapToWidth(x.Type(), res), true
	case *ssa.Call:
		g := staticCallee(&x.Call)
		if g == nil || len(g.Blocks) != 1 {
			return 0, false
		}
		ret, ok := g.Blocks[0].Instrs[len(g.Blocks[0].Instrs)-1].(*ssa.Return)
		if !ok || len(ret.Results) != 1 {
			return 0, false
		}
		env2 := map[*ssa.Parameter]int64{}
		for i, p := range g.Params {
			if i < len(x.Call.Args) {
				if k, ok := evalIntExpr(x.Call.Args[i], env, d+1); ok {
					env2[p] = k
				}
			}
		}
		return evalIntExpr(ret.Results[0], env2, d+1)
	}
	return 0, false
}

func wrapToWidth(t types.Type, v int64) int64 {
	b, ok := t.Underlying().(*types.Basic)
	if !ok {
		return v
	}
	switch b.Kind() {
	case types.Uint8:
		return v & 0xff
	case types.Uint16:
		return v & 0xffff
	case types.Uint32:
		return v & 0xffffffff
	case types.Int8:
		return int64(int8(v))
	case types.Int16:
		return int64(int16(v))
	case types.Int32:
		return int64(int32(v))
	}
	return v
}
