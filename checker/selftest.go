package main

// selfValidate is filled in by selftest_impl.go (thorough tier).
func selfValidate(prop, repo, verif string, extra map[string]interface{}) {
	runSelfValidation(prop, repo, verif, extra)
}
