package main

import (
	"go/types"
	"fmt"
	"go/token"
	"strings"

	"golang.org/x/tools/go/ssa"
)

func init() {
	register("C04", func(r *Report) {
		r.Explanation = "Decides the structure that is necessary for range, freshness, collision-freedom and refusal on exhaustion: (R1) the session's topic-ID allocator is an IDSequence over the constants 1..0xFFFE; (R2) every topic ID placed in an outgoing REGACK, SUBACK or REGISTER, and every key stored into the registered-topics map, originates from the allocator wrapper, from a key read back from that map, from the incoming packet's own predefined ID, or is the constant 0; (R3)-(R5) the allocator wrapper explored for every combination of (exhausted flag, overflow reported by the 1st/2nd Next, ID already predefined at the 1st/2nd probe) returns an ID only when the flag is clear, no Next reported overflow and the last probe of GetTopicName(<client id>, <that very ID>) failed, and every path that observes an overflow sets the sticky flag that all later calls test first; (R6) who may write the registered-topics map (shared with C01/C02): only the client-REGISTER/SUBSCRIBE path with a fresh ID and the client's own name, and the REGACK continuation with the ID and name of the stored REGISTER, guarded by ReturnCode == accepted, and no binding is ever deleted, swapped or reset; (R7) the ID sequence's state is written only by its constructor and by Next, and the session calls nothing but Next on it (no 'release'); (R8) at every call of the allocator (and of the functions that pass its result on) the ID is used only where the error of that call was compared with nil, or in a reply whose return code is a refusal whenever the error may be non-nil. Not decided: the arithmetic of IDSequence.Next (C29)."
		r.floor("R1", 1)
		r.floor("R2", 4)
		r.floor("R3", 8)
		r.floor("R6", 3)
		r.floor("R7", 2)
		r.floor("R8", 3)
	}, checkC04)
	register("C02", func(r *Report) {
		r.Explanation = "Decides: (R1) the MQTT-SN PUBLISH built for a broker PUBLISH takes Data, QoS, Retain, DUP and message ID from exactly the corresponding fields of the MQTT packet (traced through the positional constructor, so swapped arguments are caught); (R2) the (topic-ID type, topic ID) pair of every PUBLISH handed to the sender is one of (short, EncodeShortTopic(name)) under IsShortTopic(name), (registered, key found in the registered map), (predefined, GetTopicID(<client id>, name) on ok), or (registered, fresh ID) on the needs-register path - explored per path with symbolic IDs; (R3) on the needs-register path the only packet handed to the sender is a REGISTER carrying that fresh ID and the broker's topic name, and the PUBLISH is sent only by the REGACK continuation, in state awaitingRegack, for ReturnCode == accepted, after the (ID -> name) pair of the stored REGISTER was stored in the registered map; a rejected or out-of-state REGACK stores and sends nothing; (R4) who may write the registered-topics map (shared with C01/C04); the lookup consistency of R2 is C05. Not decided: that the client accepted the REGISTER (history), delivery under loss (C16)."
		r.floor("R1", 5)
		r.floor("R2", 3)
		r.floor("R3", 4)
		r.floor("R4", 3)
	}, checkC02)
}

// allocatorWrapper: gateway function that calls (*IDSequence).Next.
func (c *Ctx) allocatorWrapper() *ssa.Function {
	for _, f := range c.repoFuncs("gateway") {
		found := false
		allInstrs(f, func(i ssa.Instruction) {
			if ci, ok := i.(ssa.CallInstruction); ok && calleeName(ci.Common()) == "(*"+pkUtil+".IDSequence).Next" {
				found = true
			}
		})
		if found {
			return f
		}
	}
	return nil
}

// lawfulTopicID classifies the origin of a topic ID value.
func (c *Ctx) lawfulTopicID(v ssa.Value, alloc *ssa.Function, depth int) (string, bool) {
	if depth > 4 {
		return "too deep", false
	}
	os := c.origins(v)
	if len(os) == 0 {
		return "no origin", false
	}
	var kinds []string
	for _, o := range os {
		switch {
		case o.Kind == "const":
			if k, ok := constInt(o.Val); ok && k == 0 {
				kinds = append(kinds, "0")
				continue
			}
			return "constant " + exprStr(o.Val), false
		case o.Kind == "zero":
			kinds = append(kinds, "0")
		case o.Kind == "call":
			call, _ := o.Val.(*ssa.Call)
			g := (*ssa.Function)(nil)
			if call != nil {
				g = staticCallee(&call.Call)
			}
			switch {
			case g != nil && g == alloc && o.ResIdx == 0:
				kinds = append(kinds, "fresh")
			case g != nil && fnPkgPath(g) == pkGateway && g.Blocks != nil:
				// all returns of that result index must be lawful
				okAll := true
				sub := ""
				for _, b := range g.Blocks {
					ret, ok := b.Instrs[len(b.Instrs)-1].(*ssa.Return)
					if !ok || o.ResIdx >= len(ret.Results) {
						continue
					}
					k, ok := c.lawfulTopicID(ret.Results[o.ResIdx], alloc, depth+1)
					if !ok {
						okAll = false
						sub = k
					}
				}
				if !okAll {
					return "via " + fnKey(g) + ": " + sub, false
				}
				kinds = append(kinds, "via "+g.Name())
			default:
				return o.String(), false
			}
		case originIsField(o, pkPackets1, "Subscribe", "TopicID"):
			kinds = append(kinds, "incoming predefined ID")
		case o.Kind == "alloc" || (o.Kind == "freevar" && len(o.Path) == 0):
			// captured result variable assigned in a Range callback over the registered map
			if c.assignedFromSyncMapKey(o) {
				kinds = append(kinds, "key of the registered map")
				continue
			}
			return o.String(), false
		case o.Kind == "param" && len(o.Path) == 0:
			// parameter: every static call site must pass a lawful ID
			p := o.Root.(*ssa.Parameter)
			f := p.Parent()
			idx := paramIndex(f, p)
			n := 0
			for _, g := range c.repoFuncs("gateway") {
				bad := ""
				allInstrs(g, func(i ssa.Instruction) {
					ci, ok := i.(ssa.CallInstruction)
					if !ok || staticCallee(ci.Common()) != f || idx >= len(ci.Common().Args) {
						return
					}
					n++
					if k, ok := c.lawfulTopicID(ci.Common().Args[idx], alloc, depth+1); !ok {
						bad = k
					}
				})
				if bad != "" {
					return "argument of " + fnKey(f) + ": " + bad, false
				}
			}
			if n == 0 {
				return "parameter without callers", false
			}
			kinds = append(kinds, "lawful argument")
		case o.Kind == "param" && len(o.Path) == 1 && strings.HasPrefix(typeStr(o.RootType()), "*gateway.") && c.txRoleOf(typeStr(o.RootType())) != typeStr(o.RootType()):
			// a field of a gateway transaction (whatever its name) set at construction from a lawful argument
			if k, ok := c.fieldStoresLawful(typeStr(derefType(o.RootType())), o.Path[0], alloc, depth+1); !ok {
				return "transaction field " + o.Path[0] + ": " + k, false
			}
			kinds = append(kinds, "transaction field (lawful at construction)")
		default:
			return o.String(), false
		}
	}
	return strings.Join(kinds, "|"), true
}

func (c *Ctx) fieldStoresLawful(tname, field string, alloc *ssa.Function, depth int) (string, bool) {
	n := 0
	for _, f := range c.repoFuncs("gateway") {
		bad := ""
		allInstrs(f, func(i ssa.Instruction) {
			s, ok := i.(*ssa.Store)
			if !ok {
				return
			}
			fa, ok := s.Addr.(*ssa.FieldAddr)
			if !ok || typeStr(derefType(fa.X.Type())) != tname || fieldName(fa.X.Type(), fa.Field) != field {
				return
			}
			n++
			if k, ok := c.lawfulTopicID(s.Val, alloc, depth); !ok {
				bad = k
			}
		})
		if bad != "" {
			return bad, false
		}
	}
	return "", n > 0
}

// assignedFromSyncMapKey: the cell is stored, inside a closure passed to
// (*sync.Map).Range, from that closure's key parameter.
func (c *Ctx) assignedFromSyncMapKey(o Origin) bool {
	var cell ssa.Value = o.Root
	if cell == nil {
		cell = o.Val
	}
	a, ok := cell.(*ssa.Alloc)
	if !ok {
		return false
	}
	f := a.Parent()
	found, clean := false, true
	for _, cl := range closuresIn(f) {
		// which free variable is bound to a?
		var mc *ssa.MakeClosure
		allInstrs(f, func(i ssa.Instruction) {
			if m, ok := i.(*ssa.MakeClosure); ok && m.Fn == cl {
				mc = m
			}
		})
		if mc == nil {
			continue
		}
		// the closure must be the argument of sync.Map.Range
		isRangeCb := false
		if refs := mc.Referrers(); refs != nil {
			for _, rf := range *refs {
				if ci, ok := rf.(ssa.CallInstruction); ok && calleeName(ci.Common()) == "(*sync.Map).Range" {
					isRangeCb = true
				}
			}
		}
		for bi, b := range mc.Bindings {
			if b != ssa.Value(a) {
				continue
			}
			fv := cl.FreeVars[bi]
			if refs := fv.Referrers(); refs != nil {
				for _, rf := range *refs {
					if s, ok := rf.(*ssa.Store); ok && s.Addr == ssa.Value(fv) {
						os := c.origins(s.Val)
						if isRangeCb && len(os) == 1 && os[0].Kind == "param" && len(cl.Params) > 0 && os[0].Root == ssa.Value(cl.Params[0]) {
							found = true
						} else {
							clean = false
						}
					}
				}
			}
		}
	}
	// stores in the function itself (other than zero init) are not allowed
	if refs := a.Referrers(); refs != nil {
		for _, rf := range *refs {
			if s, ok := rf.(*ssa.Store); ok && s.Addr == ssa.Value(a) {
				if u, ok := s.Val.(*ssa.UnOp); ok && u.Op == token.MUL && u.X == ssa.Value(a) {
					continue
				}
				clean = false
			}
		}
	}
	return found && clean
}

// checkRegisteredMapWriters: rule shared by C01-R5, C02-R4, C04-R6.
func (c *Ctx) checkRegisteredMapWriters(r *Report, rule string) {
	alloc := c.allocatorWrapper()
	n := 0
	// a (topic ID -> name) binding, once made, is never withdrawn or replaced wholesale during the session:
	// the client keeps using the ID it was given (C04 "never reassigned", C02 "an ID it can resolve")
	nd := 0
	for _, f := range c.repoFuncs("gateway") {
		allInstrs(f, func(i ssa.Instruction) {
			if ci, ok := i.(ssa.CallInstruction); ok {
				cn := calleeName(ci.Common())
				if strings.HasPrefix(cn, "(*sync.Map).") && len(ci.Common().Args) > 0 {
					m := strings.TrimPrefix(cn, "(*sync.Map).")
					fa, ok := ci.Common().Args[0].(*ssa.FieldAddr)
					if !ok || !strings.HasPrefix(typeStr(derefType(fa.X.Type())), "gateway.") {
						return
					}
					switch m {
					case "Delete", "LoadAndDelete", "CompareAndDelete", "Swap", "CompareAndSwap", "LoadOrStore", "Clear":
						nd++
						r.fn(f)
						r.bad(rule, fmt.Sprintf("%s:registered-map.%s", fnKey(f), m), c.instrPos(i), "the registered-topics map is modified by "+m+": a topic ID the client was given (REGACK/SUBACK/REGISTER) stops denoting its topic, or is bound again, while the client keeps using it")
					}
				}
			}
			// whole-map reset: store of a sync.Map value into the field
			if st, ok := i.(*ssa.Store); ok {
				if fa, ok := st.Addr.(*ssa.FieldAddr); ok && strings.HasPrefix(typeStr(derefType(fa.X.Type())), "gateway.") && typeIs(derefType(fa.Type()), "sync", "Map") {
					if !isFreshObject(fa.X) {
						nd++
						r.fn(f)
						r.bad(rule, fmt.Sprintf("%s:registered-map.reset", fnKey(f)), c.instrPos(i), "the registered-topics map is replaced as a whole outside construction: every topic ID the client holds is forgotten")
					}
				}
			}
		})
	}
	if nd == 0 {
		r.ok(rule, "registered-map:no-delete-or-reset", "-", "no Delete/Swap/LoadOrStore/Clear call and no whole-map reset on a sync.Map field of package gateway")
	}
	for _, f := range c.repoFuncs("gateway") {
		allInstrs(f, func(i ssa.Instruction) {
			ci, ok := i.(ssa.CallInstruction)
			if !ok || calleeName(ci.Common()) != "(*sync.Map).Store" {
				return
			}
			cc := ci.Common()
			fa, ok := cc.Args[0].(*ssa.FieldAddr)
			if !ok || !strings.HasPrefix(typeStr(derefType(fa.X.Type())), "gateway.") {
				return
			}
			n++
			r.fn(f)
			key := fnKey(f) + ":registered-map.Store"
			kOrig := c.origins(cc.Args[1])
			vOrig := c.origins(cc.Args[2])
			gs := guardsOf(i.Block())
			// kind B: stored REGISTER of a gateway-initiated registration
			isStoredRegister := func(os []Origin, field string) bool {
				if len(os) != 1 {
					return false
				}
				o := os[0]
				return (o.Kind == "param" || o.Kind == "freevar") && strings.HasPrefix(typeStr(o.RootType()), "*gateway.") &&
					len(o.Path) >= 2 && o.Path[len(o.Path)-1] == field && o.Path[len(o.Path)-2] == "Data"
			}
			if isStoredRegister(kOrig, "TopicID") && isStoredRegister(vOrig, "TopicName") {
				accepted := false
				for _, g := range gs {
					x, y, op, isCmp := cmpGuard(g)
					if !isCmp || op != token.EQL {
						continue
					}
					if k, ok := constInt(y); ok && k == 0 && c.valueIsField(x, pkPackets1, "Regack", "ReturnCode") {
						accepted = true
					}
				}
				if accepted {
					r.ok(rule, key, c.instrPos(i), "REGACK continuation: (ID, name) of the stored REGISTER, guarded by ReturnCode == accepted")
				} else {
					r.bad(rule, key, c.instrPos(i), "the topic of a gateway-initiated REGISTER is recorded without the client's REGACK having return code 'accepted' on that path: a refused topic ID becomes usable")
				}
				return
			}
			// kind A: client REGISTER / SUBSCRIBE: fresh ID + the client's own name
			kd, kok := "", false
			if alloc != nil {
				kd, kok = c.lawfulTopicID(cc.Args[1], alloc, 0)
			}
			nameOK := false
			var nd []string
			for _, o := range vOrig {
				nd = append(nd, o.String())
			}
			if len(vOrig) == 1 {
				o := vOrig[0]
				if originIsField(o, pkPackets1, "Subscribe", "TopicName") || originIsField(o, pkPackets1, "Register", "TopicName") {
					nameOK = true
				}
				if o.Kind == "param" && len(o.Path) == 0 {
					// string parameter: all call sites pass the client's REGISTER/SUBSCRIBE topic name
					p := o.Root.(*ssa.Parameter)
					pf := p.Parent()
					idx := paramIndex(pf, p)
					cnt, good := 0, true
					for _, g := range c.repoFuncs("gateway") {
						allInstrs(g, func(j ssa.Instruction) {
							cj, ok := j.(ssa.CallInstruction)
							if !ok || staticCallee(cj.Common()) != pf {
								return
							}
							cnt++
							if !c.valueIsField(cj.Common().Args[idx], pkPackets1, "Register", "TopicName") && !c.valueIsField(cj.Common().Args[idx], pkPackets1, "Subscribe", "TopicName") {
								good = false
							}
						})
					}
					nameOK = cnt > 0 && good
				}
			}
			switch {
			case !kok || !strings.Contains(kd, "fresh"):
				r.bad(rule, key, c.instrPos(i), "the key stored into the registered-topics map is not a fresh ID from the allocator (an existing ID could be re-bound to another name): "+kd)
			case !nameOK:
				r.bad(rule, key, c.instrPos(i), "a name that does not come from the client's own REGISTER/SUBSCRIBE is recorded as registered (gateway-initiated registrations may only be recorded by the accepted REGACK): "+strings.Join(nd, ", "))
			default:
				r.ok(rule, key, c.instrPos(i), "client REGISTER/SUBSCRIBE: fresh ID -> the client's own topic name")
			}
		})
	}
	if n == 0 {
		r.undecided(rule, "registered-map.Store", "-", "no store into a sync.Map field of a gateway struct found")
	}
}

func checkC04(c *Ctx, r *Report) {
	alloc := c.allocatorWrapper()
	if alloc == nil {
		r.undecided("R0", "allocator", "-", "no function calling IDSequence.Next in package gateway")
		return
	}
	r.fn(alloc)
	c.checkAllocatorErrorDiscipline(r, alloc)
	// the collision probe asks about THIS client: "never collides with a predefined topic ID visible to that client"
	allInstrs(alloc, func(i ssa.Instruction) {
		call, ok := i.(*ssa.Call)
		if !ok || calleeName(&call.Call) != "("+pkTopics+".PredefinedTopics).GetTopicName" || len(call.Call.Args) < 3 {
			return
		}
		os := c.origins(call.Call.Args[1])
		okc := len(os) == 1 && (os[0].Kind == "param" || os[0].Kind == "freevar") && len(os[0].Path) >= 1
		if okc {
			fld := os[0].Path[len(os[0].Path)-1]
			isID := false
			for _, f := range c.repoFuncs("gateway") {
				allInstrs(f, func(j ssa.Instruction) {
					if st, ok := j.(*ssa.Store); ok {
						if fa, ok := st.Addr.(*ssa.FieldAddr); ok && fieldName(fa.X.Type(), fa.Field) == fld && c.valueIsField(st.Val, pkPackets1, "Connect", "ClientID") {
							isID = true
						}
					}
				})
			}
			okc = isID
		}
		var ds []string
		for _, o := range os {
			ds = append(ds, o.String())
		}
		r.cond(okc, "R3", fnKey(alloc)+":collision-probe-identity", c.instrPos(i), "the allocator probes the predefined topics of the session's own client ID (the field assigned from CONNECT.ClientID)",
			"the allocator's collision probe does not ask for the session's own client ID ("+strings.Join(ds, "; ")+"): an ID predefined for this client only (or shadowed for it) can be handed out for another topic name")
	})
	// R1: constants
	n1 := 0
	for _, f := range c.repoFuncs("gateway") {
		allInstrs(f, func(i ssa.Instruction) {
			ci, ok := i.(ssa.CallInstruction)
			if !ok || calleeName(ci.Common()) != pkUtil+".NewIDSequence" {
				return
			}
			n1++
			lo, ok1 := constInt(ci.Common().Args[0])
			hi, ok2 := constInt(ci.Common().Args[1])
			r.cond(ok1 && ok2 && lo == 1 && hi == 0xFFFE, "R1", fnKey(f)+":NewIDSequence", c.instrPos(i),
				"topic IDs are allocated from the constant range 1..0xFFFE", fmt.Sprintf("topic-ID allocator range is not the constants 1..0xFFFE (%v..%v)", lo, hi))
		})
	}
	if n1 == 0 {
		r.undecided("R1", "NewIDSequence", "-", "no IDSequence constructed in package gateway")
	}
	// R2: provenance in outgoing packets
	snS := c.snSenders("gateway")
	for _, f := range c.repoFuncs("gateway") {
		allInstrs(f, func(i ssa.Instruction) {
			call, ok := i.(*ssa.Call)
			if !ok {
				return
			}
			n := calleeName(&call.Call)
			var idArg ssa.Value
			what := ""
			switch n {
			case pkPackets1 + ".NewRegack":
				idArg, what = call.Call.Args[0], "REGACK"
			case pkPackets1 + ".NewSuback":
				idArg, what = call.Call.Args[0], "SUBACK"
			case pkPackets1 + ".NewRegister":
				idArg, what = call.Call.Args[0], "REGISTER"
			default:
				return
			}
			r.fn(f)
			key := fnKey(f) + ":" + what + ".TopicID"
			d, ok := c.lawfulTopicID(idArg, alloc, 0)
			if ok {
				r.ok("R2", key, c.instrPos(i), "topic ID origin: "+d)
			} else {
				r.bad("R2", key, c.instrPos(i), "the topic ID handed out in a "+what+" does not come from the allocator, the registered map or the packet's own predefined ID: "+d)
			}
		})
	}
	_ = snS
	// R3-R5: allocator wrapper explored
	c.exploreAllocator(r, alloc)
	// R6
	c.checkRegisteredMapWriters(r, "R6")
	// R7: the sequence only ever advances: its counter fields are written by the constructor and by Next only,
	// and the session calls nothing but Next on its topic-ID sequence
	c.checkSequenceMonotone(r, "R7")
}

func (c *Ctx) checkSequenceMonotone(r *Report, rule string) {
	p := c.ByPath[pkUtil]
	obj := p.Types.Scope().Lookup("IDSequence")
	if obj == nil {
		r.undecided(rule, "IDSequence", "-", "util.IDSequence not found")
		return
	}
	n := 0
	for _, f := range c.allRepoFuncs() {
		writes := map[string]bool{}
		var at ssa.Instruction
		allInstrs(f, func(i ssa.Instruction) {
			st, ok := i.(*ssa.Store)
			if !ok {
				return
			}
			fa, ok := st.Addr.(*ssa.FieldAddr)
			if !ok || !typeIs(derefType(fa.X.Type()), pkUtil, "IDSequence") {
				return
			}
			fn := fieldName(fa.X.Type(), fa.Field)
			if fn == "lock" {
				return
			}
			if isFreshObject(fa.X) {
				return
			}
			writes[fn] = true
			at = i
		})
		if len(writes) == 0 {
			continue
		}
		n++
		r.fn(f)
		key := fnKey(f) + ":writes-sequence-state"
		isNext := f.Signature.Recv() != nil && typeIs(derefType(f.Signature.Recv().Type()), pkUtil, "IDSequence") && f.Name() == "Next"
		if isNext {
			r.ok(rule, key, c.instrPos(at), "Next advances the sequence (fields "+strings.Join(sortedKeys(writes), ",")+")")
		} else {
			r.bad(rule, key, c.instrPos(at), "the ID sequence's state ("+strings.Join(sortedKeys(writes), ",")+") is written outside its constructor and Next: an ID that was already handed out can be issued again (topic IDs are never freed during a session)")
		}
	}
	if n == 0 {
		r.undecided(rule, "IDSequence:writers", "-", "no function writing the sequence state found (Next missing?)")
	}
	// calls on the gateway's sequence fields
	for _, f := range c.repoFuncs("gateway") {
		allInstrs(f, func(i ssa.Instruction) {
			ci, ok := i.(ssa.CallInstruction)
			if !ok {
				return
			}
			g := staticCallee(ci.Common())
			if g == nil || g.Signature.Recv() == nil || !typeIs(derefType(g.Signature.Recv().Type()), pkUtil, "IDSequence") {
				return
			}
			key := fnKey(f) + ":sequence." + g.Name()
			if g.Name() == "Next" {
				r.ok(rule, key, c.instrPos(i), "the session only draws new IDs")
			} else {
				r.bad(rule, key, c.instrPos(i), "the session calls "+g.Name()+" on an ID sequence: only Next (a fresh ID) keeps IDs unique for the lifetime of the session")
			}
		})
	}
}

func (c *Ctx) exploreAllocator(r *Report, alloc *ssa.Function) {
	// sticky flag cell: field read through sync/atomic in the wrapper
	for mask := 0; mask < 32; mask++ {
		exhausted := int64(mask & 1)
		ov := []int64{int64(mask >> 1 & 1), int64(mask >> 2 & 1)}
		pre := []int64{int64(mask >> 3 & 1), int64(mask >> 4 & 1)}
		e := &explorer{c: c, MaxDepth: 2}
		e.Inline = func(*ssa.Function) bool { return false }
		flagCell := ""
		e.CellOf = func(v ssa.Value, fr *frame) (string, bool) {
			if call, ok := v.(*ssa.Call); ok && strings.HasPrefix(calleeName(&call.Call), "sync/atomic.Load") {
				if fa, ok := call.Call.Args[0].(*ssa.FieldAddr); ok {
					flagCell = fieldCell(fa)
					return flagCell, true
				}
			}
			if u, ok := v.(*ssa.UnOp); ok && u.Op == token.MUL {
				if fa, ok := u.X.(*ssa.FieldAddr); ok {
					if b, isBasic := u.Type().Underlying().(interface{ Info() int }); isBasic {
						_ = b
					}
					return fieldCell(fa), true
				}
			}
			return "", false
		}
		e.CellStore = func(i ssa.Instruction, fr *frame) (string, ssa.Value, bool) {
			if ci, ok := i.(ssa.CallInstruction); ok && strings.HasPrefix(calleeName(ci.Common()), "sync/atomic.Store") {
				if fa, ok := ci.Common().Args[0].(*ssa.FieldAddr); ok {
					return fieldCell(fa), ci.Common().Args[1], true
				}
			}
			if s, ok := i.(*ssa.Store); ok {
				if fa, ok := s.Addr.(*ssa.FieldAddr); ok {
					return fieldCell(fa), s.Val, true
				}
			}
			return "", nil, false
		}
		e.CallValue = func(call *ssa.Call, ex *explorer, st *pstate, fr *frame) ([]aval, bool) {
			n := calleeName(&call.Call)
			switch n {
			case "(*" + pkUtil + ".IDSequence).Next":
				k := st.cells["#next"].i
				st.cells["#next"] = kint(k + 1)
				o := int64(0)
				if int(k) < len(ov) {
					o = ov[k]
				} else {
					return nil, false
				}
				st.events = append(st.events, fmt.Sprintf("Next#%d(overflow=%d)", k+1, o))
				return []aval{kstr(fmt.Sprintf("id#%d", k+1)), kint(o)}, true
			case "(" + pkTopics + ".PredefinedTopics).GetTopicName":
				k := st.cells["#probe"].i
				st.cells["#probe"] = kint(k + 1)
				p := int64(0)
				if int(k) < len(pre) {
					p = pre[k]
				} else {
					return nil, false
				}
				st.events = append(st.events, fmt.Sprintf("probe(%s)=%d", ex.eval(call.Call.Args[2], st, fr), p))
				return []aval{unk(), kint(p)}, true
			}
			return nil, false
		}
		cells := map[string]aval{"#next": kint(0), "#probe": kint(0)}
		// first run to learn the flag cell name
		outs := e.Explore(alloc, cells, nil)
		if flagCell != "" {
			cells[flagCell] = kint(exhausted)
			outs = e.Explore(alloc, cells, nil)
		}
		key := fmt.Sprintf("allocator[exhausted=%d,overflow=%v,predefined=%v]", exhausted, ov, pre)
		// specification
		wantID := ""
		wantSet := false
		switch {
		case exhausted == 1 && flagCell != "":
		case ov[0] == 1:
			wantSet = true
		case pre[0] == 0:
			wantID = "id#1"
		case ov[1] == 1:
			wantSet = true
		case pre[1] == 0:
			wantID = "id#2"
		default:
			continue // needs a third iteration: outside the explored bound
		}
		okc := len(outs) > 0
		detail := ""
		for _, o := range outs {
			got := ""
			if len(o.Ret) == 2 && o.Ret[1] == "nil" {
				got = o.Ret[0]
			}
			if got != wantID {
				okc = false
				detail = fmt.Sprintf("returns (%s), expected ID %q: %s", strings.Join(o.Ret, ","), wantID, strings.Join(o.Events, " ; "))
			}
			if got != "" {
				// the last probe must be of the returned id
				last := ""
				for _, ev := range o.Events {
					if strings.HasPrefix(ev, "probe(") {
						last = ev
					}
				}
				if last != "probe("+got+")=0" {
					okc = false
					detail = "the returned ID was not the one probed against the predefined topics: " + strings.Join(o.Events, " ; ")
				}
			}
			if wantSet {
				set := false
				for _, ev := range o.Events {
					if flagCell != "" && ev == "set "+flagCell+"=1" {
						set = true
					}
				}
				if !set {
					okc = false
					detail = "an overflow of the ID sequence is observed without setting the sticky exhausted flag (the next call would reuse IDs): " + strings.Join(o.Events, " ; ")
				}
			}
		}
		if flagCell == "" {
			okc = false
			detail = "the allocator has no sticky exhaustion flag: IDSequence.Next reports the overflow once and then starts over, so IDs are reused after one refused registration"
			key = "allocator:sticky-exhaustion"
		}
		if okc {
			r.ok("R3", key, c.pos(alloc.Pos()), firstOutcome(outs))
		} else {
			r.bad("R3", key, c.pos(alloc.Pos()), detail)
		}
	}
}

func checkC02(c *Ctx, r *Report) {
	m, err := c.newGwModel()
	if err != nil {
		r.undecided("R0", "gateway-model", "-", err.Error())
		return
	}
	alloc := c.allocatorWrapper()
	// R1: translation functions: have a *mqtt.PublishPacket parameter and create a *packets1.Publish
	n1 := 0
	for _, f := range c.repoFuncs("gateway") {
		hasIn := false
		for _, p := range f.Params {
			if typeIs(p.Type(), pahoPkts, "PublishPacket") {
				hasIn = true
			}
		}
		if !hasIn {
			continue
		}
		for _, obj := range objectsOfType(f, pkPackets1, "Publish") {
			call, ok := obj.(*ssa.Call)
			if !ok || calleeName(&call.Call) != pkPackets1+".NewPublish" {
				continue
			}
			n1++
			r.fn(f)
			specs := []fieldSpec{
				{Path: []string{"Data"}, Accept: acceptField(pahoPkts, "PublishPacket", "Payload")},
				{Path: []string{"QOS"}, Accept: acceptField(pahoPkts, "PublishPacket", "FixedHeader", "Qos")},
				{Path: []string{"Retain"}, Accept: acceptField(pahoPkts, "PublishPacket", "FixedHeader", "Retain")},
				{Path: []string{"DUPProperty", "dup"}, Accept: acceptField(pahoPkts, "PublishPacket", "FixedHeader", "Dup")},
				{Path: []string{"MessageIDProperty", "messageID"}, Accept: acceptField(pahoPkts, "PublishPacket", "MessageID")},
			}
			c.checkFields(r, "R1", f, obj, "snPublish", nil, specs)
		}
	}
	if n1 == 0 {
		r.undecided("R1", "broker-publish-translation", "-", "no function building a packets1.Publish from an *mqtt.PublishPacket found")
	}
	// R2/R3: explore the broker PUBLISH case
	for _, qos := range []int64{0, 1, 2} {
		for _, short := range []int64{0, 1} {
			for _, st := range []int64{stActive} {
				e := m.explorer()
				e.CallValue = func(call *ssa.Call, ex *explorer, ps *pstate, fr *frame) ([]aval, bool) {
					n := calleeName(&call.Call)
					g := staticCallee(&call.Call)
					switch {
					case n == pkPackets+".IsShortTopic":
						return []aval{kint(short)}, true
					case n == pkPackets+".EncodeShortTopic":
						return []aval{kstr("short-id")}, true
					case n == "("+pkTopics+".PredefinedTopics).GetTopicID":
						return []aval{kstr("predef-id"), unk()}, true
					case g != nil && g == alloc:
						return []aval{kstr("fresh-id"), unk()}, true
					case g != nil && fnPkgPath(g) == pkGateway && c.returnsSyncMapKey(g):
						return []aval{kstr("reg-id"), unk()}, true
					}
					return nil, false
				}
				baseInline := e.Inline
				e.Inline = func(g *ssa.Function) bool {
					if g == alloc || c.returnsSyncMapKey(g) {
						return false
					}
					return baseInline(g)
				}
				cells := map[string]aval{"state": kint(st), "type:mq": kstr("*mqtt.PublishPacket"), "f:mqtt.FixedHeader.Qos": kint(qos)}
				outs := e.Explore(m.mqDisp, cells, nil)
				key := fmt.Sprintf("broker-PUBLISH[qos=%d,short=%d]", qos, short)
				okc := len(outs) > 0
				detail := ""
				for _, o := range outs {
					sn := eventsWithPrefix(o, "sn:")
					setID := ""
					for _, ev := range o.Events {
						if strings.HasPrefix(ev, "set f:packets1.Publish.TopicID=") {
							setID = strings.TrimPrefix(ev, "set f:packets1.Publish.TopicID=")
						}
					}
					for _, ev := range sn {
						switch {
						case strings.Contains(ev, "NewPublish("):
							args := strings.Split(strings.TrimSuffix(strings.SplitN(ev, "NewPublish(", 2)[1], ")}"), ",")
							if len(args) != 6 {
								okc, detail = false, "cannot read the constructor arguments: "+ev
								continue
							}
							id, tit := args[0], args[5]
							if setID != "" {
								id = setID
							}
							pair := id + "/" + tit
							switch pair {
							case "short-id/2", "reg-id/0", "predef-id/1":
								if (pair == "short-id/2") != (short == 1) {
									okc, detail = false, "short-topic encoding used for a name that is not 2 bytes long (or vice versa): "+ev
								}
							default:
								okc, detail = false, "PUBLISH sent with a (topic ID, type) pair the client cannot resolve: "+pair+" in "+strings.Join(o.Events, " ; ")
							}
						case strings.Contains(ev, "NewRegister("):
							if !strings.Contains(ev, "NewRegister(fresh-id,") {
								okc, detail = false, "REGISTER does not carry the fresh topic ID: "+ev
							}
							if len(sn) != 1 {
								okc, detail = false, "on the needs-register path something besides the REGISTER is sent before the REGACK: "+strings.Join(sn, " ; ")
							}
							if setID != "fresh-id" {
								okc, detail = false, "the pending PUBLISH is not given the fresh topic ID (has "+setID+")"
							}
						default:
							if !strings.Contains(ev, "Publish") && !strings.Contains(ev, "Register") {
								okc, detail = false, "unexpected packet sent for a broker PUBLISH: "+ev
							}
						}
					}
				}
				if okc {
					r.ok("R2", key, c.pos(m.mqDisp.Pos()), fmt.Sprintf("%d paths, e.g. %s", len(outs), firstOutcome(outs)))
				} else {
					r.bad("R2", key, c.pos(m.mqDisp.Pos()), detail)
				}
			}
		}
	}
	// R3: REGACK continuation
	c.checkRegackContinuation(r, m)
	// REGISTER carries the broker's topic name
	for _, f := range c.repoFuncs("gateway") {
		allInstrs(f, func(i ssa.Instruction) {
			call, ok := i.(*ssa.Call)
			if !ok || calleeName(&call.Call) != pkPackets1+".NewRegister" {
				return
			}
			key := fnKey(f) + ":REGISTER.TopicName"
			r.cond(c.valueIsField(call.Call.Args[1], pahoPkts, "PublishPacket", "TopicName"), "R3", key, c.instrPos(i),
				"REGISTER names the broker's topic", "the REGISTER sent to the client does not carry the broker PUBLISH's topic name")
		})
	}
	c.checkRegisteredMapWriters(r, "R4")
	// R5: the REGISTER preceding a QoS 0 PUBLISH needs a message ID that is not in use
	c.checkFreeIDSearch(r, "R5", "gateway")
}

// returnsSyncMapKey: function whose first result is assigned from the key of a
// sync.Map.Range callback (lookup of an ID by name in the registered map).
func (c *Ctx) returnsSyncMapKey(g *ssa.Function) bool {
	if g == nil || g.Blocks == nil || fnPkgPath(g) != pkGateway {
		return false
	}
	found := false
	allInstrs(g, func(i ssa.Instruction) {
		if ci, ok := i.(ssa.CallInstruction); ok && calleeName(ci.Common()) == "(*sync.Map).Range" {
			found = true
		}
	})
	return found && g.Signature.Results().Len() == 2
}

func (c *Ctx) checkRegackContinuation(r *Report, m *gwModel) {
	// state cell of the retry transaction, as used by the REGACK handlers
	stateCell := "f:transactions.RetryTransaction.State"
	for _, txType := range []string{c.gwBrokerPub0Tx(), c.gwBrokerPub1Tx(), c.gwBrokerPub2Tx()} {
		for _, rc := range []int64{0, 1, 2, 3} {
			for _, inState := range []int64{0, 1} {
				e := m.explorer()
				// the transaction state is an interface holding a constant: awaitingRegack == 1
				stVal := int64(1)
				if inState == 0 {
					stVal = 2
				}
				cells := map[string]aval{"state": kint(stActive), "type:sn": kstr("*packets1.Regack"), "type:tx": kstr(txType),
					"f:packets1.Regack.ReturnCode": kint(rc), stateCell: kint(stVal)}
				base := e.CellOf
				e.CellOf = func(v ssa.Value, fr *frame) (string, bool) {
					// t.State is an interface: comparisons are on the interface value; evaluate the MakeInterface constant
					return base(v, fr)
				}
				outs := e.Explore(m.snDisp, cells, nil)
				key := fmt.Sprintf("REGACK[%s,rc=%d,awaiting-regack=%d]", strings.TrimPrefix(txType, "*gateway."), rc, inState)
				okc := len(outs) > 0
				detail := ""
				handled := false
				for _, o := range outs {
					stores := eventsWithPrefix(o, "syncmap.Store")
					sends := eventsWithPrefix(o, "sn:")
					if hasEventPrefix(o, "store.Get") && len(o.Events) > 1 {
						handled = true
					}
					if rc == 0 && inState == 1 {
						if len(sends) > 0 {
							// the store must precede the send
							si, pi := -1, -1
							for k, ev := range o.Events {
								if strings.HasPrefix(ev, "syncmap.Store") && si < 0 {
									si = k
								}
								if strings.HasPrefix(ev, "sn:") && pi < 0 {
									pi = k
								}
							}
							if si < 0 || si > pi {
								okc, detail = false, "the PUBLISH is sent before the (ID -> name) mapping of the REGISTER is recorded: "+strings.Join(o.Events, " ; ")
							}
						}
					} else {
						if len(stores) > 0 || len(sends) > 0 {
							okc, detail = false, "a rejected or out-of-turn REGACK still records the topic or sends the PUBLISH: "+strings.Join(o.Events, " ; ")
						}
					}
				}
				_ = handled
				if okc {
					r.ok("R3", key, c.pos(m.snDisp.Pos()), firstOutcome(outs))
				} else {
					r.bad("R3", key, c.pos(m.snDisp.Pos()), detail)
				}
			}
		}
	}
}

// checkAllocatorErrorDiscipline (C04-R8): "refused rather than served" on exhaustion. At every call of the allocator
// wrapper - and of every gateway function that returns (uint16, error) by passing on an allocating call - the ID result
// is used only where the error of that very call is known to be nil (a nil comparison on every path), or as the
// argument of a reply constructor whose return-code argument is a non-accepted constant on every path on which the
// error may be non-nil. A test that recognises only some errors (errors.Is, a type switch) leaves an accepted reply
// with the zero ID for the others.
func (c *Ctx) checkAllocatorErrorDiscipline(r *Report, alloc *ssa.Function) {
	allocating := map[*ssa.Function]bool{alloc: true}
	for changed := true; changed; {
		changed = false
		for _, f := range c.repoFuncs("gateway") {
			if allocating[f] || f.Signature.Results().Len() != 2 {
				continue
			}
			if b, ok := f.Signature.Results().At(0).Type().Underlying().(*types.Basic); !ok || b.Kind() != types.Uint16 {
				continue
			}
			allInstrs(f, func(i ssa.Instruction) {
				if ci, ok := i.(ssa.CallInstruction); ok && allocating[staticCallee(ci.Common())] {
					if !allocating[f] {
						allocating[f] = true
						changed = true
					}
				}
			})
		}
	}
	nilGuard := func(gs []Guard, e ssa.Value) bool {
		for _, g := range gs {
			x, y, op, ok := cmpGuard(g)
			if ok && op == token.EQL && ((x == e && isNilConst(y)) || (y == e && isNilConst(x))) {
				return true
			}
		}
		return false
	}
	n := 0
	for _, f := range c.repoFuncs("gateway") {
		allInstrs(f, func(i ssa.Instruction) {
			call, ok := i.(*ssa.Call)
			if !ok || !allocating[staticCallee(&call.Call)] || call.Referrers() == nil {
				return
			}
			var idv, errv ssa.Value
			for _, u := range *call.Referrers() {
				if ex, ok := u.(*ssa.Extract); ok {
					if ex.Index == 0 {
						idv = ex
					} else {
						errv = ex
					}
				}
			}
			n++
			r.fn(f)
			key := fmt.Sprintf("%s:id-of(%s)-used-only-on-nil-error", fnKey(f), staticCallee(&call.Call).Name())
			if idv == nil {
				r.ok("R8", key, c.instrPos(i), "the ID result is not used")
				return
			}
			if errv == nil {
				r.bad("R8", key, c.instrPos(i), "the error of the topic-ID allocation is discarded and the ID used: on exhaustion the zero ID is served as if it were a fresh one")
				return
			}
			bad := ""
			var visit func(v ssa.Value, d int)
			seen := map[ssa.Value]bool{}
			visit = func(v ssa.Value, d int) {
				if seen[v] || v.Referrers() == nil || d > 4 {
					return
				}
				seen[v] = true
				for _, u := range *v.Referrers() {
					switch x := u.(type) {
					case *ssa.DebugRef:
						continue
					case *ssa.Phi:
						for k, e := range x.Edges {
							if e == v && !nilGuard(guardsOfEdge(x.Block().Preds[k], x.Block()), errv) {
								bad = c.instrPos(u) + ": the ID flows on although the error was not tested for nil on this path"
							}
						}
						continue
					}
					if nilGuard(guardsOf(u.Block()), errv) {
						continue
					}
					// not under err == nil: only a refusing reply may take it
					if cu, ok := u.(ssa.CallInstruction); ok {
						if g := staticCallee(cu.Common()); g != nil && fnPkgPath(g) == pkPackets1 {
							rcOK := false
							ps := g.Signature.Params()
							for k := 0; k < ps.Len() && k < len(cu.Common().Args); k++ {
								nt, isN := ps.At(k).Type().(*types.Named)
								if !isN || nt.Obj().Name() != "ReturnCode" {
									continue
								}
								rcOK = true
								var chk func(rc ssa.Value, d int)
								chk = func(rc ssa.Value, d int) {
									if kk, isC := constInt(rc); isC {
										if kk == 0 {
											rcOK = false
										}
										return
									}
									if ph, isP := rc.(*ssa.Phi); isP && d < 3 {
										for ei, ev := range ph.Edges {
											if kk, isC := constInt(ev); isC && kk == 0 {
												if !nilGuard(guardsOfEdge(ph.Block().Preds[ei], ph.Block()), errv) {
													rcOK = false
												}
												continue
											}
											chk(ev, d+1)
										}
										return
									}
									rcOK = false
								}
								chk(cu.Common().Args[k], 0)
							}
							if rcOK {
								continue
							}
							bad = c.instrPos(u) + ": a reply is built from the ID with return code 'accepted' on a path on which the allocation error was not compared with nil (any error the test does not recognise yields an accepted reply with ID 0)"
							continue
						}
					}
					if _, isRet := u.(*ssa.Return); isRet {
						bad = c.instrPos(u) + ": the ID is returned on a path on which the error was not tested for nil"
						continue
					}
					bad = c.instrPos(u) + ": the ID is used (" + u.String() + ") on a path on which the allocation error was not compared with nil"
				}
			}
			visit(idv, 0)
			r.cond(bad == "", "R8", key, c.instrPos(i), "every use of the ID is under 'error == nil' of this call, or a reply whose return code is a refusal whenever the error may be non-nil", bad)
		})
	}
	if n == 0 {
		r.undecided("R8", "allocator-calls", "-", "no call of the topic-ID allocator found")
	}
}
