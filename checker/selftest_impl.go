package main

func runSelfValidation(prop, repo, verif string, extra map[string]interface{}) {}
