package main

import (
	"bytes"
	"fmt"
	"io"
	"os"
	"os/exec"
	"path/filepath"
	"sort"
	"strings"
	"sync"
)

// Thorough tier: checker self-validation. Every breaking patch filed for this
// property - /verif/mutants/<id>/*.patch (written while building the rules) and
// /verif/seeded/<id>?/patch.diff (written by independent sub-agents from the
// property text alone) - is applied to a scratch copy of the CURRENT tree, the
// property's rules are re-run on it in a child process (quick tier), and the
// result is recorded: detected / missed / skipped (patch no longer applies or
// the patched tree does not build). The outcome goes into the evidence
// (coverage.selftest); it never changes the verdict on /repo itself: a patch
// that stopped applying because /repo was edited is not a property violation.
// Scratch copies live under os.TempDir() and are removed immediately.
func runSelfValidation(prop, repo, verif string, extra map[string]interface{}) {
	type item struct{ name, path string }
	var items []item
	if ms, _ := filepath.Glob(filepath.Join(verif, "mutants", prop, "*.patch")); ms != nil {
		for _, p := range ms {
			items = append(items, item{"mutants/" + prop + "/" + filepath.Base(p), p})
		}
	}
	if ms, _ := filepath.Glob(filepath.Join(verif, "seeded", prop+"?", "patch.diff")); ms != nil {
		for _, p := range ms {
			items = append(items, item{"seeded/" + filepath.Base(filepath.Dir(p)), p})
		}
	}
	sort.Slice(items, func(i, j int) bool { return items[i].name < items[j].name })
	type res struct {
		Name   string   `json:"patch"`
		Status string   `json:"status"`
		Rules  []string `json:"rules_fired,omitempty"`
		Detail string   `json:"detail,omitempty"`
	}
	results := make([]res, len(items))
	self, _ := os.Executable()
	sem := make(chan struct{}, 6)
	var wg sync.WaitGroup
	for k, it := range items {
		wg.Add(1)
		go func(k int, it item) {
			defer wg.Done()
			sem <- struct{}{}
			defer func() { <-sem }()
			results[k] = res{Name: it.name}
			d, err := os.MkdirTemp("", "bisq-selftest-")
			if err != nil {
				results[k].Status, results[k].Detail = "skipped", err.Error()
				return
			}
			defer os.RemoveAll(d)
			if err := copyTree(repo, filepath.Join(d, "repo")); err != nil {
				results[k].Status, results[k].Detail = "skipped", "copy: "+err.Error()
				return
			}
			os.MkdirAll(filepath.Join(d, "verif"), 0o755)
			if b, err := os.ReadFile(filepath.Join(verif, "known_findings.json")); err == nil {
				os.WriteFile(filepath.Join(d, "verif", "known_findings.json"), b, 0o644)
			}
			patch, _ := os.ReadFile(it.path)
			cmd := exec.Command("patch", "-p1", "-s", "--no-backup-if-mismatch")
			cmd.Dir = filepath.Join(d, "repo")
			cmd.Stdin = bytes.NewReader(patch)
			if out, err := cmd.CombinedOutput(); err != nil {
				results[k].Status, results[k].Detail = "skipped", "patch does not apply to the current tree: "+firstLine(string(out))
				return
			}
			build := exec.Command("go", "build", "./...")
			build.Dir = filepath.Join(d, "repo")
			build.Env = append(os.Environ(), "GOFLAGS=-mod=mod", "GOPROXY=off", "GOSUMDB=off", "GOTOOLCHAIN=local", "GOWORK=off")
			if out, err := build.CombinedOutput(); err != nil {
				results[k].Status, results[k].Detail = "skipped", "patched tree does not build: "+firstLine(string(out))
				return
			}
			run := exec.Command(self, "-property", prop, "-tier", "quick", "-repo", filepath.Join(d, "repo"), "-verif", filepath.Join(d, "verif"))
			out, _ := run.CombinedOutput()
			rules := map[string]bool{}
			for _, line := range strings.Split(string(out), "\n") {
				for _, tag := range []string{": VIOLATION ", ": UNDECIDED "} {
					if i := strings.Index(line, tag); i >= 0 {
						rest := line[i+len(tag):]
						if j := strings.Index(rest, " "); j > 0 {
							rules[rest[:j]] = true
						}
					}
				}
			}
			if len(rules) > 0 {
				results[k].Status = "detected"
				results[k].Rules = sortedKeys(rules)
			} else {
				results[k].Status = "missed"
			}
		}(k, it)
	}
	wg.Wait()
	det, miss, skip := 0, 0, 0
	for _, r := range results {
		switch r.Status {
		case "detected":
			det++
		case "missed":
			miss++
		default:
			skip++
		}
	}
	extra["selftest"] = map[string]interface{}{
		"what":     "breaking patches for this property applied one at a time to scratch copies of the current tree; the property's rules re-run on each (child process, quick tier)",
		"patches":  len(items),
		"detected": det,
		"missed":   miss,
		"skipped":  skip,
		"results":  results,
	}
	fmt.Printf("%s self-validation: %d patches, %d detected, %d missed, %d skipped\n", prop, len(items), det, miss, skip)
}

func firstLine(s string) string {
	s = strings.TrimSpace(s)
	if i := strings.Index(s, "\n"); i >= 0 {
		s = s[:i]
	}
	if len(s) > 200 {
		s = s[:200]
	}
	return s
}

func copyTree(src, dst string) error {
	return filepath.Walk(src, func(p string, info os.FileInfo, err error) error {
		if err != nil {
			return err
		}
		rel, _ := filepath.Rel(src, p)
		if rel == ".git" || strings.HasPrefix(rel, ".git"+string(filepath.Separator)) {
			if info.IsDir() {
				return filepath.SkipDir
			}
			return nil
		}
		target := filepath.Join(dst, rel)
		if info.IsDir() {
			return os.MkdirAll(target, 0o755)
		}
		if !info.Mode().IsRegular() {
			return nil
		}
		in, err := os.Open(p)
		if err != nil {
			return err
		}
		defer in.Close()
		out, err := os.OpenFile(target, os.O_CREATE|os.O_WRONLY|os.O_TRUNC, info.Mode().Perm())
		if err != nil {
			return err
		}
		defer out.Close()
		_, err = io.Copy(out, in)
		return err
	})
}
