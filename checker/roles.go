package main

import (
	"fmt"
	"go/token"
	"go/types"
	"sort"
	"strings"

	"golang.org/x/tools/go/ssa"
)

const (
	pkPackets  = modPath + "/packets"
	pkPackets1 = modPath + "/packets1"
	pkTopics   = modPath + "/topics"
	pkTrans    = modPath + "/transactions"
	pkUtil     = modPath + "/util"
	pkGateway  = modPath + "/gateway"
	pkClient   = modPath + "/client"
)

// Roles (DESIGN 2.1): functions are found by what they do, not by name.

// snSenders: functions of the package with a parameter of interface type
// packets.Packet on which Pack() is invoked.
func (c *Ctx) snSenders(rel string) map[*ssa.Function]bool {
	out := map[*ssa.Function]bool{}
	for _, f := range c.repoFuncs(rel) {
		for _, p := range f.Params {
			if !typeIs(p.Type(), pkPackets, "Packet") {
				continue
			}
			if _, ok := p.Type().Underlying().(*types.Interface); !ok {
				continue
			}
			allInstrs(f, func(i ssa.Instruction) {
				if ci, ok := i.(ssa.CallInstruction); ok {
					cc := ci.Common()
					if cc.IsInvoke() && cc.Method.Name() == "Pack" && cc.Value == p {
						out[f] = true
					}
				}
			})
		}
	}
	return out
}

// mqttSenders: functions with a parameter of type paho ControlPacket on which
// Write(io.Writer) is invoked.
func (c *Ctx) mqttSenders(rel string) map[*ssa.Function]bool {
	out := map[*ssa.Function]bool{}
	for _, f := range c.repoFuncs(rel) {
		for _, p := range f.Params {
			if !typeIs(p.Type(), pahoPkts, "ControlPacket") {
				continue
			}
			allInstrs(f, func(i ssa.Instruction) {
				if ci, ok := i.(ssa.CallInstruction); ok {
					cc := ci.Common()
					if cc.IsInvoke() && cc.Method.Name() == "Write" && cc.Value == p {
						out[f] = true
					}
				}
			})
		}
	}
	return out
}

type sendSite struct {
	Fn     *ssa.Function // function containing the call
	Call   ssa.CallInstruction
	Sender *ssa.Function
	Arg    ssa.Value // the packet argument
}

// sendSites lists all calls to a sender role function.
func (c *Ctx) sendSites(rel string, senders map[*ssa.Function]bool) []sendSite {
	var out []sendSite
	for _, f := range c.repoFuncs(rel) {
		allInstrs(f, func(i ssa.Instruction) {
			ci, ok := i.(ssa.CallInstruction)
			if !ok {
				return
			}
			g := staticCallee(ci.Common())
			if g == nil || !senders[g] {
				return
			}
			// packet argument: the parameter of interface type
			for k, p := range g.Params {
				if typeIs(p.Type(), pkPackets, "Packet") || typeIs(p.Type(), pahoPkts, "ControlPacket") {
					if k < len(ci.Common().Args) {
						out = append(out, sendSite{f, ci, g, ci.Common().Args[k]})
					}
				}
			}
		})
	}
	return out
}

// concreteTypesOf returns the dynamic types a (possibly interface) value can
// have according to local dataflow: MakeInterface / phi / type assertions /
// calls to repo functions whose returns are traced. "?" marks unknown.
func (c *Ctx) concreteTypesOf(v ssa.Value) []string {
	set := map[string]bool{}
	seen := map[ssa.Value]bool{}
	var rec func(v ssa.Value, d int)
	rec = func(v ssa.Value, d int) {
		if seen[v] || d > 6 {
			return
		}
		seen[v] = true
		if _, isIface := v.Type().Underlying().(*types.Interface); !isIface {
			set[typeStr(v.Type())] = true
			return
		}
		switch x := v.(type) {
		case *ssa.MakeInterface:
			set[typeStr(x.X.Type())] = true
		case *ssa.Phi:
			for _, e := range x.Edges {
				rec(e, d+1)
			}
		case *ssa.ChangeInterface:
			rec(x.X, d+1)
		case *ssa.TypeAssert:
			rec(x.X, d+1)
		case *ssa.Const:
			if x.Value == nil {
				set["nil"] = true
			}
		default:
			set["?"+exprStr(v)] = true
		}
	}
	rec(v, 0)
	return sortedKeys(set)
}

// feasibleValues evaluates comparison guards between a target expression and
// integer constants over a finite domain: it returns the domain values that
// satisfy all such guards (guards on other expressions are ignored).
func feasibleValues(gs []Guard, isTarget func(ssa.Value) bool, domain []int64) []int64 {
	var out []int64
	for _, v := range domain {
		ok := true
		for _, g := range gs {
			x, y, op, isCmp := cmpGuard(g)
			if !isCmp {
				continue
			}
			var k int64
			var have bool
			if isTarget(x) {
				k, have = constInt(y)
			} else if isTarget(y) {
				k, have = constInt(x)
				// flip operator
				switch op {
				case token.LSS:
					op = token.GTR
				case token.LEQ:
					op = token.GEQ
				case token.GTR:
					op = token.LSS
				case token.GEQ:
					op = token.LEQ
				}
			}
			if !have {
				continue
			}
			var sat bool
			switch op {
			case token.EQL:
				sat = v == k
			case token.NEQ:
				sat = v != k
			case token.LSS:
				sat = v < k
			case token.LEQ:
				sat = v <= k
			case token.GTR:
				sat = v > k
			case token.GEQ:
				sat = v >= k
			}
			if !sat {
				ok = false
				break
			}
		}
		if ok {
			out = append(out, v)
		}
	}
	return out
}

// isFieldOfParam returns a predicate recognising loads of <param of type
// pkg.name>.<path> (through getters as well).
func (c *Ctx) isFieldOf(pkgpath, tname string, path ...string) func(ssa.Value) bool {
	want := strings.Join(path, ".")
	return func(v ssa.Value) bool {
		os := c.origins(v)
		if len(os) != 1 {
			return false
		}
		o := os[0]
		if o.Kind != "param" && o.Kind != "freevar" {
			return false
		}
		return typeIs(o.RootType(), pkgpath, tname) && o.PathStr() == want
	}
}

func originIsField(o Origin, pkgpath, tname string, path ...string) bool {
	if o.Kind != "param" && o.Kind != "freevar" {
		return false
	}
	if o.Sliced {
		return false // only a part of the field
	}
	return typeIs(o.RootType(), pkgpath, tname) && o.PathStr() == strings.Join(path, ".")
}

func guardOK(gs []Guard, ok ssa.Value) bool {
	for _, g := range gs {
		if g.Cond == ok && g.Truth {
			return true
		}
	}
	return false
}

// okResultOf returns the Extract #idx values of a tuple-returning call.
func extractOf(call ssa.Value, idx int) []ssa.Value {
	var out []ssa.Value
	refs := call.Referrers()
	if refs == nil {
		return nil
	}
	for _, r := range *refs {
		if e, ok := r.(*ssa.Extract); ok && e.Index == idx {
			out = append(out, e)
		}
	}
	return out
}

// guardedByOK: some guard asserts the comma-ok (#idx) result of `call` is true.
func guardedByOK(gs []Guard, call ssa.Value, idx int) bool {
	for _, e := range extractOf(call, idx) {
		if guardOK(gs, e) {
			return true
		}
	}
	return false
}

func int64s(vs []int64) string {
	return fmt.Sprint(vs)
}

func subsetOf(a []int64, b ...int64) bool {
	for _, x := range a {
		f := false
		for _, y := range b {
			if x == y {
				f = true
			}
		}
		if !f {
			return false
		}
	}
	return true
}

// objectsOfType finds, in function f, values that denote a freshly created
// object of the given pointer-to-named type: Alloc (composite literal / new),
// or a type assertion / call result of that type.
func objectsOfType(f *ssa.Function, pkgpath, tname string) []ssa.Value {
	var out []ssa.Value
	allInstrs(f, func(i ssa.Instruction) {
		v, ok := i.(ssa.Value)
		if !ok {
			return
		}
		pt, isPtr := v.Type().(*types.Pointer)
		if !isPtr || !typeIs(pt.Elem(), pkgpath, tname) {
			return
		}
		switch x := v.(type) {
		case *ssa.Alloc:
			out = append(out, x)
		case *ssa.TypeAssert:
			if !x.CommaOk {
				// only assertions on call results (NewControlPacket(...).(*T))
				if _, isCall := x.X.(*ssa.Call); isCall {
					out = append(out, x)
				}
			}
		case *ssa.Call:
			out = append(out, x)
		}
	})
	return out
}

// flowsTo reports whether value v (or an interface made from it / a phi
// containing it) is used as `target`.
func flowsTo(v ssa.Value, target ssa.Value) bool {
	seen := map[ssa.Value]bool{}
	var rec func(t ssa.Value, d int) bool
	rec = func(t ssa.Value, d int) bool {
		if t == v {
			return true
		}
		if seen[t] || d > 8 {
			return false
		}
		seen[t] = true
		switch x := t.(type) {
		case *ssa.MakeInterface:
			return rec(x.X, d+1)
		case *ssa.ChangeInterface:
			return rec(x.X, d+1)
		case *ssa.ChangeType:
			return rec(x.X, d+1)
		case *ssa.Phi:
			for _, e := range x.Edges {
				if rec(e, d+1) {
					return true
				}
			}
		case *ssa.UnOp:
			if x.Op == token.MUL {
				if a, ok := x.X.(*ssa.Alloc); ok {
					if refs := a.Referrers(); refs != nil {
						for _, r := range *refs {
							if s, ok := r.(*ssa.Store); ok && s.Addr == a && rec(s.Val, d+1) {
								return true
							}
						}
					}
				}
			}
		}
		return false
	}
	return rec(target, 0)
}

func sortFuncs(m map[*ssa.Function]bool) []*ssa.Function {
	var out []*ssa.Function
	for f := range m {
		out = append(out, f)
	}
	sort.Slice(out, func(i, j int) bool { return out[i].Pos() < out[j].Pos() })
	return out
}

// inCycle reports whether block b can reach itself.
func inCycle(b *ssa.BasicBlock) bool {
	seen := map[*ssa.BasicBlock]bool{}
	work := append([]*ssa.BasicBlock{}, b.Succs...)
	for len(work) > 0 {
		n := work[len(work)-1]
		work = work[:len(work)-1]
		if n == b {
			return true
		}
		if seen[n] {
			continue
		}
		seen[n] = true
		work = append(work, n.Succs...)
	}
	return false
}
