package main

import (
	"fmt"
	"go/token"
	"go/types"
	"strings"

	"golang.org/x/tools/go/ssa"
)

func init() {
	register("C27", func(r *Report) {
		r.Explanation = "Decides that only matching filters' callbacks run relative to the matcher, that unsubscribe removes exactly what subscribe stored, and one full recursion step of the matcher: (R1) the callback handed to the delivery goroutine is taken from a stored handler only under match(<that handler's route>, split(<this PUBLISH's resolved topic>)) == true; QoS 0/1 messages are delivered in the PUBLISH case, QoS 2 messages only by the PUBREL handler with the PUBLISH stored by the same transaction; (R2) the route stored on SUBACK and deleted on UNSUBACK are keyed by the same function of the route, join is strings.Join(route, \"/\") and split is strings.Split(topic, \"/\") (mutual inverses on routes), and both handlers pass strings.Split(name, \"/\"); (R3) on UNSUBACK the delete precedes Success on every path and depends only on name resolution, and the store/delete helpers reach the map's Store/Delete on every path (no reference counting: one filter is one subscription); (R4) the matcher, explored over all valuations of (route empty, topic empty, first route level is '#', is '+', equals the first topic level), returns exactly the MQTT rule for one level and recurses on both tails otherwise - by structural induction on the route this is the MQTT matching relation for '/', '+' and '#'. Not decided: UTF-8 details of topic names."
		r.floor("R1", 3)
		r.floor("R2", 4)
		r.floor("R3", 1)
		r.floor("R4", 10)
	}, checkC27)
	register("C28", func(r *Report) {
		r.Explanation = "Decides absence of an unconditional wait, for all gateway behaviours: (R1) every blocking select, receive and send in package client has a case on the awaited transaction's Done() and/or on a context derived from the client's context; (R2) every function that arms or re-arms the sleep transaction's timers ends, on every non-failing path, with a timer armed or the transaction completed, and all other awaited transactions are built on NewRetryTransaction / NewTimedTransaction (self-terminating, C19); (R3) in every API method a failed send completes the transaction (or returns) before the wait; (R4) Close cancels the context on every path; (R5) no function of package client returns with a mutex still held; (R6) a completion callback frees the store slot the transaction occupies (a stale entry swallows the gateway's DISCONNECT); (R7) lock discipline in packages client, transactions and util: nothing waits (select, channel operation, Wait, or a call that may do one) while a mutex is certainly held, and no call made under a lock reaches a function that acquires the same (non-reentrant) lock. (R8) every goroutine of the client's errgroup observes the group's context (not its parent), so a failing member stops the others and Wait returns; (R9) no packet from the gateway rewinds a retry budget: each step's Proceed is reachable only in the state awaiting that packet, a repeated PUBREC/PUBACK/... is ignored (C17-R1, re-run here); (R10) a DISCONNECT from the gateway that answers no exchange of the client's own cancels the client's context on every path. Not decided: the numeric bound; user callbacks."
		r.floor("R1", 8)
		r.floor("R3", 4)
		r.floor("R4", 1)
		r.floor("R5", 3)
		r.floor("R7", 2)
		r.floor("R8", 2)
		r.floor("R6", 8)
		r.floor("R9", 6)
		r.floor("R10", 1)
	}, checkC28)
	register("C33", func(r *Report) {
		r.Explanation = "Decides gating and routing structure: (R1) in the keep-alive loop the ticker is created stopped, is stopped on every state notification and re-armed only on the edge 'received state == Active'; a tick calls the ping routine, on every path through the tick case; (R2) every write of the client's state goes through the wrapper that notifies the loop when the state changed; (R3) every (re)transmission of a keep-alive PINGREQ - including the ping transaction's retry callback - is dominated by a test that the state is Active; (R4) a PINGRESP is routed to the transaction that asked for it: with a keep-alive ping and a sleep transaction both pending, the dispatcher must be able to tell them apart. R3 and R4 are known findings today. (R5) the channel on which the receive loop announces state changes has capacity >= 1 as long as the keep-alive loop may wait, inside its tick case, for a packet only the receive loop can deliver (otherwise the two wait for each other); (R6) typestate of the sleep transaction: the state in which its PINGRESP / DISCONNECT handler accepts the reply is entered only by a step that sends the PINGREQ / DISCONNECT the reply answers, so a reply of another exchange is never taken for it, and in every other state these handlers do nothing but log (a stray reply never fails the Sleep in progress). Not decided: 'at least once per KeepAlive period' (timing), starvation of the capacity-1 notification channel."
		r.floor("R1", 3)
		r.floor("R2", 1)
		r.floor("R3", 1)
		r.floor("R4", 1)
		r.floor("R5", 1)
		r.floor("R6", 2)
	}, checkC33)
}

func (c *Ctx) clientFunc(name string) *ssa.Function {
	p := c.SSA[pkClient]
	if p == nil {
		return nil
	}
	return p.Func(name)
}

func checkC27(c *Ctx, r *Report) {
	// --- R4: matcher
	match := c.matcherFunc()
	if match == nil {
		r.undecided("R4", "matcher", "-", "no recursive (or level-by-level looping) func([]string, []string) bool found in package client")
	} else {
		r.fn(match)
		for mask := 0; mask < 32; mask++ {
			lr, lt := int64(mask&1), int64(mask>>1&1) // 1 = non-empty
			isHash, isPlus, eq := int64(mask>>2&1), int64(mask>>3&1), int64(mask>>4&1)
			if isHash == 1 && isPlus == 1 {
				continue
			}
			if lr == 0 && (isHash+isPlus+eq) > 0 {
				continue
			}
			if lt == 0 && eq == 1 {
				continue
			}
			route, topic := match.Params[0], match.Params[1]
			hdr, phiR, phiT := matcherLoop(match)
			// "the current route / topic": the parameter, or (iterative form) the loop-carried slice
			isCur := func(v ssa.Value, p *ssa.Parameter) bool {
				if v == ssa.Value(p) {
					return true
				}
				if p == route && phiR != nil && v == ssa.Value(phiR) {
					return true
				}
				if p == topic && phiT != nil && v == ssa.Value(phiT) {
					return true
				}
				return false
			}
			e := &explorer{c: c, MaxDepth: 1}
			e.Inline = func(*ssa.Function) bool { return false }
			oob := ""
			if hdr != nil {
				// one iteration: re-entering the header over the back edge is "continue with both tails" when both
				// loop-carried slices are re-sliced [1:]
				e.BlockHook = func(b, prev *ssa.BasicBlock, st *pstate, fr *frame) ([]aval, bool) {
					if b != hdr || prev == nil || !hdr.Dominates(prev) {
						return nil, false
					}
					okTails := true
					for pi, pb := range hdr.Preds {
						if pb != prev {
							continue
						}
						for _, ph := range []*ssa.Phi{phiR, phiT} {
							sl, ok := ph.Edges[pi].(*ssa.Slice)
							if !ok || sl.X != ssa.Value(ph) || sl.High != nil {
								okTails = false
								continue
							}
							if lo, ok := constInt(sl.Low); !ok || lo != 1 {
								okTails = false
							}
							l := lr
							if ph == phiT {
								l = lt
							}
							if l == 0 {
								oob = "continues with [1:] of an empty slice (panics)"
							}
						}
					}
					if okTails {
						st.events = append(st.events, "recurse(tails)")
						return []aval{kstr("REC")}, true
					}
					st.events = append(st.events, "recurse(other)")
					return []aval{kstr("REC?")}, true
				}
			}
			isElem0 := func(v ssa.Value, p *ssa.Parameter) bool {
				u, ok := v.(*ssa.UnOp)
				if !ok || u.Op != token.MUL {
					return false
				}
				ia, ok := u.X.(*ssa.IndexAddr)
				if !ok || !isCur(ia.X, p) {
					return false
				}
				k, ok := constInt(ia.Index)
				return ok && k == 0
			}
			e.ValueHook = func(v ssa.Value, ex *explorer, st *pstate, fr *frame) (aval, bool) {
				switch x := v.(type) {
				case *ssa.Call:
					if b, ok := x.Call.Value.(*ssa.Builtin); ok && b.Name() == "len" {
						if isCur(x.Call.Args[0], route) {
							return kint(lr), true
						}
						if isCur(x.Call.Args[0], topic) {
							return kint(lt), true
						}
					}
				case *ssa.BinOp:
					if x.Op != token.EQL && x.Op != token.NEQ {
						return aval{}, false
					}
					res := int64(-1)
					a, b := x.X, x.Y
					touch := func(p *ssa.Parameter, l int64) {
						if l == 0 {
							oob = "indexes element 0 of an empty " + p.Name()
						}
					}
					switch {
					case isElem0(a, route) && isElem0(b, topic), isElem0(b, route) && isElem0(a, topic):
						touch(route, lr)
						touch(topic, lt)
						res = eq
					case isElem0(a, route) || isElem0(b, route):
						touch(route, lr)
						other := b
						if isElem0(b, route) {
							other = a
						}
						if s, ok := constString(other); ok {
							switch s {
							case "#":
								res = isHash
							case "+":
								res = isPlus
							default:
								return aval{}, false
							}
						}
					}
					if res < 0 {
						return aval{}, false
					}
					if x.Op == token.NEQ {
						res = 1 - res
					}
					return kint(res), true
				case *ssa.Slice:
					// route[1:] / topic[1:]
					if p, ok := x.X.(*ssa.Parameter); ok {
						l := lr
						if p == topic {
							l = lt
						}
						if lo, ok := constInt(x.Low); ok && lo > l {
							oob = fmt.Sprintf("slices %s[%d:] of an empty slice", p.Name(), lo)
						}
					}
				}
				return aval{}, false
			}
			e.CallValue = func(call *ssa.Call, ex *explorer, st *pstate, fr *frame) ([]aval, bool) {
				if staticCallee(&call.Call) == match {
					okArgs := true
					for k, p := range []*ssa.Parameter{route, topic} {
						sl, ok := call.Call.Args[k].(*ssa.Slice)
						if !ok || sl.X != ssa.Value(p) || sl.High != nil {
							okArgs = false
							continue
						}
						if lo, ok := constInt(sl.Low); !ok || lo != 1 {
							okArgs = false
						}
						// evaluating the slice triggers the bounds note
						ex.eval(sl, st, fr)
						l := lr
						if p == topic {
							l = lt
						}
						if l == 0 {
							oob = "recurses on " + p.Name() + "[1:] of an empty slice (panics)"
						}
					}
					if okArgs {
						st.events = append(st.events, "recurse(tails)")
						return []aval{kstr("REC")}, true
					}
					st.events = append(st.events, "recurse(other)")
					return []aval{kstr("REC?")}, true
				}
				return nil, false
			}
			outs := e.Explore(match, nil, nil)
			want := ""
			switch {
			case lr == 0:
				want = fmt.Sprint(1 - lt)
			case lt == 0:
				want = fmt.Sprint(isHash)
			case isHash == 1:
				want = "1"
			case isPlus == 1 || eq == 1:
				want = "REC"
			default:
				want = "0"
			}
			key := fmt.Sprintf("match[route-empty=%d,topic-empty=%d,'#'=%d,'+'=%d,equal=%d]", 1-lr, 1-lt, isHash, isPlus, eq)
			okc := len(outs) > 0 && oob == ""
			got := []string{}
			for _, o := range outs {
				g := strings.Join(o.Ret, ",")
				got = append(got, g)
				if g != want {
					okc = false
				}
			}
			if okc {
				r.ok("R4", key, c.pos(match.Pos()), "returns "+want)
			} else if oob != "" {
				r.bad("R4", key, c.pos(match.Pos()), "the matcher "+oob)
			} else {
				r.bad("R4", key, c.pos(match.Pos()), fmt.Sprintf("the matcher returns %v, the MQTT rule gives %s", got, want))
			}
		}
	}
	// --- R1: gate
	c.checkDispatchGate(r, match)
	// --- R2/R3
	c.checkRouteKeys(r)
}

// matcherFunc: the recursive func([]string, []string) bool of package client.
func (c *Ctx) matcherFunc() *ssa.Function {
	for _, f := range c.repoFuncs("client") {
		if f.Parent() != nil || len(f.Params) != 2 || f.Signature.Results().Len() != 1 {
			continue
		}
		isStrSlice := func(t types.Type) bool {
			s, ok := t.Underlying().(*types.Slice)
			if !ok {
				return false
			}
			b, ok := s.Elem().Underlying().(*types.Basic)
			return ok && b.Kind() == types.String
		}
		if !isStrSlice(f.Params[0].Type()) || !isStrSlice(f.Params[1].Type()) {
			continue
		}
		rec := false
		allInstrs(f, func(i ssa.Instruction) {
			if ci, ok := i.(ssa.CallInstruction); ok && staticCallee(ci.Common()) == f {
				rec = true
			}
		})
		if rec {
			return f
		}
		// iterative form: a loop whose header carries both slices and whose back edge re-slices them
		if hdr, _, _ := matcherLoop(f); hdr != nil {
			return f
		}
	}
	return nil
}

// matcherLoop: the loop header of an iterative matcher and the phis that carry the current route and topic
// (phi(param, <something>) in one block, one per parameter).
func matcherLoop(f *ssa.Function) (*ssa.BasicBlock, *ssa.Phi, *ssa.Phi) {
	if len(f.Params) != 2 {
		return nil, nil, nil
	}
	for _, b := range f.Blocks {
		var pr, pt *ssa.Phi
		for _, in := range b.Instrs {
			ph, ok := in.(*ssa.Phi)
			if !ok {
				break
			}
			for _, e := range ph.Edges {
				if e == ssa.Value(f.Params[0]) {
					pr = ph
				}
				if e == ssa.Value(f.Params[1]) {
					pt = ph
				}
			}
		}
		if pr != nil && pt != nil && inCycle(b) {
			return b, pr, pt
		}
	}
	return nil, nil, nil
}

func (c *Ctx) checkDispatchGate(r *Report, match *ssa.Function) {
	n := 0
	for _, f := range c.repoFuncs("client") {
		// delivery: a `go <callback>(...)` whose callee value is loaded from a cell
		allInstrs(f, func(i ssa.Instruction) {
			g, ok := i.(*ssa.Go)
			if !ok || staticCallee(g.Common()) != nil || g.Common().IsInvoke() {
				return
			}
			n++
			r.fn(f)
			key := fnKey(f) + ":callback-gated-by-matcher"
			// the callee: load of a local cell written by a Range closure
			u, ok := g.Common().Value.(*ssa.UnOp)
			var cell *ssa.Alloc
			if ok {
				cell, _ = u.X.(*ssa.Alloc)
			}
			// the selection may live in an unexported helper that returns the selected callback
			if cell == nil {
				v := g.Common().Value
				if lu, isLoad := v.(*ssa.UnOp); isLoad {
					if a, isAlloc := lu.X.(*ssa.Alloc); isAlloc {
						v = c.storedValue(a)
					}
				}
				if call, isCall := v.(*ssa.Call); isCall {
					if h := staticCallee(&call.Call); h != nil && h.Blocks != nil && fnPkgPath(h) == pkClient && h.Object() != nil && !h.Object().Exported() {
						var cand *ssa.Alloc
						nRet, okRet := 0, true
						allInstrs(h, func(j ssa.Instruction) {
							ret, isRet := j.(*ssa.Return)
							if !isRet || len(ret.Results) != 1 {
								return
							}
							nRet++
							lu, isLoad := ret.Results[0].(*ssa.UnOp)
							if !isLoad {
								okRet = false
								return
							}
							a, isAlloc := lu.X.(*ssa.Alloc)
							if !isAlloc || (cand != nil && cand != a) {
								okRet = false
								return
							}
							cand = a
						})
						if nRet > 0 && okRet && cand != nil {
							cell = cand
							f = h
						}
					}
				}
			}
			if cell == nil {
				r.undecided("R1", key, c.instrPos(i), "cannot find the variable holding the selected callback")
				return
			}
			okAll, cnt := true, 0
			detail := ""
			for _, cl := range closuresIn(f) {
				var mc *ssa.MakeClosure
				allInstrs(f, func(j ssa.Instruction) {
					if m, ok := j.(*ssa.MakeClosure); ok && m.Fn == cl {
						mc = m
					}
				})
				if mc == nil {
					continue
				}
				for bi, b := range mc.Bindings {
					if b != ssa.Value(cell) {
						continue
					}
					fv := cl.FreeVars[bi]
					refs := fv.Referrers()
					if refs == nil {
						continue
					}
					for _, rf := range *refs {
						s, ok := rf.(*ssa.Store)
						if !ok || s.Addr != ssa.Value(fv) {
							continue
						}
						cnt++
						// value: <handler>.callback where handler = the ranged value
						vo := c.origins(s.Val)
						if len(vo) != 1 || vo[0].Kind != "param" || len(vo[0].Path) != 1 {
							okAll, detail = false, "the callback does not come from the ranged handler"
							continue
						}
						handlerParam := vo[0].Root
						gated := false
						for _, gd := range guardsOf(s.Block()) {
							call, ok := gd.Cond.(*ssa.Call)
							if !ok || !gd.Truth || match == nil || staticCallee(&call.Call) != match {
								continue
							}
							ro := c.origins(call.Call.Args[0])
							if len(ro) != 1 || ro[0].Root != handlerParam || len(ro[0].Path) != 1 {
								detail = "the matcher is applied to another handler's route"
								continue
							}
							// second argument: split of this delivery's topic
							to := c.origins(call.Call.Args[1])
							topicOK := false
							for _, o := range to {
								if o.Kind == "call" {
									topicOK = true
								}
								if o.Kind == "freevar" || o.Kind == "param" {
									topicOK = true
								}
							}
							if topicOK {
								gated = true
							}
						}
						if !gated {
							okAll = false
							if detail == "" {
								detail = "a handler's callback is selected without the matcher having returned true for its route and this topic"
							}
						}
					}
				}
			}
			// the topic passed to the matcher is split(topic parameter of f)
			if okAll && cnt > 0 {
				r.ok("R1", key, c.instrPos(i), "the delivered callback is taken from a handler only under match(handler.route, split(topic)) == true")
			} else if cnt == 0 {
				r.undecided("R1", key, c.instrPos(i), "no assignment of the callback variable found")
			} else {
				r.bad("R1", key, c.instrPos(i), detail)
			}
		})
	}
	if n == 0 {
		r.undecided("R1", "delivery", "-", "no delivery goroutine found in package client")
	}
	// QoS placement
	m, err := c.newClientModel()
	if err != nil {
		r.undecided("R1", "client-model", "-", err.Error())
		return
	}
	deliverEvent := func(e *explorer) {
		base := e.Event
		e.Event = func(i ssa.Instruction, ex *explorer, st *pstate, fr *frame) (string, bool, bool) {
			if ci, ok := i.(ssa.CallInstruction); ok {
				if g := staticCallee(ci.Common()); g != nil && fnPkgPath(g) == pkClient && g.Signature.Recv() != nil {
					hasGo := false
					allInstrs(g, func(j ssa.Instruction) {
						if _, ok := j.(*ssa.Go); ok {
							hasGo = true
						}
					})
					if hasGo && len(ci.Common().Args) >= 3 {
						return "deliver(" + exprStr(ci.Common().Args[len(ci.Common().Args)-1]) + ")", true, true
					}
				}
			}
			return base(i, ex, st, fr)
		}
	}
	for _, q := range []int64{0, 1, 2} {
		e := m.clientExplorer()
		deliverEvent(e)
		outs := e.Explore(m.snDisp, map[string]aval{"type:sn": kstr("*packets1.Publish"), "f:packets1.Publish.QOS": kint(q), "type:tx": kstr("none")}, nil)
		key := fmt.Sprintf("PUBLISH[qos=%d]:delivery", q)
		okc := len(outs) > 0
		any := false
		for _, o := range outs {
			d := hasEventPrefix(o, "deliver(")
			any = any || d
			if q == 2 && d {
				okc = false
			}
		}
		if q < 2 && !any {
			okc = false
		}
		r.cond(okc, "R1", key, c.pos(m.snDisp.Pos()), firstOutcome(outs), "QoS 0/1 messages must be delivered on receipt and QoS 2 messages must not (they are delivered on PUBREL)")
	}
	e := m.clientExplorer()
	deliverEvent(e)
	outs := e.Explore(m.snDisp, map[string]aval{"type:sn": kstr("*packets1.Pubrel"), "type:tx": kstr(c.clBrokerPub2Tx())}, nil)
	okc := false
	for _, o := range outs {
		for _, ev := range eventsWithPrefix(o, "deliver(") {
			if strings.Contains(ev, "publish") {
				okc = true
			}
		}
	}
	r.cond(okc, "R1", "PUBREL:delivery", c.pos(m.snDisp.Pos()), "QoS 2 message delivered by the PUBREL handler with the PUBLISH stored by the transaction", "the PUBREL handler does not deliver the stored QoS 2 PUBLISH")
}

// checkRouteKeys: R2/R3 of C27.
func (c *Ctx) checkRouteKeys(r *Report) {
	// join / split helpers: functions of package client wrapping strings.Join / strings.Split
	sepOf := func(f *ssa.Function, lib string) (string, bool) {
		var sep string
		ok := false
		n := 0
		allInstrs(f, func(i ssa.Instruction) {
			if ci, isCall := i.(ssa.CallInstruction); isCall {
				if _, isB := ci.Common().Value.(*ssa.Builtin); isB {
					return
				}
				n++
				if calleeName(ci.Common()) == lib && ci.Common().Args[0] == ssa.Value(f.Params[0]) {
					if s, isStr := constString(ci.Common().Args[1]); isStr {
						sep, ok = s, true
					}
				}
			}
		})
		return sep, ok && n == 1
	}
	var storeFn, deleteFn *ssa.Function
	for _, f := range c.repoFuncs("client") {
		if f.Signature.Recv() == nil {
			continue
		}
		allInstrs(f, func(i ssa.Instruction) {
			if ci, ok := i.(ssa.CallInstruction); ok {
				switch calleeName(ci.Common()) {
				case "(*sync.Map).Store":
					storeFn = f
				case "(*sync.Map).Delete":
					deleteFn = f
				}
			}
		})
	}
	if storeFn == nil || deleteFn == nil {
		r.undecided("R2", "handler-map", "-", "store/delete on the handler map not found")
		return
	}
	r.fn(storeFn)
	r.fn(deleteFn)
	// the key expression: strings.Join(route, sep) written in place or wrapped in a helper of the package
	keyFn := func(f *ssa.Function, lib string) (id, sep string, arg ssa.Value, pos ssa.Instruction) {
		allInstrs(f, func(i ssa.Instruction) {
			ci, ok := i.(ssa.CallInstruction)
			if !ok || calleeName(ci.Common()) != lib {
				return
			}
			mi, ok := ci.Common().Args[1].(*ssa.MakeInterface)
			if !ok {
				return
			}
			kc, ok := mi.X.(*ssa.Call)
			if !ok || len(kc.Call.Args) == 0 {
				return
			}
			pos = i
			arg = kc.Call.Args[0]
			if calleeName(&kc.Call) == "strings.Join" && len(kc.Call.Args) == 2 {
				id = "strings.Join"
				sep, _ = constString(kc.Call.Args[1])
				return
			}
			if g := staticCallee(&kc.Call); g != nil && g.Blocks != nil {
				r.fn(g)
				if sp, ok := sepOf(g, "strings.Join"); ok {
					id, sep = "strings.Join", sp
				} else {
					id = fnKey(g)
				}
			}
		})
		return
	}
	ki, ssep, sa, spos := keyFn(storeFn, "(*sync.Map).Store")
	di, dsep, da, _ := keyFn(deleteFn, "(*sync.Map).Delete")
	sameKey := ki != "" && ki == di && ssep == dsep && sa == ssa.Value(storeFn.Params[1]) && da == ssa.Value(deleteFn.Params[1])
	r.cond(sameKey, "R2", "handler-map:key-function", c.pos(storeFn.Pos()), "store and delete key the map with the same function of their route argument", "store and delete compute the handler-map key differently: an unsubscribe does not remove what subscribe stored")
	if ki != "" {
		p := c.pos(storeFn.Pos())
		if spos != nil {
			p = c.instrPos(spos)
		}
		r.cond(ki == "strings.Join" && ssep == "/", "R2", "handler-map:key-is-strings.Join", p, "key = strings.Join(route, \"/\") (injective on routes produced by strings.Split(name, \"/\"))", "the handler-map key is not strings.Join(route, \"/\"): different filters (e.g. with empty levels) can collapse to one key and overwrite / delete each other")
	}
	// the helpers do what they are named after on every path: one filter is one subscription, however often it was
	// subscribed - a repeated SUBSCRIBE replaces the handler, one successful UNSUBSCRIBE removes it
	for _, hp := range []struct {
		f    *ssa.Function
		call string
		what string
	}{{storeFn, "(*sync.Map).Store", "stores the handler"}, {deleteFn, "(*sync.Map).Delete", "removes the handler"}} {
		var site ssa.Instruction
		allInstrs(hp.f, func(i ssa.Instruction) {
			if ci, ok := i.(ssa.CallInstruction); ok && calleeName(ci.Common()) == hp.call {
				site = i
			}
		})
		key := fnKey(hp.f) + ":unconditional"
		if site == nil {
			continue
		}
		skip, at := pathExists(hp.f, nil, func(x ssa.Instruction) bool { _, ok := x.(*ssa.Return); return ok }, func(x ssa.Instruction) bool {
			ci, ok := x.(ssa.CallInstruction)
			return ok && calleeName(ci.Common()) == hp.call
		})
		p := c.instrPos(site)
		if skip && at != nil {
			p = c.instrPos(at)
		}
		r.cond(!skip, "R3", key, p, "every path through the helper "+hp.what, "a path through the helper returns without "+hp.call+": "+map[bool]string{true: "a successful Unsubscribe leaves the filter's callback installed (e.g. when the filter was subscribed more than once) and later matching messages still invoke it", false: "a successful Subscribe does not install the callback"}[hp.f == deleteFn])
	}
	// stored handler keeps the same route it is keyed by
	routeStored := false
	allInstrs(storeFn, func(i ssa.Instruction) {
		if s, ok := i.(*ssa.Store); ok && s.Val == ssa.Value(storeFn.Params[1]) {
			if _, ok := s.Addr.(*ssa.FieldAddr); ok {
				routeStored = true
			}
		}
	})
	r.cond(routeStored, "R2", fnKey(storeFn)+":stores-route", c.pos(storeFn.Pos()), "the handler records the route it is keyed by", "the stored handler does not record the route argument")
	// callers pass strings.Split(name, "/")
	nameSources := map[*ssa.Function]map[string]bool{}
	defer func() {
		ss, ds := sortedKeys(nameSources[storeFn]), sortedKeys(nameSources[deleteFn])
		same := len(ss) > 0 && strings.Join(ss, ",") == strings.Join(ds, ",")
		r.cond(same, "R2", "handler-map:store-and-delete-split-the-same-resolved-name", c.pos(deleteFn.Pos()), "both sides split the name resolved the same way ("+strings.Join(ss, ", ")+")",
			"subscribe stores the handler under the name resolved from {"+strings.Join(ss, ", ")+"} but unsubscribe deletes under the name from {"+strings.Join(ds, ", ")+"}: for the topic-ID types where these differ (short, predefined) a successful Unsubscribe removes nothing and the callback keeps being invoked")
	}()
	for _, target := range []*ssa.Function{storeFn, deleteFn} {
		for _, f := range c.repoFuncs("client") {
			allInstrs(f, func(i ssa.Instruction) {
				ci, ok := i.(ssa.CallInstruction)
				if !ok || staticCallee(ci.Common()) != target {
					return
				}
				r.fn(f)
				key := fnKey(f) + ":route-argument-of-" + target.Name()
				arg := ci.Common().Args[1]
				call, ok := arg.(*ssa.Call)
				okc := false
				if ok {
					if calleeName(&call.Call) == "strings.Split" {
						if s, ok := constString(call.Call.Args[1]); ok && s == "/" {
							okc = true
						}
					} else if g := staticCallee(&call.Call); g != nil && fnPkgPath(g) == pkClient {
						if s, ok := sepOf(g, "strings.Split"); ok && s == "/" {
							okc = true
						}
					}
				}
				r.cond(okc, "R2", key, c.instrPos(i), "route = strings.Split(topic name, \"/\")", "the route is not strings.Split(name, \"/\")")
				// what is split: the name as RESOLVED for every topic-ID type (string name, predefined lookup, short
				// decoding) - recorded per side and compared below
				if ok && len(call.Call.Args) > 0 {
					set := map[string]bool{}
					for _, o := range c.deepOrigins(call.Call.Args[0], 2) {
						switch {
						case o.Kind == "call":
							set["call:"+o.Callee] = true
						case len(o.Path) > 0:
							set["field:"+o.Path[len(o.Path)-1]] = true
						default:
							set[o.Kind] = true
						}
					}
					if nameSources[target] == nil {
						nameSources[target] = map[string]bool{}
					}
					for k := range set {
						nameSources[target][k] = true
					}
				}
				// R3: for delete: precedes Success on every path
				if target == deleteFn {
					k3 := fnKey(f) + ":delete-before-success"
					bad := false
					allInstrs(f, func(j ssa.Instruction) {
						cj, ok := j.(ssa.CallInstruction)
						if !ok {
							return
						}
						g := staticCallee(cj.Common())
						if g == nil || g.Name() != "Success" {
							return
						}
						if reach, _ := pathExists(f, nil, func(x ssa.Instruction) bool { return x == j }, func(x ssa.Instruction) bool { return x == i }); reach {
							bad = true
						}
					})
					r.cond(!bad, "R3", k3, c.instrPos(i), "every path to Success() passes the delete", "Unsubscribe can succeed without (or before) removing the handler")
				}
			})
		}
	}
}

// ---------------------------------------------------------------------------
// C28

func checkC28(c *Ctx, r *Report) {
	// R9: the bound is (RetryCount+1) x RetryDelay per step only if the gateway cannot rewind a step's budget: Proceed
	// (which resets the retry counter) is reached only from the state that awaits this very packet, so a repeated
	// acknowledgement is ignored (C17-R1's per-state exploration of the client dispatcher, re-run here)
	importRulesF(c, r, "C17", map[string]string{"R1": "R9"}, nil)
	c.checkCancellation(r, []string{"client"})
	// rename rule ids: checkCancellation reports under R2; map to R1 for C28
	for _, o := range r.Obls {
		if o.Rule == "C28-R2" {
			o.Rule = "C28-R1"
		}
	}
	m, err := c.newClientModel()
	if err != nil {
		r.undecided("R0", "client-model", "-", err.Error())
		return
	}
	// R3: failed send completes the transaction before the wait
	for _, f := range c.repoFuncs("client") {
		if f.Parent() != nil {
			continue
		}
		// the wait: a blocking select in the method, or the call of a helper of the package that contains one
		var sel ssa.Instruction
		allInstrs(f, func(i ssa.Instruction) {
			if s, ok := i.(*ssa.Select); ok && s.Blocking {
				sel = s
			}
		})
		if sel == nil {
			allInstrs(f, func(i ssa.Instruction) {
				call, ok := i.(*ssa.Call)
				if !ok {
					return
				}
				g := staticCallee(&call.Call)
				if g == nil || fnPkgPath(g) != pkClient || g.Blocks == nil || m.snSenders[g] {
					return
				}
				allInstrs(g, func(j ssa.Instruction) {
					if s2, ok := j.(*ssa.Select); ok && s2.Blocking {
						sel = i
					}
				})
			})
		}
		if sel == nil {
			continue
		}
		allInstrs(f, func(i ssa.Instruction) {
			call, ok := i.(*ssa.Call)
			if !ok {
				return
			}
			g := staticCallee(&call.Call)
			if g == nil || !m.snSenders[g] {
				return
			}
			// the err != nil edge
			for _, b := range f.Blocks {
				iff, ok := b.Instrs[len(b.Instrs)-1].(*ssa.If)
				if !ok {
					continue
				}
				for _, gd := range normGuard(iff.Cond, true) {
					x, y, op, isCmp := cmpGuard(gd)
					if !isCmp || !isNilConst(y) || x != ssa.Value(call) {
						continue
					}
					errBlk := b.Succs[0]
					if op == token.EQL {
						errBlk = b.Succs[1]
					}
					r.fn(f)
					key := fnKey(f) + ":failed-send-completes"
					reach, _ := pathExists(f, errBlk.Instrs[0], func(x ssa.Instruction) bool { return x == sel }, func(x ssa.Instruction) bool {
						if cj, ok := x.(ssa.CallInstruction); ok {
							nm := ""
							if cj.Common().IsInvoke() {
								nm = cj.Common().Method.Name()
							} else if h := staticCallee(cj.Common()); h != nil {
								nm = h.Name()
							}
							return nm == "Fail"
						}
						return false
					})
					first := errBlk.Instrs[0]
					if cj, ok := first.(ssa.CallInstruction); ok {
						nm := ""
						if cj.Common().IsInvoke() {
							nm = cj.Common().Method.Name()
						} else if h := staticCallee(cj.Common()); h != nil {
							nm = h.Name()
						}
						if nm == "Fail" {
							reach = false
						}
					}
					r.cond(!reach, "R3", key, c.instrPos(i), "on a send error the transaction is failed (or the method returns) before waiting", "after a failed send the API method waits on a transaction nobody will complete before its retry budget")
				}
			}
		})
	}
	// R4: Close cancels on every path
	for _, f := range c.repoFuncs("client") {
		if f.Name() != "Close" || f.Signature.Recv() == nil {
			continue
		}
		r.fn(f)
		isCancel := c.cancelFieldCall("client")
		reach, at := pathExists(f, nil, func(x ssa.Instruction) bool { _, ok := x.(*ssa.Return); return ok }, isCancel)
		if reach {
			r.bad("R4", fnKey(f)+":cancels-on-every-path", c.instrPos(at), "Close can return without cancelling the client's context: the receive and keep-alive goroutines keep running")
		} else {
			r.ok("R4", fnKey(f)+":cancels-on-every-path", c.pos(f.Pos()), "every return of Close passes the cancel call")
		}
	}
	// R10: "after ... a DISCONNECT from the gateway, all client goroutines exit": the dispatcher's DISCONNECT case
	// with no exchange of the client's own pending (an unsolicited DISCONNECT) cancels the client's context on
	// every path
	{
		isCancel := c.cancelFieldCall("client")
		e := m.clientExplorer()
		base := e.Event
		e.Event = func(i ssa.Instruction, ex *explorer, ps *pstate, fr *frame) (string, bool, bool) {
			if isCancel(i) {
				return "cancel-client-context", true, true
			}
			return base(i, ex, ps, fr)
		}
		outs := e.Explore(m.snDisp, map[string]aval{"type:sn": kstr("*packets1.Disconnect"), "type:tx": kstr("none")}, nil)
		key := "client-DISCONNECT[no exchange pending]:cancels"
		okc := len(outs) > 0
		detail := ""
		for _, o := range outs {
			if !hasEventPrefix(o, "cancel-client-context") && !retIsError(o) {
				okc, detail = false, "a DISCONNECT from the gateway that answers nothing the client asked for is handled without cancelling the client's context: the receive and keep-alive goroutines keep running and Wait() never returns: "+strings.Join(o.Events, " ; ")
			}
		}
		if len(outs) == 0 {
			r.undecided("R10", key, c.pos(m.snDisp.Pos()), "DISCONNECT case of the client dispatcher not explored")
		} else {
			r.cond(okc, "R10", key, c.pos(m.snDisp.Pos()), firstOutcome(outs), detail)
		}
	}
	// R5: lock balance
	c.checkLockBalance(r, "R5", "client")
	// R6
	c.checkFinallyKeys(r, "R6", "client")
	// R7: no wait under a lock, no re-acquisition of a held lock (client library and the transactions it waits on)
	c.checkLockDiscipline(r, "R7", c.newLockInfo(), []string{"client", "transactions", "util"})
	// R8: every member of the client's errgroup observes the group context
	c.checkGroupContexts(r, "R8", "client")
	// R2: sleep transaction timers
	c.checkSleepTimers(r, m)
}

// checkLockBalance: no return with a lock held (deferred unlocks honoured).
func (c *Ctx) checkLockBalance(r *Report, rule, rel string) {
	li := c.newLockInfo()
	for _, f := range c.repoFuncs(rel) {
		locks := false
		deferred := map[string]bool{}
		allInstrs(f, func(i ssa.Instruction) {
			ci, ok := i.(ssa.CallInstruction)
			if !ok {
				return
			}
			nm, op, _ := lockOp(ci.Common())
			if op > 0 {
				locks = true
			}
			if _, isDefer := i.(*ssa.Defer); isDefer && op < 0 {
				deferred[nm] = true
				deferred[nm+"(R)"] = true
			}
		})
		if !locks {
			continue
		}
		r.fn(f)
		bad := ""
		allInstrs(f, func(i ssa.Instruction) {
			if _, ok := i.(*ssa.Return); !ok {
				return
			}
			for l := range li.held[i] {
				if !deferred[l] {
					bad = fmt.Sprintf("returns at %s with %s still held", c.instrPos(i), l)
				}
			}
		})
		key := fnKey(f) + ":lock-released-on-every-return"
		if bad != "" {
			r.bad(rule, key, c.pos(f.Pos()), bad+": the next writer (the receive loop) blocks forever")
		} else {
			r.ok(rule, key, c.pos(f.Pos()), "every return releases the locks taken")
		}
	}
}

// checkSleepTimers: R2 of C28.
func (c *Ctx) checkSleepTimers(r *Report, m *gwModel) {
	n := 0
	for _, f := range c.repoFuncs("client") {
		if f.Signature.Recv() == nil || f.Parent() != nil {
			continue
		}
		isHand := false
		for _, hn := range c.handRolledTransactions("client") {
			if typeStr(derefType(f.Signature.Recv().Type())) == "client."+hn {
				isHand = true
			}
		}
		if !isHand {
			continue
		}
		arms := false
		allInstrs(f, func(i ssa.Instruction) {
			if ci, ok := i.(ssa.CallInstruction); ok && calleeName(ci.Common()) == "time.AfterFunc" {
				arms = true
			}
		})
		if !arms {
			continue
		}
		n++
		r.fn(f)
		e := m.clientExplorer()
		e.MaxDepth = 2
		outs := e.Explore(f, nil, nil)
		key := fnKey(f) + ":timer-armed-or-completed"
		okc := len(outs) > 0
		detail := ""
		for _, o := range outs {
			armed := hasEventPrefix(o, "time.AfterFunc")
			done := hasEventPrefix(o, "tx.Fail") || hasEventPrefix(o, "tx.Success")
			errRet := len(o.Ret) > 0 && retIsError(o)
			// a path that touches nothing (an out-of-turn packet that is logged and ignored) leaves whatever
			// timer was armed before in place
			if len(o.Events) == 0 {
				continue
			}
			if !armed && !done && !errRet {
				okc, detail = false, "a path leaves the sleep transaction waiting with no timer armed: "+strings.Join(o.Events, " ; ")
			}
		}
		if okc {
			r.ok("R2", key, c.pos(f.Pos()), fmt.Sprintf("%d paths: each arms a timer or completes the transaction", len(outs)))
		} else {
			r.bad("R2", key, c.pos(f.Pos()), detail)
		}
	}
	if n == 0 {
		r.undecided("R2", "sleep-transaction", "-", "no sleep-transaction method arming a timer found")
	}
}

// ---------------------------------------------------------------------------
// C33

func checkC33(c *Ctx, r *Report) {
	// the keep-alive loop: function of client with a blocking select containing a ticker channel
	var loop *ssa.Function
	var sel *ssa.Select
	for _, f := range c.repoFuncs("client") {
		allInstrs(f, func(i ssa.Instruction) {
			s, ok := i.(*ssa.Select)
			if !ok || !s.Blocking {
				return
			}
			for _, st := range s.States {
				if ch, ok := st.Chan.Type().Underlying().(*types.Chan); ok && typeIs(ch.Elem(), "time", "Time") {
					loop, sel = f, s
				}
			}
		})
	}
	if loop == nil {
		r.undecided("R1", "keepalive-loop", "-", "no select on a ticker channel found in package client")
		return
	}
	r.fn(loop)
	tickIdx, stateIdx := int64(-1), int64(-1)
	for k, st := range sel.States {
		ch := st.Chan.Type().Underlying().(*types.Chan)
		if typeIs(ch.Elem(), "time", "Time") {
			tickIdx = int64(k)
		}
		if typeIs(ch.Elem(), pkUtil, "ClientState") {
			stateIdx = int64(k)
		}
	}
	caseOf := func(i ssa.Instruction) int64 {
		for _, g := range guardsOf(i.Block()) {
			x, y, op, ok := cmpGuard(g)
			if !ok || op != token.EQL {
				continue
			}
			if ex, ok := x.(*ssa.Extract); ok && ex.Tuple == ssa.Value(sel) && ex.Index == 0 {
				if k, ok := constInt(y); ok {
					return k
				}
			}
		}
		return -1
	}
	// Reset only under state == Active
	nReset := 0
	allInstrs(loop, func(i ssa.Instruction) {
		ci, ok := i.(ssa.CallInstruction)
		if !ok {
			return
		}
		switch calleeName(ci.Common()) {
		case "(*time.Ticker).Reset":
			nReset++
			key := fnKey(loop) + ":ticker-rearmed-only-when-active"
			okc := caseOf(i) == stateIdx && stateIdx >= 0
			active := false
			for _, g := range guardsOf(i.Block()) {
				x, y, op, isCmp := cmpGuard(g)
				if !isCmp || op != token.EQL {
					continue
				}
				if ex, ok := x.(*ssa.Extract); ok && ex.Tuple == ssa.Value(sel) {
					if k, ok := constInt(y); ok && k == stActive {
						active = true
					}
				}
			}
			r.cond(okc && active, "R1", key, c.instrPos(i), "ticker.Reset only in the state-notification case under received state == Active", "the keep-alive ticker is re-armed for a state other than Active: the client pings while asleep or disconnected")
		}
	})
	if nReset == 0 {
		r.bad("R1", fnKey(loop)+":ticker-rearmed-only-when-active", c.pos(loop.Pos()), "the ticker is never re-armed: no keep-alive pings at all")
	}
	// Stop on every notification before the state test
	stopOK := false
	allInstrs(loop, func(i ssa.Instruction) {
		if ci, ok := i.(ssa.CallInstruction); ok && calleeName(ci.Common()) == "(*time.Ticker).Stop" {
			if _, isDefer := i.(*ssa.Defer); !isDefer && caseOf(i) == stateIdx {
				// must not be under the state comparison
				under := false
				for _, g := range guardsOf(i.Block()) {
					x, _, _, isCmp := cmpGuard(g)
					if isCmp {
						if ex, ok := x.(*ssa.Extract); ok && ex.Tuple == ssa.Value(sel) && ex.Index != 0 {
							under = true
						}
					}
				}
				if !under {
					stopOK = true
				}
			}
		}
	})
	r.cond(stopOK, "R1", fnKey(loop)+":ticker-stopped-on-every-notification", c.pos(loop.Pos()), "ticker.Stop on every state notification", "a state notification other than Active does not stop the keep-alive ticker")
	// created stopped
	var newTicker ssa.Instruction
	allInstrs(loop, func(i ssa.Instruction) {
		if ci, ok := i.(ssa.CallInstruction); ok && calleeName(ci.Common()) == "time.NewTicker" {
			newTicker = i
		}
	})
	if newTicker != nil {
		reach, _ := pathExists(loop, newTicker, func(x ssa.Instruction) bool { return x == ssa.Instruction(sel) }, func(x ssa.Instruction) bool {
			ci, ok := x.(ssa.CallInstruction)
			if !ok {
				return false
			}
			_, isDefer := x.(*ssa.Defer)
			return !isDefer && calleeName(ci.Common()) == "(*time.Ticker).Stop"
		})
		r.cond(!reach, "R1", fnKey(loop)+":ticker-created-stopped", c.instrPos(newTicker), "the ticker is stopped before the loop is entered", "the keep-alive ticker runs from the start: the client pings before it is connected")
	}
	// tick -> ping
	pingOK := false
	var pingFn *ssa.Function
	allInstrs(loop, func(i ssa.Instruction) {
		if call, ok := i.(*ssa.Call); ok && caseOf(i) == tickIdx {
			if g := staticCallee(&call.Call); g != nil && fnPkgPath(g) == pkClient {
				pingOK = true
				pingFn = g
			}
		}
	})
	r.cond(pingOK, "R1", fnKey(loop)+":tick-pings", c.pos(loop.Pos()), "a tick calls the ping routine", "a tick does not ping")
	// ... on every path: no tick is skipped on a condition (traffic seen, counters, ...) - the ticker is fixed-period and
	// is not re-armed relative to other traffic, so a skipped tick is a keep-alive period without PINGREQ
	if pingOK {
		var tickEntry *ssa.BasicBlock
		for _, b := range loop.Blocks {
			iff, ok := b.Instrs[len(b.Instrs)-1].(*ssa.If)
			if !ok {
				continue
			}
			if bo, ok := iff.Cond.(*ssa.BinOp); ok && bo.Op == token.EQL {
				if ex, ok := bo.X.(*ssa.Extract); ok && ex.Tuple == ssa.Value(sel) && ex.Index == 0 {
					if k, ok := constInt(bo.Y); ok && k == tickIdx {
						tickEntry = b.Succs[0]
					}
				}
			}
		}
		key := fnKey(loop) + ":every-tick-pings"
		if tickEntry == nil {
			r.undecided("R1", key, c.pos(loop.Pos()), "entry of the tick case not found")
		} else {
			seenB := map[*ssa.BasicBlock]bool{}
			var skipAt ssa.Instruction
			var walk func(b *ssa.BasicBlock)
			walk = func(b *ssa.BasicBlock) {
				if seenB[b] || skipAt != nil {
					return
				}
				seenB[b] = true
				for _, in := range b.Instrs {
					if call, ok := in.(*ssa.Call); ok && staticCallee(&call.Call) == pingFn {
						return
					}
					if in == ssa.Instruction(sel) {
						skipAt = in
						return
					}
					if _, ok := in.(*ssa.Return); ok {
						skipAt = in
						return
					}
				}
				for _, n := range b.Succs {
					walk(n)
				}
			}
			walk(tickEntry)
			r.cond(skipAt == nil, "R1", key, c.pos(loop.Pos()), "every path through the tick case calls the ping routine before the next wait", "a tick can be skipped: a path through the tick case reaches the next wait (or returns) without calling the ping routine; the ticker has a fixed period, so the client then stays silent for a whole further KeepAlive period while active")
		}
	}
	// R2: notifications complete
	var setSites []ssa.Instruction
	for _, f := range c.repoFuncs("client") {
		allInstrs(f, func(i ssa.Instruction) {
			if ci, ok := i.(ssa.CallInstruction); ok && calleeName(ci.Common()) == "(*"+pkUtil+".ClientState).Set" {
				setSites = append(setSites, i)
			}
		})
	}
	okN := len(setSites) > 0
	detail := ""
	for _, s := range setSites {
		f := s.Parent()
		// the function must reach a channel send of ClientState (through static calls)
		notifies := false
		var rec func(g *ssa.Function, d int)
		seen := map[*ssa.Function]bool{}
		rec = func(g *ssa.Function, d int) {
			if seen[g] || d > 3 || g.Blocks == nil {
				return
			}
			seen[g] = true
			allInstrs(g, func(i ssa.Instruction) {
				if sl, ok := i.(*ssa.Select); ok {
					for _, st := range sl.States {
						if st.Dir == types.SendOnly {
							if ch, ok := st.Chan.Type().Underlying().(*types.Chan); ok && typeIs(ch.Elem(), pkUtil, "ClientState") {
								notifies = true
							}
						}
					}
				}
				if sn, ok := i.(*ssa.Send); ok {
					if ch, ok := sn.Chan.Type().Underlying().(*types.Chan); ok && typeIs(ch.Elem(), pkUtil, "ClientState") {
						notifies = true
					}
				}
			})
			for _, h := range staticCalleesOf(g) {
				if fnPkgPath(h) == pkClient {
					rec(h, d+1)
				}
			}
		}
		rec(f, 0)
		if !notifies {
			okN = false
			detail = fnKey(f) + " writes the state without notifying the keep-alive loop"
		}
	}
	r.cond(okN, "R2", "state-writes-notify", "-", fmt.Sprintf("all %d state writes go through a function that notifies the loop", len(setSites)), detail)
	// ... and the converse: the loop is only ever told of states the client really entered. Every value sent on the
	// notification channel is the value handed to ClientState.Set in the same function - or the function's own
	// parameter, and then every caller hands Set and the notifier the same value. (A "pause the ticker" notification
	// without a state change leaves an active client without keep-alive when the announced change does not happen.)
	{
		isStateChan := func(v ssa.Value) bool {
			ch, ok := v.Type().Underlying().(*types.Chan)
			return ok && typeIs(ch.Elem(), pkUtil, "ClientState")
		}
		setsSame := func(g *ssa.Function, v ssa.Value) bool {
			found := false
			allInstrs(g, func(i ssa.Instruction) {
				if ci, ok := i.(ssa.CallInstruction); ok && calleeName(ci.Common()) == "(*"+pkUtil+".ClientState).Set" && len(ci.Common().Args) == 2 && ci.Common().Args[1] == v {
					found = true
				}
			})
			return found
		}
		nSend, badN := 0, ""
		for _, f := range c.repoFuncs("client") {
			allInstrs(f, func(i ssa.Instruction) {
				var sent ssa.Value
				switch x := i.(type) {
				case *ssa.Send:
					if isStateChan(x.Chan) {
						sent = x.X
					}
				case *ssa.Select:
					for _, st := range x.States {
						if st.Dir == types.SendOnly && isStateChan(st.Chan) {
							sent = st.Send
						}
					}
				}
				if sent == nil {
					return
				}
				nSend++
				if setsSame(f, sent) {
					return // the sending function itself hands this very value to ClientState.Set
				}
				if p, ok := sent.(*ssa.Parameter); ok && p.Parent() == f {
					idx := -1
					for k, q := range f.Params {
						if q == p {
							idx = k
						}
					}
					for _, g := range c.repoFuncs("client") {
						allInstrs(g, func(j ssa.Instruction) {
							cj, ok := j.(ssa.CallInstruction)
							if !ok || staticCallee(cj.Common()) != f || idx < 0 || idx >= len(cj.Common().Args) {
								return
							}
							if !setsSame(g, cj.Common().Args[idx]) {
								badN = c.instrPos(j) + ": " + fnKey(g) + " notifies the keep-alive loop of a state it does not set"
							}
						})
					}
				} else if !setsSame(f, sent) {
					badN = c.instrPos(i) + ": " + fnKey(f) + " sends a state on the notification channel that it does not set"
				}
			})
		}
		if nSend == 0 {
			r.undecided("R2", "notifications-are-state-changes", "-", "no send on a channel of client states found")
		} else {
			r.cond(badN == "", "R2", "notifications-are-state-changes", "-", fmt.Sprintf("%d send site(s): the value sent is the value just handed to ClientState.Set", nSend),
				"the keep-alive loop is told of a state change that did not happen ("+badN+"): it stops (or starts) its ticker for a state the client is not in - e.g. an active client whose Sleep() failed is left without keep-alive PINGREQs")
		}
	}
	// R3: keep-alive PINGREQ (re)transmissions gated by state == Active
	if pingFn != nil {
		r.fn(pingFn)
		// the transaction constructor used by the ping routine
		allInstrs(pingFn, func(i ssa.Instruction) {
			call, ok := i.(*ssa.Call)
			if !ok {
				return
			}
			g := staticCallee(&call.Call)
			if g == nil || fnPkgPath(g) != pkClient || !strings.HasPrefix(g.Name(), "new") {
				return
			}
			// its retry callback
			for _, cl := range closuresIn(g) {
				sends := false
				gated := false
				allInstrs(cl, func(j ssa.Instruction) {
					if cj, ok := j.(ssa.CallInstruction); ok {
						if h := staticCallee(cj.Common()); h != nil && c.snSenders("client")[h] {
							sends = true
							for _, gd := range guardsOf(j.Block()) {
								x, y, op, isCmp := cmpGuard(gd)
								if isCmp && op == token.EQL {
									if cg, ok := x.(*ssa.Call); ok && calleeName(&cg.Call) == "(*"+pkUtil+".ClientState).Get" {
										if k, ok := constInt(y); ok && k == stActive {
											gated = true
										}
									}
								}
							}
						}
					}
				})
				if !sends {
					continue
				}
				r.fn(cl)
				key := "keepalive-ping-retransmission-gated-by-active"
				if gated {
					r.ok("R3", key, c.pos(cl.Pos()), "the ping retry callback re-sends only while the state is Active")
				} else {
					r.bad("R3", key, c.pos(cl.Pos()), "the keep-alive ping's retry callback re-sends PINGREQ whatever the state: a ping begun just before Sleep()/Disconnect() keeps retransmitting while the client is asleep or disconnected")
				}
			}
		})
	}
	// R4: routing of PINGRESP
	m, err := c.newClientModel()
	if err != nil {
		r.undecided("R4", "client-model", "-", err.Error())
		return
	}
	var order []string
	var firstPos ssa.Instruction
	allInstrs(m.snDisp, func(i ssa.Instruction) {
		call, ok := i.(*ssa.Call)
		if !ok || calleeName(&call.Call) != "(*"+pkTrans+".TransactionStore).GetByType" {
			return
		}
		// inside the Pingresp case?
		inCase := false
		for _, g := range guardsOf(i.Block()) {
			if ex, ok := g.Cond.(*ssa.Extract); ok && g.Truth {
				if ta, ok := ex.Tuple.(*ssa.TypeAssert); ok && typeIs(ta.AssertedType, pkPackets1, "Pingresp") {
					inCase = true
				}
			}
		}
		if !inCase {
			return
		}
		if firstPos == nil {
			firstPos = i
		}
		if k, ok := constInt(call.Call.Args[1]); ok {
			order = append(order, packetTypeName(k))
		} else {
			order = append(order, "?")
		}
	})
	if len(order) == 0 {
		r.undecided("R4", "pingresp-routing", c.pos(m.snDisp.Pos()), "no transaction lookup in the PINGRESP case")
	} else if len(order) == 1 {
		r.ok("R4", "pingresp-routing["+strings.Join(order, ",")+"]", c.instrPos(firstPos), "a single slot answers PINGRESP")
	} else {
		// two slots consulted in a fixed order without telling whose PINGRESP it is
		distinguishes := false
		allInstrs(m.snDisp, func(i ssa.Instruction) {
			// a state test of the sleep transaction before handing the packet over would distinguish
			_ = i
		})
		key := "pingresp-routing[first=" + order[0] + ",then=" + strings.Join(order[1:], ",") + "]"
		if distinguishes {
			r.ok("R4", key, c.instrPos(firstPos), "the dispatcher tells the two pending exchanges apart")
		} else {
			r.bad("R4", key, c.instrPos(firstPos), "with a keep-alive ping and a sleep transaction both awaiting PINGRESP, the first slot consulted ("+order[0]+") always gets the packet: the other exchange's PINGRESP is stolen and it fails after its timeout")
		}
	}
	c.checkStateNotificationChannel(r, "R5", loop, sel)
	c.checkAwaitingStates(r, "R6", m)
}

// checkStateNotificationChannel: R5 of C33. The receive loop announces state
// changes to the keep-alive loop over a channel. The keep-alive loop, in its
// tick case, calls a function that waits for a packet only the receive loop
// can deliver (the PINGRESP). If the announcement could block until the
// keep-alive loop is back at its select, the two wait for each other: the
// PINGRESP is never read, the ping is retransmitted while the client is
// already asleep and finally fails the client. So while a case of the
// consumer's select may block on the producer, every channel of ClientState
// values the producer sends on must be created with capacity >= 1.
func (c *Ctx) checkStateNotificationChannel(r *Report, rule string, loop *ssa.Function, sel *ssa.Select) {
	// does another case of the keep-alive select call something that may wait?
	waits := ""
	for _, b := range loop.Blocks {
		for _, i := range b.Instrs {
			ci, ok := i.(ssa.CallInstruction)
			if !ok {
				continue
			}
			g := staticCallee(ci.Common())
			if g == nil || fnPkgPath(g) != pkClient {
				continue
			}
			if c.mayWaitOnTransaction(g, 0, map[*ssa.Function]bool{}) {
				waits = fnKey(g)
			}
		}
	}
	n := 0
	for _, f := range c.repoFuncs("client") {
		allInstrs(f, func(i ssa.Instruction) {
			mk, ok := i.(*ssa.MakeChan)
			if !ok {
				return
			}
			ch, ok := mk.Type().Underlying().(*types.Chan)
			if !ok || !typeIs(ch.Elem(), pkUtil, "ClientState") {
				return
			}
			n++
			r.fn(f)
			key := fnKey(f) + ":state-notification-channel"
			k, isConst := constInt(mk.Size)
			switch {
			case waits == "":
				r.ok(rule, key, c.instrPos(i), "the keep-alive loop never waits for the receive loop outside its select")
			case isConst && k >= 1:
				r.ok(rule, key, c.instrPos(i), fmt.Sprintf("capacity %d: the receive loop's announcement does not wait for the keep-alive loop, which may itself be waiting in %s for a packet from the receive loop", k, waits))
			default:
				r.bad(rule, key, c.instrPos(i), "the channel the receive loop announces state changes on is unbuffered (or of unknown capacity) while the keep-alive loop may be inside "+waits+" waiting for a packet that only the receive loop can deliver: the receive loop blocks on the announcement, the PINGRESP behind it is never read, the keep-alive ping is retransmitted while the client is asleep and its failure cancels the client, so a concurrent Sleep() fails")
			}
		})
	}
	if n == 0 {
		r.undecided(rule, "state-notification-channel", c.pos(loop.Pos()), "no channel of ClientState values is created in package client")
	}
}

// mayWaitOnTransaction: f (through static calls in package client) contains a blocking select/receive on a Done() channel.
func (c *Ctx) mayWaitOnTransaction(f *ssa.Function, d int, seen map[*ssa.Function]bool) bool {
	if seen[f] || d > 5 || f.Blocks == nil {
		return false
	}
	seen[f] = true
	found := false
	allInstrs(f, func(i ssa.Instruction) {
		switch x := i.(type) {
		case *ssa.Select:
			if x.Blocking {
				for _, st := range x.States {
					if isDoneChan(st.Chan) && !c.isContextDone(st.Chan) {
						found = true
					}
				}
			}
		case *ssa.UnOp:
			if x.Op == token.ARROW && isDoneChan(x.X) && !c.isContextDone(x.X) {
				found = true
			}
		case ssa.CallInstruction:
			if _, isGo := i.(*ssa.Go); isGo {
				return
			}
			if g := staticCallee(x.Common()); g != nil && fnPkgPath(g) == pkClient && c.mayWaitOnTransaction(g, d+1, seen) {
				found = true
			}
		}
	})
	return found
}

// checkAwaitingStates: R6 of C33 (typestate of the sleep transaction). A reply
// handler of a transaction that keeps its own state field accepts its reply
// only in one state (the guard at its top). That state may be entered only by
// the step that sends the request the reply answers - PINGREQ for PINGRESP,
// DISCONNECT for DISCONNECT - otherwise a reply that belongs to another
// exchange (a late or duplicated keep-alive PINGRESP) is taken for the answer
// to a request that was never sent and ends the exchange early.
func (c *Ctx) checkAwaitingStates(r *Report, rule string, m *gwModel) {
	request := map[string]string{"Pingresp": "Pingreq", "Disconnect": "Disconnect"}
	n := 0
	for _, h := range c.repoFuncs("client") {
		if h.Signature.Recv() == nil || len(h.Params) != 2 {
			continue
		}
		reply := ""
		for rp := range request {
			if typeIs(h.Params[1].Type(), pkPackets1, rp) {
				reply = rp
			}
		}
		if reply == "" {
			continue
		}
		// guard at the top: compares a plain field of the receiver with a constant
		var stateField string
		var stateConst int64 = -1
		for _, b := range h.Blocks {
			iff, ok := b.Instrs[len(b.Instrs)-1].(*ssa.If)
			if !ok {
				continue
			}
			bo, ok := iff.Cond.(*ssa.BinOp)
			if !ok || (bo.Op != token.NEQ && bo.Op != token.EQL) {
				continue
			}
			k, isC := constInt(bo.Y)
			u, isLoad := bo.X.(*ssa.UnOp)
			if !isC || !isLoad {
				continue
			}
			fa, ok := u.X.(*ssa.FieldAddr)
			if !ok || fa.X != ssa.Value(h.Params[0]) {
				continue
			}
			stateField, stateConst = fieldName(fa.X.Type(), fa.Field), k
			break
		}
		if stateField == "" {
			continue // RetryTransaction-based handlers keep (state, request packet) together in Proceed: C25-R1 / C17
		}
		n++
		r.fn(h)
		// in every other state the reply is not this transaction's: the handler leaves the transaction alone (a late
		// or duplicated reply of a finished keep-alive exchange must not fail a Sleep() in progress)
		{
			var other *ssa.BasicBlock
			for _, b := range h.Blocks {
				iff, ok := b.Instrs[len(b.Instrs)-1].(*ssa.If)
				if !ok {
					continue
				}
				if bo, ok := iff.Cond.(*ssa.BinOp); ok {
					if k, isC := constInt(bo.Y); isC && k == stateConst {
						if bo.Op == token.NEQ {
							other = b.Succs[0]
						} else if bo.Op == token.EQL {
							other = b.Succs[1]
						}
						break
					}
				}
			}
			k2 := fmt.Sprintf("%s:no-effect-unless-state-%d", fnKey(h), stateConst)
			if other == nil {
				r.undecided(rule, k2, c.pos(h.Pos()), "the branch taken in the other states was not found")
			} else {
				effect := ""
				seenB := map[*ssa.BasicBlock]bool{}
				var walk func(b *ssa.BasicBlock)
				walk = func(b *ssa.BasicBlock) {
					if seenB[b] {
						return
					}
					seenB[b] = true
					for _, in := range b.Instrs {
						switch x := in.(type) {
						case *ssa.Store:
							if fa, ok := x.Addr.(*ssa.FieldAddr); ok {
								if _, isAlloc := fa.X.(*ssa.Alloc); !isAlloc {
									effect = c.instrPos(in) + ": writes " + fieldName(fa.X.Type(), fa.Field)
								}
							}
						case ssa.CallInstruction:
							cc := x.Common()
							if cc.IsInvoke() && typeIs(cc.Value.Type(), pkUtil, "Logger") {
								continue
							}
							if b, ok := cc.Value.(*ssa.Builtin); ok && b.Name() != "close" {
								continue
							}
							nm := calleeName(cc)
							if strings.HasPrefix(nm, "fmt.") || strings.HasPrefix(nm, "strconv.") {
								continue
							}
							effect = c.instrPos(in) + ": calls " + nm
						}
					}
					for _, nx := range b.Succs {
						walk(nx)
					}
				}
				walk(other)
				r.cond(effect == "", rule, k2, c.pos(h.Pos()), "in every other state the handler only logs", "a "+strings.ToUpper(reply)+" that arrives while the transaction does not await it (a late or duplicated reply of another, finished exchange - e.g. of a keep-alive ping) changes the transaction ("+effect+"): a concurrent Sleep() fails because of a keep-alive exchange")
			}
		}
		tname := typeStr(derefType(h.Params[0].Type()))
		key := fmt.Sprintf("%s:state-%d-entered-with-%s", fnKey(h), stateConst, strings.ToUpper(request[reply]))
		bad := ""
		entered := 0
		for _, f := range c.repoFuncs("client") {
			allInstrs(f, func(i ssa.Instruction) {
				st, ok := i.(*ssa.Store)
				if !ok {
					return
				}
				fa, ok := st.Addr.(*ssa.FieldAddr)
				if !ok || typeStr(derefType(fa.X.Type())) != tname || fieldName(fa.X.Type(), fa.Field) != stateField {
					return
				}
				if k, ok := constInt(st.Val); !ok || k != stateConst {
					return
				}
				entered++
				// the same function hands a request of the right type to the sender
				sends := false
				allInstrs(f, func(j ssa.Instruction) {
					cj, ok := j.(ssa.CallInstruction)
					if !ok {
						return
					}
					g := staticCallee(cj.Common())
					if g == nil || !m.snSenders[g] {
						return
					}
					for _, t := range c.concreteTypesOf(packetArg(g, cj.Common())) {
						if t == "*packets1."+request[reply] {
							sends = true
						}
					}
				})
				if !sends {
					bad = fmt.Sprintf("%s enters the state in which %s accepts a %s (%s) without sending a %s: a %s that belongs to another exchange (a late or duplicated keep-alive reply) is then taken for the answer and completes the transaction early", fnKey(f), fnKey(h), strings.ToUpper(reply), c.instrPos(i), strings.ToUpper(request[reply]), strings.ToUpper(reply))
				}
			})
		}
		switch {
		case entered == 0:
			r.undecided(rule, key, c.pos(h.Pos()), "the state the handler requires is never entered")
		case bad != "":
			r.bad(rule, key, c.pos(h.Pos()), bad)
		default:
			r.ok(rule, key, c.pos(h.Pos()), fmt.Sprintf("the required state is entered only by steps that send the %s the reply answers (%d site(s))", strings.ToUpper(request[reply]), entered))
		}
	}
	if n == 0 {
		r.undecided(rule, "reply-handlers-with-own-state", "-", "no reply handler guarded by a state field of its own found in package client")
	}
}

func packetTypeName(k int64) string {
	names := map[int64]string{0x04: "CONNECT", 0x16: "PINGREQ", 0x17: "PINGRESP", 0x18: "DISCONNECT", 0x12: "SUBSCRIBE"}
	if n, ok := names[k]; ok {
		return n
	}
	return fmt.Sprintf("type%#x", k)
}

// cancelFieldCall: predicate "this instruction calls the cancel function of the package's long-lived context": a
// dynamic call of a value loaded from a struct field that some function of the package assigns from the second result
// of context.WithCancel (or an errgroup/context derivation of it).
func (c *Ctx) cancelFieldCall(rel string) func(ssa.Instruction) bool {
	cells := map[string]bool{}
	for _, f := range c.repoFuncs(rel) {
		allInstrs(f, func(i ssa.Instruction) {
			st, ok := i.(*ssa.Store)
			if !ok {
				return
			}
			fa, ok := st.Addr.(*ssa.FieldAddr)
			if !ok {
				return
			}
			v := st.Val
			if ct, ok := v.(*ssa.ChangeType); ok {
				v = ct.X
			}
			if ex, ok := v.(*ssa.Extract); ok && ex.Index == 1 {
				if call, ok := ex.Tuple.(*ssa.Call); ok {
					if n := calleeName(&call.Call); n == "context.WithCancel" || n == "context.WithTimeout" || n == "context.WithDeadline" {
						cells[fieldCell(fa)] = true
					}
				}
			}
		})
	}
	return func(x ssa.Instruction) bool {
		cj, ok := x.(ssa.CallInstruction)
		if !ok || cj.Common().IsInvoke() {
			return false
		}
		if u, ok := cj.Common().Value.(*ssa.UnOp); ok {
			if fa, ok := u.X.(*ssa.FieldAddr); ok && cells[fieldCell(fa)] {
				return true
			}
		}
		return false
	}
}
