package main

import (
	"fmt"
	"go/token"
	"go/types"
	"strings"

	"golang.org/x/tools/go/ssa"
)

// connEscapes (used by C14-R3, C23-R4, C11-R1): "only the sender functions
// write to a connection" is only as strong as the list of ways bytes can reach
// a connection. Besides direct Write calls (connWriteSites) a connection value
// can be handed to something that writes for the caller: io.WriteString,
// fmt.Fprintf, io.Copy, net.Buffers.WriteTo, a packet's Write(w) method, or any
// other function. Every use of a value of type net.Conn / *util.ConnWithContext
// in package rel must therefore be one of:
//
//	a method call on it (Read/Write/Close/deadlines/addresses; Write sites are
//	judged by the who-may-write rule itself),
//	the reader argument of packets1.ReadPacket / paho's ReadPacket,
//	the writer argument of ControlPacket.Write inside an MQTT sender function,
//	wrapping by util.NewConnWithContext, a store into a connection field,
//	a comparison, a conversion to an interface (followed), a return or a phi.
//
// Anything else is reported.
type connEscape struct {
	Instr ssa.Instruction
	What  string
}

func isConnType(t types.Type) bool {
	return typeIs(t, "net", "Conn") || typeIs(derefType(t), pkUtil, "ConnWithContext") || typeIs(t, "net", "PacketConn")
}

func (c *Ctx) connEscapes(rel string, senders map[*ssa.Function]bool) []connEscape {
	var out []connEscape
	seen := map[ssa.Value]bool{}
	var visit func(v ssa.Value, f *ssa.Function, d int)
	visit = func(v ssa.Value, f *ssa.Function, d int) {
		if seen[v] || d > 6 || v.Referrers() == nil {
			return
		}
		seen[v] = true
		for _, u := range *v.Referrers() {
			switch x := u.(type) {
			case *ssa.MakeInterface:
				visit(x, f, d+1)
			case *ssa.ChangeInterface:
				visit(x, f, d+1)
			case *ssa.ChangeType:
				visit(x, f, d+1)
			case *ssa.TypeAssert:
				visit(x, f, d+1)
			case *ssa.Extract:
				visit(x, f, d+1)
			case *ssa.Phi:
				visit(x, f, d+1)
			case *ssa.Return, *ssa.DebugRef:
			case *ssa.BinOp:
				if x.Op != token.EQL && x.Op != token.NEQ {
					out = append(out, connEscape{u, "used in an expression"})
				}
			case *ssa.Store:
				if x.Val != v {
					continue // storing INTO the variable
				}
				switch ad := x.Addr.(type) {
				case *ssa.FieldAddr:
					if !isConnType(derefType(ad.Type())) {
						out = append(out, connEscape{u, "stored into a field that is not a connection field"})
					}
				case *ssa.Alloc:
					// local variable: follow its loads
					if ad.Referrers() != nil {
						for _, r2 := range *ad.Referrers() {
							if l, ok := r2.(*ssa.UnOp); ok && l.Op == token.MUL {
								visit(l, f, d+1)
							}
							if mc, ok := r2.(*ssa.MakeClosure); ok {
								cl := mc.Fn.(*ssa.Function)
								for bi, b := range mc.Bindings {
									if b == ssa.Value(ad) && bi < len(cl.FreeVars) && cl.FreeVars[bi].Referrers() != nil {
										for _, r3 := range *cl.FreeVars[bi].Referrers() {
											if l, ok := r3.(*ssa.UnOp); ok && l.Op == token.MUL {
												visit(l, cl, d+1)
											}
										}
									}
								}
							}
						}
					}
				default:
					out = append(out, connEscape{u, "stored through " + exprStr(x.Addr)})
				}
			case *ssa.MakeClosure:
				cl := x.Fn.(*ssa.Function)
				for bi, b := range x.Bindings {
					if b == v && bi < len(cl.FreeVars) {
						visit(cl.FreeVars[bi], cl, d+1)
					}
				}
			case ssa.CallInstruction:
				cc := x.Common()
				if cc.IsInvoke() && cc.Value == v {
					continue // a method of the connection itself
				}
				g := staticCallee(cc)
				if g != nil && g.Signature.Recv() != nil && len(cc.Args) > 0 && cc.Args[0] == v && isConnType(g.Signature.Recv().Type()) {
					continue // a method of the connection wrapper
				}
				n := calleeName(cc)
				switch {
				case n == pkPackets1+".ReadPacket" || n == pahoPkts+".ReadPacket":
					continue
				case n == pkUtil+".NewConnWithContext":
					continue
				case cc.IsInvoke() && cc.Method.Name() == "Write" && typeIs(cc.Value.Type(), pahoPkts, "ControlPacket"):
					if senders[x.Parent()] {
						continue
					}
					out = append(out, connEscape{u, "an MQTT packet is written to the connection outside the sender function"})
				case g != nil && fnPkgPath(g) == modPath+"/"+rel && g.Blocks != nil:
					// a helper of the same package taking the connection: follow the parameter
					for ai, a := range cc.Args {
						if a == v && ai < len(g.Params) {
							visit(g.Params[ai], g, d+1)
						}
					}
				default:
					out = append(out, connEscape{u, "handed to " + shortName(n) + " (anything that takes an io.Writer or a net.Conn can write to it)"})
				}
			default:
				if _, ok := u.(*ssa.UnOp); ok {
					continue
				}
				if _, ok := u.(*ssa.FieldAddr); ok {
					continue
				}
				out = append(out, connEscape{u, fmt.Sprintf("used by %T", u)})
			}
		}
	}
	for _, f := range c.repoFuncs(rel) {
		for _, p := range f.Params {
			if isConnType(p.Type()) {
				visit(p, f, 0)
			}
		}
		allInstrs(f, func(i ssa.Instruction) {
			v, ok := i.(ssa.Value)
			if !ok || !isConnType(v.Type()) {
				return
			}
			switch i.(type) {
			case *ssa.UnOp, *ssa.Call, *ssa.Extract, *ssa.TypeAssert:
				visit(v, f, 0)
			}
		})
	}
	// de-duplicate by instruction
	uniq := map[ssa.Instruction]bool{}
	var res []connEscape
	for _, e := range out {
		if !uniq[e.Instr] {
			uniq[e.Instr] = true
			res = append(res, e)
		}
	}
	return res
}

// checkConnEscapes files the obligations under rule.
func (c *Ctx) checkConnEscapes(r *Report, rule, rel string, senders map[*ssa.Function]bool) {
	es := c.connEscapes(rel, senders)
	for _, e := range es {
		f := e.Instr.Parent()
		r.fn(f)
		r.bad(rule, fmt.Sprintf("%s:connection-escapes(%s)", fnKey(f), strings.SplitN(e.What, " (", 2)[0]), c.instrPos(e.Instr),
			"a connection value is "+e.What+": bytes can reach the peer without going through the sender function (its sleep buffering, size bound and one-packet-per-datagram discipline do not apply)")
	}
	if len(es) == 0 {
		r.ok(rule, rel+":connections-do-not-escape", "-", "every use of a net.Conn / ConnWithContext value in package "+rel+" is a method call on it, a packet reader, the MQTT sender's ControlPacket.Write, wrapping, a connection field or a comparison")
	}
}
