package main

import (
	"go/token"
	"go/types"
	"strings"

	"golang.org/x/tools/go/packages"
	"golang.org/x/tools/go/ssa"
)

// Type-flow sets (DESIGN A10): which concrete types can flow into an
// interface-typed value. Field-based, flow-insensitive, interprocedural over
// the repo's own functions; anything that escapes the analysis is reported as
// an "?…" element so that "⊆ allowed set" rules fail closed.

type typeFlow struct {
	c           *Ctx
	memo        map[ssa.Value]map[string]bool
	active      map[ssa.Value]bool
	activeElems map[ssa.Value]bool
	callers     map[*ssa.Function][]ssa.CallInstruction
	stores      map[string][]*ssa.Store // "pkg.Type.field" -> stores
	built       bool
	// MakeClosure / bound-method sites per function value target
	fnValueUses map[*ssa.Function][]ssa.Value
}

func (c *Ctx) newTypeFlow() *typeFlow { return c.newTypeFlowScoped("") }

// newTypeFlowScoped restricts the program to the import closure of one repo
// package (rel, e.g. "gateway"): the gateway and the client library are
// separate programs that share package transactions, and a field-based
// analysis over both would merge what they store into the shared fields.
func (c *Ctx) newTypeFlowScoped(rel string) *typeFlow {
	var inScope map[string]bool
	if rel != "" {
		inScope = map[string]bool{}
		var visit func(p *packages.Package)
		visit = func(p *packages.Package) {
			if p == nil || inScope[p.PkgPath] {
				return
			}
			inScope[p.PkgPath] = true
			for _, q := range p.Imports {
				visit(q)
			}
		}
		visit(c.ByPath[modPath+"/"+rel])
	}
	tf := &typeFlow{c: c, memo: map[ssa.Value]map[string]bool{}, active: map[ssa.Value]bool{},
		callers: map[*ssa.Function][]ssa.CallInstruction{}, stores: map[string][]*ssa.Store{},
		fnValueUses: map[*ssa.Function][]ssa.Value{}}
	for _, f := range c.allRepoFuncs() {
		if inScope != nil && !inScope[fnPkgPath(f)] {
			continue
		}
		allInstrs(f, func(i ssa.Instruction) {
			switch x := i.(type) {
			case ssa.CallInstruction:
				if g := staticCallee(x.Common()); g != nil {
					tf.callers[g] = append(tf.callers[g], x)
				}
				for _, a := range x.Common().Args {
					tf.noteFnValue(a)
				}
			case *ssa.Store:
				if fa, ok := x.Addr.(*ssa.FieldAddr); ok {
					k := fieldKey(fa.X.Type(), fa.Field)
					tf.stores[k] = append(tf.stores[k], x)
				}
				tf.noteFnValue(x.Val)
			}
		})
	}
	return tf
}

func (tf *typeFlow) noteFnValue(v ssa.Value) {
	switch x := v.(type) {
	case *ssa.MakeClosure:
		if f, ok := x.Fn.(*ssa.Function); ok {
			tf.fnValueUses[f] = append(tf.fnValueUses[f], x)
		}
	case *ssa.Function:
		tf.fnValueUses[x] = append(tf.fnValueUses[x], x)
	}
}

func fieldKey(t types.Type, idx int) string {
	return typeStr(derefType(t)) + "." + fieldName(t, idx)
}

// Types returns the concrete dynamic types that may reach v.
func (tf *typeFlow) Types(v ssa.Value) []string {
	return sortedKeys(tf.flow(v, 0))
}

func (tf *typeFlow) flow(v ssa.Value, d int) map[string]bool {
	if m, ok := tf.memo[v]; ok {
		return m
	}
	out := map[string]bool{}
	if tf.active[v] {
		return out
	}
	if d > 40 {
		out["?depth:"+exprStr(v)] = true
		return out
	}
	tf.active[v] = true
	defer func() { delete(tf.active, v) }()
	add := func(m map[string]bool) {
		for k := range m {
			out[k] = true
		}
	}
	_, isIface := v.Type().Underlying().(*types.Interface)
	if !isIface {
		if _, isSig := v.Type().Underlying().(*types.Signature); !isSig {
			out[typeStr(v.Type())] = true
			tf.memo[v] = out
			return out
		}
	}
	switch x := v.(type) {
	case *ssa.MakeInterface:
		out[typeStr(x.X.Type())] = true
	case *ssa.Const:
		if x.Value == nil {
			out["nil"] = true
		}
	case *ssa.Phi:
		for _, e := range x.Edges {
			add(tf.flow(e, d+1))
		}
	case *ssa.ChangeInterface:
		add(tf.flow(x.X, d+1))
	case *ssa.ChangeType:
		add(tf.flow(x.X, d+1))
	case *ssa.TypeAssert:
		src := tf.flow(x.X, d+1)
		for k := range src {
			if tf.assertPasses(k, x.AssertedType) {
				out[k] = true
			}
		}
	case *ssa.Extract:
		switch t := x.Tuple.(type) {
		case *ssa.TypeAssert:
			if x.Index == 0 {
				src := tf.flow(t.X, d+1)
				for k := range src {
					if tf.assertPasses(k, t.AssertedType) {
						out[k] = true
					}
				}
			}
		case *ssa.Call:
			add(tf.callResult(t, x.Index, d))
		case *ssa.Lookup:
			add(tf.elems(t.X, d+1))
		case *ssa.Next:
			add(tf.rangeElems(t, x.Index, d))
		default:
			out["?extract:"+exprStr(v)] = true
		}
	case *ssa.Call:
		add(tf.callResult(x, 0, d))
	case *ssa.Parameter:
		add(tf.param(x, d))
	case *ssa.FreeVar:
		add(tf.freeVar(x, d))
	case *ssa.UnOp:
		if x.Op == token.MUL {
			switch a := x.X.(type) {
			case *ssa.FieldAddr:
				k := fieldKey(a.X.Type(), a.Field)
				ss := tf.stores[k]
				if len(ss) == 0 {
					out["?nostore:"+k] = true
				}
				for _, s := range ss {
					add(tf.flow(s.Val, d+1))
				}
			case *ssa.Alloc:
				if refs := a.Referrers(); refs != nil {
					for _, r := range *refs {
						if s, ok := r.(*ssa.Store); ok && s.Addr == a {
							add(tf.flow(s.Val, d+1))
						}
					}
				}
			case *ssa.IndexAddr:
				add(tf.elems(a.X, d+1))
			case *ssa.FreeVar:
				// captured variable cell: stores to the cell in the defining function
				add(tf.freeVarCell(a, d))
			default:
				out["?load:"+exprStr(v)] = true
			}
		} else if x.Op == token.ARROW {
			out["?chan:"+exprStr(v)] = true
		}
	case *ssa.Lookup:
		add(tf.elems(x.X, d+1))
	case *ssa.Index:
		add(tf.elems(x.X, d+1))
	default:
		out["?"+exprStr(v)] = true
	}
	tf.memo[v] = out
	return out
}

func (tf *typeFlow) assertPasses(concrete string, asserted types.Type) bool {
	if strings.HasPrefix(concrete, "?") {
		return true
	}
	if concrete == "nil" {
		return false
	}
	if _, isIface := asserted.Underlying().(*types.Interface); !isIface {
		return concrete == typeStr(asserted)
	}
	// interface assertion: check implements by looking the type up
	t := tf.lookupType(concrete)
	if t == nil {
		return true
	}
	return types.Implements(t, asserted.Underlying().(*types.Interface))
}

func (tf *typeFlow) lookupType(s string) types.Type {
	ptr := strings.HasPrefix(s, "*")
	name := strings.TrimPrefix(s, "*")
	dot := strings.LastIndex(name, ".")
	if dot < 0 {
		return nil
	}
	pk, tn := name[:dot], name[dot+1:]
	path := modPath + "/" + pk
	if pk == "mqtt" {
		path = pahoPkts
	}
	p := tf.c.ByPath[path]
	if p == nil || p.Types == nil {
		return nil
	}
	obj := p.Types.Scope().Lookup(tn)
	if obj == nil {
		return nil
	}
	var t types.Type = obj.Type()
	if ptr {
		t = types.NewPointer(t)
	}
	return t
}

func (tf *typeFlow) callResult(call *ssa.Call, idx int, d int) map[string]bool {
	out := map[string]bool{}
	cc := &call.Call
	if g := staticCallee(cc); g != nil && g.Blocks != nil && (strings.HasPrefix(fnPkgPath(g), modPath)) {
		for _, b := range g.Blocks {
			if ret, ok := b.Instrs[len(b.Instrs)-1].(*ssa.Return); ok && idx < len(ret.Results) {
				for k := range tf.flow(ret.Results[idx], d+1) {
					out[k] = true
				}
			}
		}
		return out
	}
	n := calleeName(cc)
	switch {
	case n == pahoPkts+".NewControlPacket":
		if k, ok := constInt(cc.Args[0]); ok {
			if t := pahoTypeOfCode(k); t != "" {
				out[t] = true
				return out
			}
		}
		out["?NewControlPacket(non-constant)"] = true
	case n == pkPackets1+".ReadPacket" && idx == 0:
		for _, t := range tf.c.decodedTypes() {
			out[t] = true
		}
	case n == pahoPkts+".ReadPacket" && idx == 0:
		out["<any mqtt packet>"] = true
	case strings.HasPrefix(n, "(*sync.Map).Load") && idx == 0:
		// values stored in that map: Store sites with the same receiver field
		for k := range tf.syncMapValues(cc.Args[0], d) {
			out[k] = true
		}
	case strings.HasPrefix(n, "(*"+pkTrans+".TransactionStore).Get") && idx == 0:
		for k := range tf.storeValues(d) {
			out[k] = true
		}
	case cc.IsInvoke():
		// interface method returning an interface: resolve via implementations in repo
		found := false
		for _, f := range tf.c.allRepoFuncs() {
			if f.Name() == cc.Method.Name() && f.Signature.Recv() != nil && types.Implements(f.Signature.Recv().Type(), cc.Value.Type().Underlying().(*types.Interface)) {
				found = true
				for _, b := range f.Blocks {
					if ret, ok := b.Instrs[len(b.Instrs)-1].(*ssa.Return); ok && idx < len(ret.Results) {
						for k := range tf.flow(ret.Results[idx], d+1) {
							out[k] = true
						}
					}
				}
			}
		}
		if !found {
			out["?invoke:"+shortName(n)] = true
		}
	default:
		out["?call:"+shortName(n)] = true
	}
	return out
}

func pahoTypeOfCode(k int64) string {
	names := map[int64]string{1: "ConnectPacket", 2: "ConnackPacket", 3: "PublishPacket", 4: "PubackPacket", 5: "PubrecPacket",
		6: "PubrelPacket", 7: "PubcompPacket", 8: "SubscribePacket", 9: "SubackPacket", 10: "UnsubscribePacket", 11: "UnsubackPacket",
		12: "PingreqPacket", 13: "PingrespPacket", 14: "DisconnectPacket"}
	if n, ok := names[k]; ok {
		return "*mqtt." + n
	}
	return ""
}

// param: union over all call sites (static calls, invokes by method name, and
// dynamic calls of function values that may be f).
func (tf *typeFlow) param(p *ssa.Parameter, d int) map[string]bool {
	out := map[string]bool{}
	f := p.Parent()
	idx := paramIndex(f, p)
	n := 0
	for _, cs := range tf.callers[f] {
		cc := cs.Common()
		if idx < len(cc.Args) {
			n++
			for k := range tf.flow(cc.Args[idx], d+1) {
				out[k] = true
			}
		}
	}
	// invoke sites: method called through an interface
	if f.Signature.Recv() != nil {
		for _, g := range tf.c.allRepoFuncs() {
			allInstrs(g, func(i ssa.Instruction) {
				ci, ok := i.(ssa.CallInstruction)
				if !ok {
					return
				}
				cc := ci.Common()
				if !cc.IsInvoke() || cc.Method.Name() != f.Name() {
					return
				}
				iface, ok := cc.Value.Type().Underlying().(*types.Interface)
				if !ok || !types.Implements(f.Signature.Recv().Type(), iface) {
					return
				}
				// args: receiver is not in Args for invokes
				ai := idx - 1
				if ai >= 0 && ai < len(cc.Args) {
					n++
					for k := range tf.flow(cc.Args[ai], d+1) {
						out[k] = true
					}
				}
			})
		}
	}
	// f used as a function value (callback): dynamic call sites with a
	// compatible signature
	if len(tf.fnValueUses[f]) > 0 || tf.isBoundMethodTarget(f) {
		sig := f.Signature
		np := sig.Params().Len()
		ai := idx
		if sig.Recv() != nil {
			ai = idx - 1 // bound method closure: receiver captured
		}
		if f.Parent() != nil || sig.Recv() == nil || tf.isBoundMethodTarget(f) {
			for _, g := range tf.c.allRepoFuncs() {
				allInstrs(g, func(i ssa.Instruction) {
					ci, ok := i.(ssa.CallInstruction)
					if !ok {
						return
					}
					cc := ci.Common()
					if cc.IsInvoke() || staticCallee(cc) != nil {
						return
					}
					if _, isBuiltin := cc.Value.(*ssa.Builtin); isBuiltin {
						return
					}
					csig, ok := cc.Value.Type().Underlying().(*types.Signature)
					if !ok || csig.Params().Len() != np {
						return
					}
					same := true
					for k := 0; k < np; k++ {
						if !types.Identical(csig.Params().At(k).Type(), sig.Params().At(k).Type()) {
							same = false
						}
					}
					if !same || ai < 0 || ai >= len(cc.Args) {
						return
					}
					n++
					for k := range tf.flow(cc.Args[ai], d+1) {
						out[k] = true
					}
				})
			}
		}
	}
	if n == 0 {
		out["?param-without-callers:"+fnKey(f)+"."+p.Name()] = true
	}
	return out
}

// isBoundMethodTarget: f is the target of a bound-method closure (t.resend).
func (tf *typeFlow) isBoundMethodTarget(f *ssa.Function) bool {
	for g := range tf.c.AllFuncs {
		if g.Synthetic != "" && strings.HasPrefix(g.Synthetic, "bound method wrapper") {
			if strings.Contains(g.Name(), f.Name()+"$bound") && g.Object() == f.Object() {
				return true
			}
		}
	}
	return false
}

func (tf *typeFlow) freeVar(fv *ssa.FreeVar, d int) map[string]bool {
	out := map[string]bool{}
	f := fv.Parent()
	idx := -1
	for i, x := range f.FreeVars {
		if x == fv {
			idx = i
		}
	}
	found := false
	for _, use := range tf.fnValueUses[f] {
		if mc, ok := use.(*ssa.MakeClosure); ok && idx >= 0 && idx < len(mc.Bindings) {
			found = true
			for k := range tf.flow(mc.Bindings[idx], d+1) {
				out[k] = true
			}
		}
	}
	if !found {
		// closures called directly (defer func(){}()) etc.
		if p := f.Parent(); p != nil {
			allInstrs(p, func(i ssa.Instruction) {
				if mc, ok := i.(*ssa.MakeClosure); ok && mc.Fn == f && idx < len(mc.Bindings) {
					found = true
					for k := range tf.flow(mc.Bindings[idx], d+1) {
						out[k] = true
					}
				}
			})
		}
	}
	if !found {
		out["?freevar:"+fv.Name()] = true
	}
	return out
}

func (tf *typeFlow) freeVarCell(fv *ssa.FreeVar, d int) map[string]bool {
	out := map[string]bool{}
	f := fv.Parent()
	idx := -1
	for i, x := range f.FreeVars {
		if x == fv {
			idx = i
		}
	}
	if p := f.Parent(); p != nil {
		allInstrs(p, func(i ssa.Instruction) {
			if mc, ok := i.(*ssa.MakeClosure); ok && mc.Fn == f && idx >= 0 && idx < len(mc.Bindings) {
				if a, ok := mc.Bindings[idx].(*ssa.Alloc); ok {
					if refs := a.Referrers(); refs != nil {
						for _, r := range *refs {
							if s, ok := r.(*ssa.Store); ok && s.Addr == a {
								for k := range tf.flow(s.Val, d+1) {
									out[k] = true
								}
							}
						}
					}
				}
			}
		})
	}
	// stores inside the closure itself
	if refs := fv.Referrers(); refs != nil {
		for _, r := range *refs {
			if s, ok := r.(*ssa.Store); ok && s.Addr == fv {
				for k := range tf.flow(s.Val, d+1) {
					out[k] = true
				}
			}
		}
	}
	if len(out) == 0 {
		out["?freevar-cell:"+fv.Name()] = true
	}
	return out
}

// elems: element types of a slice/array/map value.
func (tf *typeFlow) elems(v ssa.Value, d int) map[string]bool {
	out := map[string]bool{}
	if d > 40 {
		out["?depth"] = true
		return out
	}
	if tf.activeElems == nil {
		tf.activeElems = map[ssa.Value]bool{}
	}
	if tf.activeElems[v] {
		return out
	}
	tf.activeElems[v] = true
	defer delete(tf.activeElems, v)
	add := func(m map[string]bool) {
		for k := range m {
			out[k] = true
		}
	}
	switch x := v.(type) {
	case *ssa.Slice:
		add(tf.elems(x.X, d+1))
	case *ssa.Alloc:
		// array backing store: stores through IndexAddr
		if refs := x.Referrers(); refs != nil {
			for _, r := range *refs {
				if ia, ok := r.(*ssa.IndexAddr); ok {
					if rr := ia.Referrers(); rr != nil {
						for _, s := range *rr {
							if st, ok := s.(*ssa.Store); ok && st.Addr == ia {
								add(tf.flow(st.Val, d+1))
							}
						}
					}
				}
			}
		}
	case *ssa.Call:
		if b, ok := x.Call.Value.(*ssa.Builtin); ok && b.Name() == "append" {
			for _, a := range x.Call.Args {
				add(tf.elems(a, d+1))
			}
			return out
		}
		out["?elems-call:"+exprStr(v)] = true
	case *ssa.Phi:
		for _, e := range x.Edges {
			add(tf.elems(e, d+1))
		}
	case *ssa.Const:
		// nil slice
	case *ssa.UnOp:
		if x.Op == token.MUL {
			if fa, ok := x.X.(*ssa.FieldAddr); ok {
				k := fieldKey(fa.X.Type(), fa.Field)
				for _, s := range tf.stores[k] {
					add(tf.elems(s.Val, d+1))
				}
				return out
			}
			if a, ok := x.X.(*ssa.Alloc); ok {
				if refs := a.Referrers(); refs != nil {
					for _, r := range *refs {
						if s, ok := r.(*ssa.Store); ok && s.Addr == a {
							add(tf.elems(s.Val, d+1))
						}
					}
				}
				return out
			}
		}
		out["?elems:"+exprStr(v)] = true
	case *ssa.MakeSlice, *ssa.MakeMap:
		// elements come from stores we cannot see: conservative unknown only for maps updated elsewhere
	default:
		out["?elems:"+exprStr(v)] = true
	}
	return out
}

func (tf *typeFlow) rangeElems(n *ssa.Next, idx int, d int) map[string]bool {
	out := map[string]bool{}
	rng, ok := n.Iter.(*ssa.Range)
	if !ok {
		out["?range"] = true
		return out
	}
	if idx == 2 {
		return tf.elems(rng.X, d+1)
	}
	out["?rangekey"] = true
	return out
}

// syncMapValues: concrete types stored into the sync.Map addressed by recv.
func (tf *typeFlow) syncMapValues(recv ssa.Value, d int) map[string]bool {
	out := map[string]bool{}
	fa, ok := recv.(*ssa.FieldAddr)
	if !ok {
		out["?syncmap"] = true
		return out
	}
	want := fieldKey(fa.X.Type(), fa.Field)
	for _, f := range tf.c.allRepoFuncs() {
		allInstrs(f, func(i ssa.Instruction) {
			ci, ok := i.(ssa.CallInstruction)
			if !ok {
				return
			}
			cc := ci.Common()
			if calleeName(cc) != "(*sync.Map).Store" {
				return
			}
			if fa2, ok := cc.Args[0].(*ssa.FieldAddr); ok && fieldKey(fa2.X.Type(), fa2.Field) == want {
				for k := range tf.flow(cc.Args[2], d+1) {
					out[k] = true
				}
			}
		})
	}
	return out
}

// storeValues: transaction types stored into any TransactionStore.
func (tf *typeFlow) storeValues(d int) map[string]bool {
	out := map[string]bool{}
	for _, f := range tf.c.allRepoFuncs() {
		allInstrs(f, func(i ssa.Instruction) {
			ci, ok := i.(ssa.CallInstruction)
			if !ok {
				return
			}
			cc := ci.Common()
			n := calleeName(cc)
			if n == "(*"+pkTrans+".TransactionStore).Store" || n == "(*"+pkTrans+".TransactionStore).StoreByType" {
				for k := range tf.flow(cc.Args[2], d+1) {
					out[k] = true
				}
			}
		})
	}
	return out
}
