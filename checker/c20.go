package main

import (
	"bufio"
	"fmt"
	"go/ast"
	"go/token"
	"go/types"
	"os"
	"os/exec"
	"path/filepath"
	"regexp"
	"sort"
	"strconv"
	"strings"

	"golang.org/x/tools/go/ssa"
)

func init() {
	p := register("C20", func(r *Report) {
		r.Level = "proof"
		r.Explanation = "Every instruction that can panic in the closure of packets1.ReadPacket (Header.Unpack, NewPacketWithHeader, HeaderLength, the Unpack and decodeFlags methods of exactly the types NewPacketWithHeader can return, and what they call) is an obligation. Index and slice operations are discharged by the Go compiler's own prove pass (the site is absent from -d=ssa/check_bce, i.e. the bounds check was removed from the binary); the few the compiler cannot prove need a named argument replayed by the checker from the SSA: the io.Reader contract for rawPacket[:n] (assumed), the header-form invariant for rawPacket[h.HeaderLength():] (HeaderLength returns only constants, the larger one only under a flag that Header.Unpack sets only after checking len >= that constant, and Unpack returns nil only with len >= the smaller one), and a dominating length guard over the same expression in non-wrapping arithmetic for length-prefixed slices. Unchecked type assertions, explicit panics, divisions, make with variable size and interface calls on a possibly nil value must be absent or discharged by the result-or-error discipline. obligations == discharged is required. The argument is independent of the 8192 bound."
		r.TrustedBase = []string{"go/types", "go/ssa (x/tools v0.29.0)", "the Go compiler's prove pass (bounds-check elimination) of the installed toolchain", "io.Reader contract: 0 <= n <= len(p)", "fmt.Errorf/fmt.Sprintf do not panic on their own format verbs", "encoding/binary.BigEndian.Uint16 panics only through its (inlined, listed) bounds check"}
		r.assume("io.Reader.Read returns 0 <= n <= len(p) (contract of the interface)")
	}, checkC20)
	p.post = postC20
}

type panicSite struct {
	Fn    *ssa.Function
	Instr ssa.Instruction
	Kind  string // index, slice, assert, panic, div, make, invoke
	Key   string
	File  string
	Line  int
}

// decodeClosure: functions reachable from ReadPacket inside the repo (static
// calls; pkt.Unpack resolved to the Unpack methods of the decoded types).
func (c *Ctx) decodeClosure() (map[*ssa.Function]bool, *ssa.Function) {
	p := c.SSA[pkPackets1]
	if p == nil {
		return nil, nil
	}
	entry := p.Func("ReadPacket")
	if entry == nil {
		return nil, nil
	}
	set := map[*ssa.Function]bool{}
	var visit func(f *ssa.Function)
	visit = func(f *ssa.Function) {
		if f == nil || set[f] || f.Blocks == nil {
			return
		}
		if !strings.HasPrefix(fnPkgPath(f), modPath) {
			return
		}
		set[f] = true
		allInstrs(f, func(i ssa.Instruction) {
			ci, ok := i.(ssa.CallInstruction)
			if !ok {
				return
			}
			cc := ci.Common()
			if g := staticCallee(cc); g != nil {
				visit(g)
				return
			}
			if cc.IsInvoke() && typeIs(cc.Value.Type(), pkPackets, "Packet") {
				cm := c.newCodecModel()
				for _, t := range cm.types {
					visit(cm.method(t, cc.Method.Name()))
				}
			}
		})
	}
	visit(entry)
	return set, entry
}

func checkC20(c *Ctx, r *Report) {
	closure, entry := c.decodeClosure()
	if entry == nil {
		r.undecided("R0", "ReadPacket", "-", "packets1.ReadPacket not found")
		return
	}
	if len(closure) < 30 {
		r.undecided("R0", "decode-closure", c.pos(entry.Pos()), fmt.Sprintf("decode closure has only %d functions", len(closure)))
	}
	for f := range closure {
		r.fn(f)
	}
	// enumerate sites; bounds sites are decided in postC20 with the compiler listing
	for _, f := range sortFuncs(closure) {
		allInstrs(f, func(i ssa.Instruction) {
			key := fnKey(f) + ":" + instrText(i)
			switch x := i.(type) {
			case *ssa.TypeAssert:
				if !x.CommaOk {
					r.bad("R2", key, c.instrPos(i), "unchecked type assertion on the decode path")
				}
			case *ssa.Panic:
				r.bad("R2", key, c.instrPos(i), "explicit panic on the decode path")
			case *ssa.BinOp:
				if x.Op == token.QUO || x.Op == token.REM {
					if k, ok := constInt(x.Y); !ok || k == 0 {
						if bt, ok := x.Type().Underlying().(*types.Basic); ok && bt.Info()&types.IsInteger != 0 {
							r.bad("R2", key, c.instrPos(i), "integer division by a non-constant on the decode path")
						}
					}
				}
			case *ssa.MakeSlice:
				if _, ok := constInt(x.Len); !ok {
					r.bad("R2", key, c.instrPos(i), "make with a length taken from the datagram")
				} else {
					r.okTrivial("R2", key, c.instrPos(i), "make with constant size")
				}
			case *ssa.MakeChan, *ssa.Send, *ssa.MapUpdate:
				r.bad("R2", key, c.instrPos(i), "channel/map operation on the decode path")
			case *ssa.Convert:
				// slice -> array pointer conversions can panic
				if _, ok := x.Type().Underlying().(*types.Pointer); ok {
					if _, ok := x.X.Type().Underlying().(*types.Slice); ok {
						r.bad("R2", key, c.instrPos(i), "slice to array-pointer conversion on the decode path")
					}
				}
			case *ssa.SliceToArrayPointer:
				r.bad("R2", key, c.instrPos(i), "slice to array-pointer conversion on the decode path")
			}
		})
	}
	// R3: result-or-error discipline for the interface call pkt.Unpack
	c.checkResultOrError(r, entry)
	// R4: receivers of the Unpack methods are freshly allocated in NewPacketWithHeader (non nil)
	npwh := c.SSA[pkPackets1].Func("NewPacketWithHeader")
	if npwh != nil {
		okAll := true
		n := 0
		allInstrs(npwh, func(i ssa.Instruction) {
			if mi, ok := i.(*ssa.MakeInterface); ok && typeIs(mi.Type(), pkPackets, "Packet") {
				n++
				if _, isAlloc := mi.X.(*ssa.Alloc); !isAlloc {
					okAll = false
				}
			}
		})
		r.cond(okAll && n >= 20, "R4", "NewPacketWithHeader:fresh-receivers", c.pos(npwh.Pos()), fmt.Sprintf("all %d packet values are fresh allocations (receivers of Unpack are non-nil)", n), "a decoded packet value is not a fresh allocation: a nil receiver could reach Unpack")
	}
}

func instrText(i ssa.Instruction) string {
	if v, ok := i.(ssa.Value); ok {
		return exprStr(v)
	}
	return i.String()
}

// checkResultOrError: in the entry function every interface invoke on a value
// produced by a (value, error) call is dominated by err == nil, and the
// producer returns non-nil value on every path where err is nil.
func (c *Ctx) checkResultOrError(r *Report, entry *ssa.Function) {
	allInstrs(entry, func(i ssa.Instruction) {
		ci, ok := i.(ssa.CallInstruction)
		if !ok || !ci.Common().IsInvoke() {
			return
		}
		cc := ci.Common()
		key := fnKey(entry) + ":invoke " + cc.Method.Name() + " on " + exprStr(cc.Value)
		// the io.Reader parameter: caller's obligation
		if _, isParam := cc.Value.(*ssa.Parameter); isParam {
			r.okTrivial("R3", key, c.instrPos(i), "invoke on a parameter supplied by the caller")
			return
		}
		ex, ok := cc.Value.(*ssa.Extract)
		if !ok {
			r.undecided("R3", key, c.instrPos(i), "interface call on a value of unknown provenance")
			return
		}
		call, ok := ex.Tuple.(*ssa.Call)
		if !ok {
			r.undecided("R3", key, c.instrPos(i), "interface call on a value of unknown provenance")
			return
		}
		// dominated by err == nil of the same call
		okGuard := false
		for _, g := range guardsOf(i.Block()) {
			x, y, op, isCmp := cmpGuard(g)
			if !isCmp {
				continue
			}
			if e2, ok := x.(*ssa.Extract); ok && e2.Tuple == call && e2.Index == 1 && isNilConst(y) && op == token.EQL {
				okGuard = true
			}
		}
		if !okGuard {
			r.bad("R3", key, c.instrPos(i), "interface method called without checking the producer's error first (value may be nil)")
			return
		}
		g := staticCallee(&call.Call)
		if g == nil || g.Blocks == nil {
			r.undecided("R3", key, c.instrPos(i), "producer is not a function of the repository")
			return
		}
		// in g: named results: every path to return has either value assigned non-nil or err assigned non-nil.
		// Path-explore g with no cells; classify each outcome.
		e := &explorer{c: c, MaxDepth: 1}
		e.Inline = func(*ssa.Function) bool { return false }
		outs := e.Explore(g, nil, nil)
		bad := ""
		for _, o := range outs {
			if len(o.Ret) != 2 {
				bad = "unexpected result arity"
				continue
			}
			v, er := o.Ret[0], o.Ret[1]
			valNonNil := strings.HasPrefix(v, "obj:")
			errNonNil := er == "error" || er == "nonnil" || strings.HasPrefix(er, "global:")
			if !valNonNil && !errNonNil {
				bad = fmt.Sprintf("a path returns (%s, %s)", v, er)
			}
		}
		if bad != "" || len(outs) == 0 {
			r.bad("R3", key, c.instrPos(i), "the producer "+fnKey(g)+" can return a nil value with a nil error: "+bad)
		} else {
			r.ok("R3", key, c.instrPos(i), fmt.Sprintf("guarded by err == nil; all %d paths of %s return a fresh value or a non-nil error", len(outs), fnKey(g)))
		}
	})
}

var bceRe = regexp.MustCompile(`^(.+\.go):(\d+):(\d+): Found (IsInBounds|IsSliceInBounds)`)

type bceEntry struct {
	File string
	Line int
	Kind string
}

// runBCE compiles packets and packets1 with the bounds-check debug flag.
func runBCE(repo, goarch string, pkgs ...string) ([]bceEntry, error) {
	if len(pkgs) == 0 {
		pkgs = []string{"./packets", "./packets1"}
	}
	tmp, err := os.MkdirTemp("", "bisq-bce-")
	if err != nil {
		return nil, err
	}
	defer os.RemoveAll(tmp)
	cmd := exec.Command("go", append([]string{"build", "-gcflags=-d=ssa/check_bce/debug=1"}, pkgs...)...)
	cmd.Dir = repo
	env := []string{}
	for _, e := range os.Environ() {
		if strings.HasPrefix(e, "GOFLAGS=") || (strings.HasPrefix(e, "GOCACHE=") && os.Getenv("BISQ_BCE_FRESH") != "") || strings.HasPrefix(e, "GOARCH=") || strings.HasPrefix(e, "GOOS=") || strings.HasPrefix(e, "GOWORK=") {
			continue
		}
		env = append(env, e)
	}
	// The go command stores the compiler's diagnostics in the build cache and replays them on a
	// cache hit (the cache key is the content hash of the sources and flags), so the normal cache can be
	// used; BISQ_BCE_FRESH=1 forces a private empty cache.
	env = append(env, "GOFLAGS=-mod=readonly", "GOPROXY=off", "GOSUMDB=off", "GOTOOLCHAIN=local", "GOWORK=off")
	if os.Getenv("BISQ_BCE_FRESH") != "" {
		env = append(env, "GOCACHE="+filepath.Join(tmp, "cache"))
	}
	if goarch != "" {
		env = append(env, "GOARCH="+goarch)
	}
	cmd.Env = env
	out, err := cmd.CombinedOutput()
	var entries []bceEntry
	sc := bufio.NewScanner(strings.NewReader(string(out)))
	for sc.Scan() {
		m := bceRe.FindStringSubmatch(sc.Text())
		if m == nil {
			continue
		}
		ln, _ := strconv.Atoi(m[2])
		f := m[1]
		if !filepath.IsAbs(f) {
			f = filepath.Join(repo, f)
		}
		entries = append(entries, bceEntry{f, ln, m[4]})
	}
	if err != nil {
		return entries, fmt.Errorf("go build failed: %v: %s", err, firstLines(string(out), 5))
	}
	return entries, nil
}

func firstLines(s string, n int) string {
	ls := strings.Split(s, "\n")
	if len(ls) > n {
		ls = ls[:n]
	}
	return strings.Join(ls, " | ")
}

// funcRanges: file -> [start,end] line ranges of the closure functions.
func (c *Ctx) funcLineRange(f *ssa.Function) (string, int, int) {
	syn := f.Syntax()
	if syn == nil {
		return "", 0, 0
	}
	var start, end token.Pos
	switch n := syn.(type) {
	case *ast.FuncDecl:
		start, end = n.Pos(), n.End()
	case *ast.FuncLit:
		start, end = n.Pos(), n.End()
	default:
		return "", 0, 0
	}
	ps, pe := c.Fset.Position(start), c.Fset.Position(end)
	return ps.Filename, ps.Line, pe.Line
}

func postC20(cs []*Ctx, r *Report, tier string) {
	if len(cs) == 0 {
		return
	}
	for _, c := range cs {
		arch := c.GOARCH
		if c.GOOS == "windows" {
			continue
		}
		cfgName := "linux/amd64"
		if arch != "" {
			cfgName = "linux/" + arch
		}
		r.configActive = cfgName
		entries, err := runBCE(c.Repo, arch)
		if err != nil {
			r.undecided("R1", "compiler-bce:"+cfgName, "-", err.Error())
			continue
		}
		unproven := map[string]map[int]map[string]bool{}
		for _, e := range entries {
			if unproven[e.File] == nil {
				unproven[e.File] = map[int]map[string]bool{}
			}
			if unproven[e.File][e.Line] == nil {
				unproven[e.File][e.Line] = map[string]bool{}
			}
			unproven[e.File][e.Line][e.Kind] = true
		}
		closure, entry := c.decodeClosure()
		if entry == nil {
			continue
		}
		matched := map[string]bool{}
		for _, f := range sortFuncs(closure) {
			allInstrs(f, func(i ssa.Instruction) {
				kind := ""
				switch x := i.(type) {
				case *ssa.IndexAddr:
					if _, isArr := derefType(x.X.Type()).Underlying().(*types.Array); isArr {
						if _, ok := constInt(x.Index); ok {
							return
						}
					}
					kind = "IsInBounds"
				case *ssa.Index:
					kind = "IsInBounds"
				case *ssa.Slice:
					kind = "IsSliceInBounds"
				case *ssa.Lookup:
					if _, isStr := x.X.Type().Underlying().(*types.Basic); isStr {
						kind = "IsInBounds"
					}
				}
				if kind == "" {
					return
				}
				pos := c.Fset.Position(i.Pos())
				if !i.Pos().IsValid() {
					// synthesized (e.g. varargs slice of a fresh array): always in bounds
					if sl, ok := i.(*ssa.Slice); ok {
						if _, isAlloc := sl.X.(*ssa.Alloc); isAlloc && sl.Low == nil && sl.High == nil {
							return
						}
					}
					if ia, ok := i.(*ssa.IndexAddr); ok {
						if _, isAlloc := ia.X.(*ssa.Alloc); isAlloc {
							return
						}
					}
				}
				key := fnKey(f) + ":" + instrText(i)
				un := unproven[pos.Filename][pos.Line][kind]
				if !un {
					r.ok("R1", key, c.instrPos(i), "bounds check eliminated by the compiler's prove pass ("+cfgName+")")
					return
				}
				matched[fmt.Sprintf("%s:%d:%s", pos.Filename, pos.Line, kind)] = true
				arg, status := c.boundsArgument(i, f, entry)
				switch status {
				case "ok":
					r.ok("R1", key, c.instrPos(i), "not proven by the compiler; "+arg)
				case "assumed":
					r.add("R1", key, "assumed", c.instrPos(i), "not proven by the compiler; "+arg, true)
				default:
					r.bad("R1", key, c.instrPos(i), "bounds check the compiler cannot prove and no argument applies: "+arg)
				}
			})
		}
		// unproven checks inside closure functions (or inlined foreign code) that match no enumerated site
		for _, e := range entries {
			k := fmt.Sprintf("%s:%d:%s", e.File, e.Line, e.Kind)
			if matched[k] {
				continue
			}
			rel, _ := filepath.Rel(c.Repo, e.File)
			inClosure := false
			foreign := strings.HasPrefix(rel, "..")
			for f := range closure {
				file, s, en := c.funcLineRange(f)
				if file == e.File && e.Line >= s && e.Line <= en {
					inClosure = true
				}
			}
			if inClosure && !foreign && c.inlinedUintReadProved(closure, e.File, e.Line) {
				r.ok("R1", "inlined-bce:"+rel+":"+e.Kind, fmt.Sprintf("%s:%d", rel, e.Line), "T6: the check sits in an inlined encoding/binary Uint16/Uint32 read of x[c:]; a dominating guard fixes len(x) so that at least 2/4 bytes remain")
				continue
			}
			if inClosure || foreign {
				r.bad("R1", "unmatched-bce:"+rel+":"+e.Kind, fmt.Sprintf("%s:%d", rel, e.Line), "the compiler reports an unproven bounds check on the decode path that corresponds to no analysed SSA site")
			}
		}
	}
	r.configActive = ""
	// proof bookkeeping: assumed obligations count as discharged-by-assumption
	sort.SliceStable(r.Obls, func(i, j int) bool { return r.Obls[i].Rule < r.Obls[j].Rule })
}

// boundsArgument tries the named arguments for a site the compiler left.
func (c *Ctx) boundsArgument(i ssa.Instruction, f, entry *ssa.Function) (string, string) {
	// T4: the operand is a parameter of an unexported helper and every static call site passes a value whose
	// length the caller has already checked (the guard moved out of sight of the compiler's prove pass when
	// the helper was extracted)
	if arg, ok := c.callerLengthGuard(i); ok {
		return arg, "ok"
	}
	sl, ok := i.(*ssa.Slice)
	if !ok {
		return "index expression without a known argument", "bad"
	}
	// T1: x[:n] with n the count returned by Read(x)
	if sl.Low == nil && sl.High != nil {
		if ex, ok := sl.High.(*ssa.Extract); ok && ex.Index == 0 {
			if call, ok := ex.Tuple.(*ssa.Call); ok && call.Call.IsInvoke() && call.Call.Method.Name() == "Read" && len(call.Call.Args) == 1 && call.Call.Args[0] == sl.X {
				// must be dominated by err == nil
				for _, g := range guardsOf(i.Block()) {
					x, y, op, isCmp := cmpGuard(g)
					if isCmp && op == token.EQL && isNilConst(y) {
						if e2, ok := x.(*ssa.Extract); ok && e2.Tuple == call && e2.Index == 1 {
							return "T1: n is the count returned by Read on the same buffer, err == nil (io.Reader contract)", "assumed"
						}
					}
				}
				return "T1 shape but the read error is not checked first", "bad"
			}
		}
	}
	// T2: x[h.HeaderLength():]
	if sl.High == nil && sl.Low != nil {
		if call, ok := stripConv(sl.Low).(*ssa.Call); ok && calleeName(&call.Call) == "(*"+pkPackets+".Header).HeaderLength" {
			return c.headerInvariant(sl, call, f)
		}
	}
	// T5: the variable part of the bound is the result of a validating helper of the codec packages
	if arg, ok := c.helperValidatedBound(sl); ok {
		return arg, "ok"
	}
	// T3: x[lo:hi] guarded by len(x) >= hi over the same expression, non-wrapping
	if sl.High != nil {
		return c.guardedSlice(sl)
	}
	return "slice expression without a known argument", "bad"
}

// guardedSlice: T3.
func (c *Ctx) guardedSlice(sl *ssa.Slice) (string, string) {
	hi := sl.High
	guarded := false
	for _, g := range guardsOf(sl.Block()) {
		x, y, op, isCmp := cmpGuard(g)
		if !isCmp {
			continue
		}
		isLen := func(v ssa.Value) bool {
			call, ok := v.(*ssa.Call)
			if !ok {
				return false
			}
			b, ok := call.Call.Value.(*ssa.Builtin)
			return ok && b.Name() == "len" && call.Call.Args[0] == sl.X
		}
		if isLen(x) && (op == token.GEQ) && sameExpr(y, hi) {
			guarded = true
		}
		if isLen(y) && (op == token.LEQ) && sameExpr(x, hi) {
			guarded = true
		}
	}
	if !guarded {
		return "T3: no dominating guard len(x) >= <the same upper bound expression>", "bad"
	}
	// lo <= hi: lo constant c, hi = c' + e with c' >= c, e zero-extended from an unsigned type, addition in a type that cannot wrap
	lo := int64(0)
	if sl.Low != nil {
		k, ok := constInt(sl.Low)
		if !ok {
			return "T3: non-constant lower bound", "bad"
		}
		lo = k
	}
	add, ok := hi.(*ssa.BinOp)
	if !ok || add.Op != token.ADD {
		return "T3: upper bound is not <const> + <unsigned value>", "bad"
	}
	bt, ok := add.Type().Underlying().(*types.Basic)
	if !ok || (bt.Kind() != types.Int && bt.Kind() != types.Int64 && bt.Kind() != types.Int32) {
		return "T3: the upper bound is computed in " + typeStr(add.Type()) + " arithmetic, which can wrap around", "bad"
	}
	var cst int64
	var other ssa.Value
	if k, ok := constInt(add.X); ok {
		cst, other = k, add.Y
	} else if k, ok := constInt(add.Y); ok {
		cst, other = k, add.X
	} else {
		return "T3: upper bound is not <const> + <unsigned value>", "bad"
	}
	if cst < lo {
		return "T3: constant part of the upper bound is below the lower bound", "bad"
	}
	cv, ok := other.(*ssa.Convert)
	if !ok {
		return "T3: variable part of the upper bound is not a widening conversion", "bad"
	}
	st, ok := cv.X.Type().Underlying().(*types.Basic)
	if !ok || (st.Kind() != types.Uint8 && st.Kind() != types.Uint16) {
		return "T3: variable part of the upper bound is not zero-extended from uint8/uint16", "bad"
	}
	return fmt.Sprintf("T3: dominated by len(x) >= hi over the same expression; hi = %d + zero-extended %s >= lo = %d, computed in int (no wrap)", cst, typeStr(cv.X.Type()), lo), "ok"
}

// headerInvariant: T2.
func (c *Ctx) headerInvariant(sl *ssa.Slice, hlCall *ssa.Call, f *ssa.Function) (string, string) {
	hl := staticCallee(&hlCall.Call)
	if hl == nil {
		return "T2: HeaderLength not resolvable", "bad"
	}
	// 1. HeaderLength returns constants; for each: the flag guard
	type retCase struct {
		val   int64
		field string
		truth bool
		has   bool
	}
	var rets []retCase
	bad := ""
	allInstrs(hl, func(i ssa.Instruction) {
		ret, ok := i.(*ssa.Return)
		if !ok {
			return
		}
		k, ok := constInt(ret.Results[0])
		if !ok {
			// phi of constants
			if phi, ok := ret.Results[0].(*ssa.Phi); ok {
				for pi, e := range phi.Edges {
					kk, ok := constInt(e)
					if !ok {
						bad = "HeaderLength returns a non-constant"
						continue
					}
					rc := retCase{val: kk}
					for _, g := range guardsOfEdge(phi.Block().Preds[pi], phi.Block()) {
						if fld := loadedRecvField(g.Cond, hl); fld != "" {
							rc.field, rc.truth, rc.has = fld, g.Truth, true
						}
					}
					rets = append(rets, rc)
				}
				return
			}
			bad = "HeaderLength returns a non-constant"
			return
		}
		rc := retCase{val: k}
		for _, g := range guardsOf(i.Block()) {
			if fld := loadedRecvField(g.Cond, hl); fld != "" {
				rc.field, rc.truth, rc.has = fld, g.Truth, true
			}
		}
		rets = append(rets, rc)
	})
	if bad != "" || len(rets) == 0 {
		return "T2: " + bad, "bad"
	}
	min := rets[0].val
	for _, rc := range rets {
		if rc.val < min {
			min = rc.val
		}
	}
	// 2./3. Header.Unpack
	var unpackCall *ssa.Call
	allInstrs(f, func(i ssa.Instruction) {
		if call, ok := i.(*ssa.Call); ok && calleeName(&call.Call) == "(*"+pkPackets+".Header).Unpack" {
			unpackCall = call
		}
	})
	if unpackCall == nil {
		return "T2: no call of Header.Unpack in " + fnKey(f), "bad"
	}
	if unpackCall.Call.Args[0] != hlCall.Call.Args[0] || unpackCall.Call.Args[1] != sl.X {
		return "T2: the sliced buffer/header are not the ones Header.Unpack parsed", "bad"
	}
	// the slice is dominated by Unpack's error being nil
	okErr := false
	for _, g := range guardsOf(sl.Block()) {
		x, y, op, isCmp := cmpGuard(g)
		if isCmp && op == token.EQL && isNilConst(y) && x == ssa.Value(unpackCall) {
			okErr = true
		}
	}
	if !okErr {
		return "T2: slice not dominated by Header.Unpack returning nil", "bad"
	}
	// the header is a local that only Unpack writes
	if a, ok := hlCall.Call.Args[0].(*ssa.Alloc); ok {
		if refs := a.Referrers(); refs != nil {
			for _, rf := range *refs {
				switch x := rf.(type) {
				case *ssa.Store:
					if x.Addr == a {
						return "T2: the header variable is overwritten in " + fnKey(f), "bad"
					}
				case *ssa.FieldAddr:
					return "T2: a header field is accessed directly in " + fnKey(f), "bad"
				}
			}
		}
	} else {
		return "T2: the header is not a local variable", "bad"
	}
	unp := staticCallee(&unpackCall.Call)
	bufParam := unp.Params[1]
	lenGuard := func(b *ssa.BasicBlock) int64 {
		best := int64(0)
		for _, g := range guardsOf(b) {
			x, y, op, isCmp := cmpGuard(g)
			if !isCmp {
				continue
			}
			call, ok := x.(*ssa.Call)
			if !ok {
				continue
			}
			bi, ok := call.Call.Value.(*ssa.Builtin)
			if !ok || bi.Name() != "len" || call.Call.Args[0] != bufParam {
				continue
			}
			k, ok := constInt(y)
			if !ok {
				continue
			}
			switch op {
			case token.GEQ:
				if k > best {
					best = k
				}
			case token.GTR:
				if k+1 > best {
					best = k + 1
				}
			case token.EQL:
				if k > best {
					best = k
				}
			}
		}
		return best
	}
	// 3. nil returns need len >= min
	problem := ""
	allInstrs(unp, func(i ssa.Instruction) {
		ret, ok := i.(*ssa.Return)
		if !ok || !isNilConst(ret.Results[0]) {
			return
		}
		if lenGuard(i.Block()) < min {
			problem = fmt.Sprintf("Header.Unpack can return nil with fewer than %d bytes", min)
		}
	})
	// 2. stores of the flag
	for _, rc := range rets {
		if rc.val == min {
			continue
		}
		if !rc.has {
			problem = fmt.Sprintf("HeaderLength returns %d under a condition that is not a test of a header flag", rc.val)
			continue
		}
		stores := 0
		allInstrs(unp, func(i ssa.Instruction) {
			s, ok := i.(*ssa.Store)
			if !ok {
				return
			}
			fa, ok := s.Addr.(*ssa.FieldAddr)
			if !ok || fa.X != unp.Params[0] || fieldName(fa.X.Type(), fa.Field) != rc.field {
				return
			}
			stores++
			b, isConst := constBool(s.Val)
			if isConst && b != rc.truth {
				return // stores the value under which the small constant is returned
			}
			if lenGuard(i.Block()) < rc.val {
				problem = fmt.Sprintf("Header.Unpack sets %s (HeaderLength then returns %d) without having checked len(buf) >= %d", rc.field, rc.val, rc.val)
			}
		})
		_ = stores
		// other writers of the flag outside Unpack/constructor paths used on decode: SetVarPartLength is not called on the decode path (closure check)
	}
	if problem != "" {
		return "T2: " + problem, "bad"
	}
	var ds []string
	for _, rc := range rets {
		if rc.has {
			ds = append(ds, fmt.Sprintf("%d if %s==%v", rc.val, rc.field, rc.truth))
		} else {
			ds = append(ds, fmt.Sprint(rc.val))
		}
	}
	return "T2: HeaderLength returns " + strings.Join(ds, ", ") + "; Header.Unpack sets the flag only after checking len(buf) >= that constant and returns nil only with len(buf) >= " + fmt.Sprint(min) + "; header and buffer are the ones Unpack parsed, err == nil", "ok"
}

// loadedRecvField: cond is (a load of) receiver field of f; returns its name.
func loadedRecvField(cond ssa.Value, f *ssa.Function) string {
	u, ok := cond.(*ssa.UnOp)
	if !ok || u.Op != token.MUL {
		return ""
	}
	fa, ok := u.X.(*ssa.FieldAddr)
	if !ok || len(f.Params) == 0 || fa.X != f.Params[0] {
		return ""
	}
	return fieldName(fa.X.Type(), fa.Field)
}

// callerLengthGuard: i indexes or slices, with constant bounds, a parameter of
// its function f; f is unexported, not used as a value, and at every static
// call site the argument bound to that parameter is dominated by a length
// guard that makes the access valid. Returns the argument text.
func (c *Ctx) callerLengthGuard(i ssa.Instruction) (string, bool) {
	var x ssa.Value
	need := int64(-1)
	switch v := i.(type) {
	case *ssa.Slice:
		x = v.X
		for _, b := range []ssa.Value{v.Low, v.High} {
			if b == nil {
				continue
			}
			k, ok := constInt(b)
			if !ok {
				return "", false
			}
			if k > need {
				need = k
			}
		}
	case *ssa.IndexAddr:
		x = v.X
		if k, ok := constInt(v.Index); ok {
			need = k + 1
		}
	case *ssa.Index:
		x = v.X
		if k, ok := constInt(v.Index); ok {
			need = k + 1
		}
	}
	p, ok := x.(*ssa.Parameter)
	if !ok || need < 0 {
		return "", false
	}
	f := i.Parent()
	if f.Object() == nil || f.Object().Exported() || f.Parent() != nil {
		return "", false
	}
	idx := paramIndex(f, p)
	sites := 0
	okAll := true
	for _, g := range c.allRepoFuncs() {
		allInstrs(g, func(j ssa.Instruction) {
			// the function used as a value anywhere: give up
			for _, op := range j.Operands(nil) {
				if op != nil && *op == ssa.Value(f) {
					if cj, isCall := j.(ssa.CallInstruction); !isCall || cj.Common().Value != ssa.Value(f) {
						okAll = false
					}
				}
			}
			cj, ok := j.(ssa.CallInstruction)
			if !ok || staticCallee(cj.Common()) != f {
				return
			}
			if _, isGo := j.(*ssa.Go); isGo {
				okAll = false
				return
			}
			sites++
			if idx < 0 || idx >= len(cj.Common().Args) {
				okAll = false
				return
			}
			a := cj.Common().Args[idx]
			min := int64(-1)
			for _, gd := range guardsOf(j.Block()) {
				xx, yy, op, isCmp := cmpGuard(gd)
				if !isCmp {
					continue
				}
				lc, ok := xx.(*ssa.Call)
				if !ok {
					continue
				}
				b, ok := lc.Call.Value.(*ssa.Builtin)
				if !ok || b.Name() != "len" || !(lc.Call.Args[0] == a || sameExpr(lc.Call.Args[0], a)) {
					continue
				}
				k, ok := constInt(yy)
				if !ok {
					continue
				}
				// cmpGuard normalises to a comparison that HOLDS on this path
				var m int64 = -1
				switch op {
				case token.GEQ, token.EQL:
					m = k
				case token.GTR:
					m = k + 1
				}
				if m > min {
					min = m
				}
			}
			if min < need {
				okAll = false
			}
		})
	}
	if sites == 0 || !okAll {
		return "", false
	}
	return fmt.Sprintf("T4: operand is parameter %s of the unexported helper %s; all %d call sites pass a value whose length was checked to be >= %d before the call", p.Name(), fnKey(f), sites, need), true
}

// helperValidatedBound: T5. x[lo : c+m] or x[c+m:] where m is the first result of a helper g(x) of the codec packages
// whose error result was tested for nil on the way, and every non-error return of g returns a value r, zero-extended
// from uint8/uint16 into int, under the guard len(<its slice parameter>) >= c2 + r with c2 >= c (the length check moved
// into the helper together with the computation of the length).
func (c *Ctx) helperValidatedBound(sl *ssa.Slice) (string, bool) {
	bound := sl.High
	lo := int64(0)
	if bound == nil {
		bound = sl.Low
	} else if sl.Low != nil {
		k, ok := constInt(sl.Low)
		if !ok {
			return "", false
		}
		lo = k
	}
	add, ok := bound.(*ssa.BinOp)
	if !ok || add.Op != token.ADD {
		return "", false
	}
	if bt, ok := add.Type().Underlying().(*types.Basic); !ok || (bt.Kind() != types.Int && bt.Kind() != types.Int64) {
		return "", false
	}
	var cst int64
	var m ssa.Value
	if k, ok := constInt(add.X); ok {
		cst, m = k, add.Y
	} else if k, ok := constInt(add.Y); ok {
		cst, m = k, add.X
	} else {
		return "", false
	}
	if cst < lo {
		return "", false
	}
	ex, ok := m.(*ssa.Extract)
	if !ok || ex.Index != 0 {
		return "", false
	}
	call, ok := ex.Tuple.(*ssa.Call)
	if !ok {
		return "", false
	}
	g := staticCallee(&call.Call)
	if g == nil || g.Blocks == nil || (fnPkgPath(g) != pkPackets1 && fnPkgPath(g) != pkPackets) || g.Signature.Results().Len() != 2 {
		return "", false
	}
	var param *ssa.Parameter
	for ai, a := range call.Call.Args {
		if a == sl.X && ai < len(g.Params) {
			param = g.Params[ai]
		}
	}
	if param == nil {
		return "", false
	}
	// caller: error of that call compared with nil
	errOK := false
	for _, gd := range guardsOf(sl.Block()) {
		x, y, op, isCmp := cmpGuard(gd)
		if isCmp && op == token.EQL && isNilConst(y) {
			if e2, ok := x.(*ssa.Extract); ok && e2.Tuple == ssa.Value(call) && e2.Index == 1 {
				errOK = true
			}
		}
	}
	if !errOK {
		return "", false
	}
	nOK := 0
	for _, b := range g.Blocks {
		ret, ok := b.Instrs[len(b.Instrs)-1].(*ssa.Return)
		if !ok || len(ret.Results) != 2 {
			continue
		}
		if !isNilConst(ret.Results[1]) {
			continue // error path
		}
		rv := ret.Results[0]
		cv, ok := rv.(*ssa.Convert)
		if !ok {
			return "", false
		}
		if st, ok := cv.X.Type().Underlying().(*types.Basic); !ok || (st.Kind() != types.Uint8 && st.Kind() != types.Uint16) {
			return "", false
		}
		guarded := false
		for _, gd := range guardsOf(b) {
			x, y, op, isCmp := cmpGuard(gd)
			if !isCmp {
				continue
			}
			isLen := func(v ssa.Value) bool {
				cl, ok := v.(*ssa.Call)
				if !ok {
					return false
				}
				bi, ok := cl.Call.Value.(*ssa.Builtin)
				return ok && bi.Name() == "len" && cl.Call.Args[0] == ssa.Value(param)
			}
			sum := func(v ssa.Value) bool {
				a2, ok := v.(*ssa.BinOp)
				if !ok || a2.Op != token.ADD {
					return false
				}
				if bt, ok := a2.Type().Underlying().(*types.Basic); !ok || (bt.Kind() != types.Int && bt.Kind() != types.Int64) {
					return false
				}
				if k, ok := constInt(a2.X); ok && k >= cst && a2.Y == rv {
					return true
				}
				if k, ok := constInt(a2.Y); ok && k >= cst && a2.X == rv {
					return true
				}
				return false
			}
			if (isLen(x) && op == token.GEQ && sum(y)) || (isLen(y) && op == token.LEQ && sum(x)) {
				guarded = true
			}
		}
		if !guarded {
			return "", false
		}
		nOK++
	}
	if nOK == 0 {
		return "", false
	}
	return fmt.Sprintf("T5: the variable part of the bound is the result of %s(x), whose error was tested, and every non-error return of it is guarded by len(x) >= c + result with c >= %d, result zero-extended into int", g.Name(), cst), true
}

// inlinedUintReadProved: T6. The compiler inlines binary.BigEndian.Uint16/Uint32 and reports the bounds check of the
// inlined body at the call's line. Argument: the operand is x[c:] (c constant) and a guard that dominates the call
// fixes len(x) == K or len(x) >= K with K - c >= the number of bytes read.
func (c *Ctx) inlinedUintReadProved(closure map[*ssa.Function]bool, file string, line int) bool {
	proved, seen := true, false
	for f := range closure {
		allInstrs(f, func(i ssa.Instruction) {
			call, ok := i.(*ssa.Call)
			if !ok {
				return
			}
			p := c.Prog.Fset.Position(call.Pos())
			if p.Filename != file || p.Line != line {
				return
			}
			need := int64(0)
			switch calleeName(&call.Call) {
			case "(encoding/binary.bigEndian).Uint16", "(encoding/binary.littleEndian).Uint16":
				need = 2
			case "(encoding/binary.bigEndian).Uint32", "(encoding/binary.littleEndian).Uint32":
				need = 4
			default:
				return
			}
			seen = true
			arg := call.Call.Args[len(call.Call.Args)-1]
			sl, ok := arg.(*ssa.Slice)
			if !ok || sl.High != nil {
				proved = false
				return
			}
			lo := int64(0)
			if sl.Low != nil {
				k, ok := constInt(sl.Low)
				if !ok {
					proved = false
					return
				}
				lo = k
			}
			okG := false
			for _, g := range guardsOf(call.Block()) {
				x, y, op, isCmp := cmpGuard(g)
				if !isCmp {
					continue
				}
				isLen := func(v ssa.Value) bool {
					v = stripConv(v)
					cl, ok := v.(*ssa.Call)
					if !ok {
						return false
					}
					b, ok := cl.Call.Value.(*ssa.Builtin)
					return ok && b.Name() == "len" && cl.Call.Args[0] == sl.X
				}
				if isLen(x) && (op == token.EQL || op == token.GEQ) {
					if k, ok := constInt(stripConv(y)); ok && k-lo >= need {
						okG = true
					}
				}
				if isLen(x) && op == token.GTR {
					if k, ok := constInt(stripConv(y)); ok && k+1-lo >= need {
						okG = true
					}
				}
			}
			if !okG {
				proved = false
			}
		})
	}
	return seen && proved
}
