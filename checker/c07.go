package main

import (
	"fmt"
	"os"
	"strings"

	"golang.org/x/tools/go/ssa"
)

func init() {
	register("C07", func(r *Report) {
		r.Explanation = "The gateway's MQTT-SN dispatcher and MQTT dispatcher are explored path by path (finite-domain abstract execution over the session state, the dynamic type of the dispatched packet, the auth flag, the connect-transaction phase and the packet flags the guards read) for every (state, trigger, flag valuation). Decided on the extracted automaton: (R1) every write of a non-Disconnected state happens either in the broker-CONNACK handler on the ReturnCode==Accepted(0) valuation, or from a state that is itself only reachable after that (Active/Asleep/Awake) - in the automaton minus the accepted-CONNACK edge no non-Disconnected state is reachable from Disconnected; (R2) CONNACK 'accepted' is sent to the client only on those edges; (R3) in state Disconnected every trigger outside {CONNECT, AUTH, WILLTOPIC, WILLMSG, DISCONNECT(0), PUBLISH(QoS 3, short/predefined, auth off)} returns a non-nil error without reaching any sender, store or state writer; the exempt PUBLISH forwards only an MQTT PUBLISH. Not decided: that the broker CONNACK answers this session's CONNECT (history)."
		r.assume("ClientState is only accessed through Get/Set (C29-R3)")
		r.assume("one incoming packet / one connect transaction is live per dispatcher invocation (cells are per type)")
		r.floor("R1", 4)
		r.floor("R3", 20)
	}, checkC07)
}

func dbg(format string, a ...interface{}) {
	if os.Getenv("BISQ_DEBUG") != "" {
		fmt.Fprintf(os.Stderr, format+"\n", a...)
	}
}

// snScenarios enumerates flag valuations relevant for a trigger type.
func snScenarios(trigger string) []map[string]aval {
	base := []map[string]aval{{}}
	mul := func(in []map[string]aval, cell string, vals ...int64) []map[string]aval {
		var out []map[string]aval
		for _, m := range in {
			for _, v := range vals {
				n := map[string]aval{}
				for k, x := range m {
					n[k] = x
				}
				n[cell] = kint(v)
				out = append(out, n)
			}
		}
		return out
	}
	switch trigger {
	case "*packets1.Publish":
		base = mul(base, "f:packets1.Publish.QOS", 0, 1, 2, 3)
		base = mul(base, "f:packets1.Publish.TopicIDType", 0, 1, 2, 3)
	case "*packets1.Disconnect":
		base = mul(base, "f:packets1.Disconnect.Duration", 0, 30)
	case "*packets1.Connect":
		base = mul(base, "f:packets1.Connect.Duration", 0, 60)
		base = mul(base, "f:packets1.Connect.ProtocolID", 1, 2)
		base = mul(base, "f:packets1.Connect.Will", 0, 1)
	case "*packets1.Subscribe":
		base = mul(base, "f:packets1.Subscribe.TopicIDType", 0, 1, 2, 3)
	case "*packets1.Unsubscribe":
		base = mul(base, "f:packets1.Unsubscribe.TopicIDType", 0, 1, 2, 3)
	}
	return base
}

type gwRun struct {
	State   int64
	Trigger string
	Cells   map[string]aval
	Outs    []Outcome
}

// exploreSN runs the SN dispatcher for all states/triggers/flags/auth values.
func (m *gwModel) exploreSN(r *Report, states []int64, extra map[string][]int64) []gwRun {
	var runs []gwRun
	authCells := m.authCells()
	for _, st := range states {
		for _, trig := range m.snTypes {
			for _, sc := range snScenarios(trig) {
				for _, auth := range []int64{0, 1} {
					combos := []map[string]aval{{}}
					connectExchange := trig == "*packets1.Connect" || trig == "*packets1.Auth" || trig == "*packets1.WillTopic" || trig == "*packets1.WillMsg"
					for cell, vals := range extra {
						if !connectExchange {
							continue
						}
						var nc []map[string]aval
						for _, cm := range combos {
							for _, v := range vals {
								n := map[string]aval{}
								for k, x := range cm {
									n[k] = x
								}
								n[cell] = kint(v)
								nc = append(nc, n)
							}
						}
						combos = nc
					}
					for _, cm := range combos {
						cells := map[string]aval{"state": kint(st), "type:sn": kstr(trig)}
						for k, v := range sc {
							cells[k] = v
						}
						for k, v := range cm {
							cells[k] = v
						}
						for _, ac := range authCells {
							cells[ac] = kint(auth)
						}
						outs, trunc := m.run(m.snDisp, cells)
						if trunc {
							r.undecided("R0", "explore:"+trig, m.c.pos(m.snDisp.Pos()), "path exploration truncated for "+cellsStr(cells))
						}
						runs = append(runs, gwRun{st, trig, cells, outs})
					}
				}
			}
		}
	}
	return runs
}

// authCells: the bool cells that carry the "authentication enabled" setting:
// fields named like the exported GatewayConfig.AuthEnabled option in the
// handler configuration, and struct fields of package gateway whose every
// store originates from such a field.
func (m *gwModel) authCells() []string {
	set := map[string]bool{}
	for _, f := range m.c.repoFuncs("gateway") {
		allInstrs(f, func(i ssa.Instruction) {
			fa, ok := i.(*ssa.FieldAddr)
			if !ok {
				return
			}
			if strings.EqualFold(fieldName(fa.X.Type(), fa.Field), "AuthEnabled") {
				set[fieldCell(fa)] = true
			}
		})
	}
	return sortedKeys(set)
}

func retIsError(o Outcome) bool {
	if len(o.Ret) == 0 {
		return false
	}
	last := o.Ret[len(o.Ret)-1]
	return last == "error" || strings.HasPrefix(last, "global:Err") || last == "nonnil"
}

func retStr(o Outcome) string { return strings.Join(o.Ret, ",") }

func checkC07(c *Ctx, r *Report) {
	m, err := c.newGwModel()
	if err != nil {
		r.undecided("R0", "gateway-model", "-", err.Error())
		return
	}
	r.fn(m.snDisp)
	r.fn(m.mqDisp)
	phaseCell, phases := m.connectPhaseCell()
	extra := map[string][]int64{}
	if phaseCell != "" {
		extra[phaseCell] = phases
	}
	runs := m.exploreSN(r, []int64{0, 1, 2, 3}, extra)
	r.CallSites += len(runs)

	// --- R3: Disconnected state, illegal triggers
	for _, run := range runs {
		if run.State != stDisconnected {
			continue
		}
		key := fmt.Sprintf("Disconnected/%s/%s", run.Trigger, cellsKey(run.Cells))
		auth := cellVal(run.Cells, m.authCells())
		allowedConnectExchange := run.Trigger == "*packets1.Connect" || run.Trigger == "*packets1.Auth" ||
			run.Trigger == "*packets1.WillTopic" || run.Trigger == "*packets1.WillMsg"
		isPlainDisconnect := run.Trigger == "*packets1.Disconnect" && run.Cells["f:packets1.Disconnect.Duration"].i == 0
		isQoSm1 := run.Trigger == "*packets1.Publish" && auth == 0 && run.Cells["f:packets1.Publish.QOS"].i == 3 &&
			(run.Cells["f:packets1.Publish.TopicIDType"].i == 1 || run.Cells["f:packets1.Publish.TopicIDType"].i == 2)
		for _, o := range run.Outs {
			nonDisc := writesNonDisconnected(o)
			switch {
			case allowedConnectExchange:
				// connect exchange: state may only become non-Disconnected in the MQTT CONNACK handler (R1)
				if nonDisc != "" {
					r.bad("R1", key, c.pos(m.snDisp.Pos()), "a connect-exchange packet from the client sets state "+nonDisc+" without a broker CONNACK: "+strings.Join(o.Events, " ; "))
				}
				if ev := acceptedConnackEvent(o); ev != "" {
					r.bad("R2", key, c.pos(m.snDisp.Pos()), "CONNACK accepted sent to a disconnected client without the broker's CONNACK: "+strings.Join(o.Events, " ; "))
				}
			case isPlainDisconnect:
				if nonDisc != "" {
					r.bad("R3", key, c.pos(m.snDisp.Pos()), "DISCONNECT in Disconnected state sets state "+nonDisc)
				}
			case isQoSm1:
				for _, ev := range o.Events {
					if strings.HasPrefix(ev, "mq:") && !strings.HasPrefix(ev, "mq:*mqtt.PublishPacket") {
						r.bad("R3", key, c.pos(m.snDisp.Pos()), "QoS -1 PUBLISH before CONNECT forwards something else than a PUBLISH: "+ev)
					}
					if strings.HasPrefix(ev, "sn:") || nonDisc != "" {
						r.bad("R3", key, c.pos(m.snDisp.Pos()), "QoS -1 PUBLISH before CONNECT has a side effect: "+ev)
					}
				}
			default:
				var eff []string
				for _, ev := range o.Events {
					if strings.HasPrefix(ev, "sn:") || strings.HasPrefix(ev, "mq:") || strings.HasPrefix(ev, "set ") ||
						strings.HasPrefix(ev, "store.Store") || strings.HasPrefix(ev, "syncmap.Store") || strings.HasPrefix(ev, "group.Go") {
						eff = append(eff, ev)
					}
				}
				if len(eff) > 0 || !retIsError(o) {
					r.bad("R3", key, c.pos(m.snDisp.Pos()), fmt.Sprintf("packet outside the connect exchange is handled in Disconnected state: effects [%s], returns %s", strings.Join(eff, " ; "), retStr(o)))
				}
			}
		}
		if len(run.Outs) == 0 {
			r.undecided("R3", key, c.pos(m.snDisp.Pos()), "no path found")
		} else {
			r.ok("R3", key, c.pos(m.snDisp.Pos()), fmt.Sprintf("%d path outcomes examined, e.g. %s", len(run.Outs), run.Outs[0].key()))
		}
	}

	// --- R1: transitions in all states: collect edges (from, to, trigger)
	type edge struct {
		from, to int64
		why      string
	}
	var edges []edge
	for _, run := range runs {
		for _, o := range run.Outs {
			cur := run.State
			for _, ev := range o.Events {
				if strings.HasPrefix(ev, "set state=") {
					var to int64
					if _, err := fmt.Sscanf(ev, "set state=%d", &to); err != nil {
						r.undecided("R1", "state-write-unknown:"+run.Trigger, c.pos(m.snDisp.Pos()), "state written with a value the analysis cannot determine: "+ev)
						continue
					}
					edges = append(edges, edge{cur, to, "SN " + run.Trigger + " " + cellsKey(run.Cells)})
					cur = to
				}
			}
		}
	}
	// MQTT side: CONNACK accepted / refused and every other broker packet
	var mqRuns []gwRun
	for _, st := range []int64{0, 1, 2, 3} {
		for _, trig := range m.mqHandled {
			rcs := []int64{-1}
			if trig == "*mqtt.ConnackPacket" {
				rcs = []int64{0, 1, 2, 3, 4, 5, 6, 0x80, 0xff}
			}
			for _, rc := range rcs {
				for _, tx := range []string{c.gwConnectTx(), "none"} {
					cells := map[string]aval{"state": kint(st), "type:mq": kstr(trig), "type:tx": kstr(tx)}
					if rc >= 0 {
						cells["f:mqtt.ConnackPacket.ReturnCode"] = kint(rc)
					}
					outs, trunc := m.run(m.mqDisp, cells)
					if trunc {
						r.undecided("R0", "explore:"+trig, c.pos(m.mqDisp.Pos()), "path exploration truncated")
					}
					mqRuns = append(mqRuns, gwRun{st, trig, cells, outs})
				}
			}
		}
	}
	r.CallSites += len(mqRuns)
	acceptedEdgeSeen := false
	for _, run := range mqRuns {
		key := fmt.Sprintf("%s/%s/%s", stateNames[run.State], run.Trigger, cellsKey(run.Cells))
		isAcceptedConnack := run.Trigger == "*mqtt.ConnackPacket" && run.Cells["f:mqtt.ConnackPacket.ReturnCode"].i == 0 &&
			run.Cells["type:tx"].s == c.gwConnectTx()
		for _, o := range run.Outs {
			nd := writesNonDisconnected(o)
			acc := acceptedConnackEvent(o)
			if isAcceptedConnack {
				if nd != "" {
					acceptedEdgeSeen = true
				}
				continue
			}
			if run.State == stDisconnected && nd != "" {
				r.bad("R1", key, c.pos(m.mqDisp.Pos()), "broker packet other than an accepted CONNACK for a pending connect transaction moves a disconnected session to "+nd+": "+strings.Join(o.Events, " ; "))
			}
			if acc != "" && run.Trigger == "*mqtt.ConnackPacket" {
				r.bad("R2", key, c.pos(m.mqDisp.Pos()), "CONNACK accepted sent to the client although the broker's return code is not 0 / no connect transaction: "+strings.Join(o.Events, " ; "))
			}
			if run.Trigger != "*mqtt.ConnackPacket" && nd != "" && run.State == stDisconnected {
				r.bad("R1", key, c.pos(m.mqDisp.Pos()), "state "+nd+" written on "+run.Trigger)
			}
		}
		if run.Trigger == "*mqtt.ConnackPacket" {
			r.ok("R2", key, c.pos(m.mqDisp.Pos()), fmt.Sprintf("%d outcomes: %s", len(run.Outs), firstOutcome(run.Outs)))
		}
	}
	if !acceptedEdgeSeen {
		r.undecided("R1", "accepted-connack-edge", c.pos(m.mqDisp.Pos()), "no path on which an accepted broker CONNACK activates the session was found")
	} else {
		r.ok("R1", "accepted-connack-edge", c.pos(m.mqDisp.Pos()), "state leaves Disconnected on ConnackPacket.ReturnCode==0 with a pending connect transaction")
	}
	// reachability from Disconnected without the accepted-CONNACK edge
	reach := map[int64]string{}
	for _, ed := range edges {
		if ed.from == stDisconnected && ed.to != stDisconnected {
			reach[ed.to] = ed.why
		}
	}
	for to, why := range reach {
		r.bad("R1", "Disconnected->"+stateNames[to], c.pos(m.snDisp.Pos()), "client packet moves a never-connected session to "+stateNames[to]+": "+why)
	}
	// summarise legal edges
	seenEdge := map[string]bool{}
	for _, ed := range edges {
		k := stateNames[ed.from] + "->" + stateNames[ed.to]
		if ed.from == stDisconnected && ed.to != stDisconnected {
			continue
		}
		if !seenEdge[k] {
			seenEdge[k] = true
			r.ok("R1", "edge:"+k, c.pos(m.snDisp.Pos()), "transition by "+ed.why)
		}
	}
	// R2 (SN side, all states): CONNACK accepted sends
	for _, run := range runs {
		for _, o := range run.Outs {
			if acc := acceptedConnackEvent(o); acc != "" {
				key := fmt.Sprintf("connack-accepted:%s/%s", stateNames[run.State], run.Trigger)
				if run.Trigger == "*packets1.Connect" && (run.State == stAwake || run.State == stAsleep) {
					r.ok("R2", key, c.pos(m.snDisp.Pos()), "CONNACK accepted for the state-changing CONNECT of a sleeping client (was connected before)")
				} else {
					r.bad("R2", key, c.pos(m.snDisp.Pos()), "CONNACK accepted sent on a client packet: "+strings.Join(o.Events, " ; "))
				}
			}
		}
	}
	if os.Getenv("BISQ_DEBUG") != "" {
		for _, run := range append(runs, mqRuns...) {
			for _, o := range run.Outs {
				dbg("%s %s [%s] :: %s", stateNames[run.State], run.Trigger, cellsKey(run.Cells), o.key())
			}
		}
	}
}

func firstOutcome(os []Outcome) string {
	if len(os) == 0 {
		return "-"
	}
	return strings.Join(os[0].Events, " ; ") + " => " + retStr(os[0])
}

func cellsKey(cells map[string]aval) string {
	var parts []string
	for k, v := range cells {
		if k == "state" || k == "type:sn" || k == "type:mq" {
			continue
		}
		k = strings.TrimPrefix(k, "f:")
		parts = append(parts, k+"="+v.String())
	}
	sortStrings(parts)
	return strings.Join(parts, ",")
}

func cellVal(cells map[string]aval, names []string) int64 {
	for _, n := range names {
		if v, ok := cells[n]; ok {
			return v.i
		}
	}
	return -1
}

func writesNonDisconnected(o Outcome) string {
	for _, ev := range o.Events {
		if strings.HasPrefix(ev, "set state=") && ev != "set state=0" {
			var to int64
			if _, err := fmt.Sscanf(ev, "set state=%d", &to); err == nil {
				return stateNames[to]
			}
			return ev
		}
	}
	return ""
}

func acceptedConnackEvent(o Outcome) string {
	for _, ev := range o.Events {
		if strings.HasPrefix(ev, "sn:*packets1.Connack{NewConnack(0)}") {
			return ev
		}
		if strings.HasPrefix(ev, "sn:") && strings.Contains(ev, "Connack") && !strings.Contains(ev, "NewConnack(") {
			return ev // connack of unknown code: treated as possibly accepted
		}
		if strings.HasPrefix(ev, "sn:") && strings.Contains(ev, "NewConnack(?)") {
			return ev
		}
	}
	return ""
}

// connectPhaseCell finds the phase field of the gateway connect transaction:
// an integer field of a gateway struct that embeds *TimedTransaction and holds
// a *ConnectPacket, compared with constants in its methods.
func (m *gwModel) connectPhaseCell() (string, []int64) {
	vals := map[int64]bool{}
	cell := ""
	for _, f := range m.c.repoFuncs("gateway") {
		allInstrs(f, func(i ssa.Instruction) {
			b, ok := i.(*ssa.BinOp)
			if !ok {
				return
			}
			u, ok := b.X.(*ssa.UnOp)
			if !ok {
				return
			}
			fa, ok := u.X.(*ssa.FieldAddr)
			if !ok {
				return
			}
			st := structOf(fa.X.Type())
			if st == nil {
				return
			}
			hasConnect := false
			for k := 0; k < st.NumFields(); k++ {
				if typeIs(st.Field(k).Type(), pahoPkts, "ConnectPacket") {
					hasConnect = true
				}
			}
			if !hasConnect {
				return
			}
			if k, ok := constInt(b.Y); ok {
				cell = fieldCell(fa)
				vals[k] = true
			}
		})
	}
	if cell == "" {
		return "", nil
	}
	// domain: all constants of the field's named type
	var out []int64
	max := int64(0)
	for v := range vals {
		if v > max {
			max = v
		}
	}
	for v := int64(0); v <= max+1; v++ {
		out = append(out, v)
	}
	return cell, out
}
