package main

import (
	"fmt"
	"go/constant"
	"go/token"
	"go/types"
	"sort"
	"strings"

	"golang.org/x/tools/go/ssa"
)

type domInfo struct{}

// ---------------------------------------------------------------------------
// Callee resolution

// staticCallee returns the statically known callee of a call instruction
// (function, method, or closure literal), or nil.
func staticCallee(cc *ssa.CallCommon) *ssa.Function {
	if cc.IsInvoke() {
		return nil
	}
	switch v := cc.Value.(type) {
	case *ssa.Function:
		return v
	case *ssa.MakeClosure:
		if f, ok := v.Fn.(*ssa.Function); ok {
			return f
		}
	}
	return nil
}

// calleeName gives "pkgpath.Func", "(*pkgpath.T).M" or, for interface
// invokes, "iface:(pkgpath.I).M".
func calleeName(cc *ssa.CallCommon) string {
	if cc.IsInvoke() {
		recv := cc.Value.Type()
		return "iface:(" + types.TypeString(recv, nil) + ")." + cc.Method.Name()
	}
	if f := staticCallee(cc); f != nil {
		return f.String()
	}
	if b, ok := cc.Value.(*ssa.Builtin); ok {
		return "builtin:" + b.Name()
	}
	return ""
}

func isCallTo(i ssa.Instruction, names ...string) (*ssa.CallCommon, bool) {
	ci, ok := i.(ssa.CallInstruction)
	if !ok {
		return nil, false
	}
	n := calleeName(ci.Common())
	for _, w := range names {
		if n == w {
			return ci.Common(), true
		}
	}
	return nil, false
}

// callArgs returns the actual arguments including the receiver as arg 0 for
// both static method calls and interface invokes.
func callArgs(cc *ssa.CallCommon) []ssa.Value {
	if cc.IsInvoke() {
		return append([]ssa.Value{cc.Value}, cc.Args...)
	}
	return cc.Args
}

func allInstrs(f *ssa.Function, fn func(ssa.Instruction)) {
	for _, b := range f.Blocks {
		for _, i := range b.Instrs {
			fn(i)
		}
	}
}

// ---------------------------------------------------------------------------
// Guards (A3)

type Guard struct {
	Cond  ssa.Value
	Truth bool
}

func (g Guard) String() string {
	s := exprStr(g.Cond)
	if !g.Truth {
		return "!(" + s + ")"
	}
	return s
}

func edgeOnlyFrom(p, s *ssa.BasicBlock) bool {
	for _, q := range s.Preds {
		if q != p && !s.Dominates(q) {
			return false
		}
	}
	return true
}

// guardsOf returns the branch conditions that hold on every path to block b.
func guardsOf(b *ssa.BasicBlock) []Guard {
	var out []Guard
	for d := b; d != nil; d = d.Idom() {
		p := d.Idom()
		if p == nil {
			break
		}
		// p strictly dominates b. Which successor edge of p leads to b?
		iff, ok := p.Instrs[len(p.Instrs)-1].(*ssa.If)
		if !ok {
			continue
		}
		t, f := p.Succs[0], p.Succs[1]
		if t == f {
			continue
		}
		if t.Dominates(b) && edgeOnlyFrom(p, t) && !(f.Dominates(b) && edgeOnlyFrom(p, f)) {
			out = append(out, normGuard(iff.Cond, true)...)
		} else if f.Dominates(b) && edgeOnlyFrom(p, f) {
			out = append(out, normGuard(iff.Cond, false)...)
		}
	}
	return out
}

// guardsOfEdge returns the conditions that hold when control goes pred->succ.
func guardsOfEdge(pred, succ *ssa.BasicBlock) []Guard {
	out := guardsOf(pred)
	if iff, ok := pred.Instrs[len(pred.Instrs)-1].(*ssa.If); ok && pred.Succs[0] != pred.Succs[1] {
		if pred.Succs[0] == succ {
			out = append(out, normGuard(iff.Cond, true)...)
		} else if pred.Succs[1] == succ {
			out = append(out, normGuard(iff.Cond, false)...)
		}
	}
	return out
}

func normGuard(c ssa.Value, truth bool) []Guard {
	for {
		if u, ok := c.(*ssa.UnOp); ok && u.Op == token.NOT {
			c = u.X
			truth = !truth
			continue
		}
		break
	}
	return []Guard{{c, truth}}
}

// cmpGuard decomposes a guard into (lhs op rhs) with the truth applied:
// returns the effective operator.
func cmpGuard(g Guard) (x, y ssa.Value, op token.Token, ok bool) {
	b, isb := g.Cond.(*ssa.BinOp)
	if !isb {
		return nil, nil, 0, false
	}
	op = b.Op
	if !g.Truth {
		switch op {
		case token.EQL:
			op = token.NEQ
		case token.NEQ:
			op = token.EQL
		case token.LSS:
			op = token.GEQ
		case token.LEQ:
			op = token.GTR
		case token.GTR:
			op = token.LEQ
		case token.GEQ:
			op = token.LSS
		default:
			return nil, nil, 0, false
		}
	}
	switch op {
	case token.EQL, token.NEQ, token.LSS, token.LEQ, token.GTR, token.GEQ:
		return b.X, b.Y, op, true
	}
	return nil, nil, 0, false
}

func constInt(v ssa.Value) (int64, bool) {
	for {
		switch t := v.(type) {
		case *ssa.Convert:
			v = t.X
			continue
		case *ssa.ChangeType:
			v = t.X
			continue
		case *ssa.MakeInterface:
			// interface holding a constant (state values stored as interface{})
			v = t.X
			continue
		}
		break
	}
	c, ok := v.(*ssa.Const)
	if !ok || c.Value == nil {
		return 0, false
	}
	if c.Value.Kind() != constant.Int {
		return 0, false
	}
	i, ok := constant.Int64Val(c.Value)
	return i, ok
}

func constBool(v ssa.Value) (bool, bool) {
	c, ok := v.(*ssa.Const)
	if !ok || c.Value == nil || c.Value.Kind() != constant.Bool {
		return false, false
	}
	return constant.BoolVal(c.Value), true
}

func constString(v ssa.Value) (string, bool) {
	c, ok := v.(*ssa.Const)
	if !ok || c.Value == nil || c.Value.Kind() != constant.String {
		return "", false
	}
	return constant.StringVal(c.Value), true
}

// ---------------------------------------------------------------------------
// Expression rendering (line independent)

func exprStr(v ssa.Value) string { return exprStrD(v, 0) }

func exprStrD(v ssa.Value, d int) string {
	if v == nil {
		return "<nil>"
	}
	if d > 6 {
		return "…"
	}
	switch t := v.(type) {
	case *ssa.Const:
		if t.Value == nil {
			return "nil"
		}
		return t.Value.ExactString()
	case *ssa.Parameter:
		return t.Name()
	case *ssa.FreeVar:
		return t.Name()
	case *ssa.Global:
		return t.Name()
	case *ssa.Function:
		return fnKey(t)
	case *ssa.FieldAddr:
		return exprStrD(t.X, d+1) + "." + fieldName(t.X.Type(), t.Field)
	case *ssa.Field:
		return exprStrD(t.X, d+1) + "." + fieldName(t.X.Type(), t.Field)
	case *ssa.UnOp:
		if t.Op == token.MUL {
			return exprStrD(t.X, d+1)
		}
		return t.Op.String() + exprStrD(t.X, d+1)
	case *ssa.BinOp:
		return "(" + exprStrD(t.X, d+1) + " " + t.Op.String() + " " + exprStrD(t.Y, d+1) + ")"
	case *ssa.Convert:
		return exprStrD(t.X, d+1)
	case *ssa.ChangeType:
		return exprStrD(t.X, d+1)
	case *ssa.ChangeInterface:
		return exprStrD(t.X, d+1)
	case *ssa.MakeInterface:
		return exprStrD(t.X, d+1)
	case *ssa.TypeAssert:
		return exprStrD(t.X, d+1) + ".(" + typeStr(t.AssertedType) + ")"
	case *ssa.Extract:
		return exprStrD(t.Tuple, d+1) + fmt.Sprintf("#%d", t.Index)
	case *ssa.Call:
		var as []string
		for _, a := range callArgs(&t.Call) {
			as = append(as, exprStrD(a, d+2))
		}
		n := calleeName(&t.Call)
		n = strings.ReplaceAll(n, modPath+"/", "")
		n = strings.ReplaceAll(n, pahoPkts, "mqtt")
		return n + "(" + strings.Join(as, ", ") + ")"
	case *ssa.Phi:
		var es []string
		for _, e := range t.Edges {
			es = append(es, exprStrD(e, d+2))
		}
		return "phi(" + strings.Join(es, " | ") + ")"
	case *ssa.Alloc:
		if t.Comment != "" {
			return "&" + t.Comment
		}
		return "new(" + typeStr(t.Type()) + ")"
	case *ssa.Lookup:
		return exprStrD(t.X, d+1) + "[" + exprStrD(t.Index, d+1) + "]"
	case *ssa.Index:
		return exprStrD(t.X, d+1) + "[" + exprStrD(t.Index, d+1) + "]"
	case *ssa.IndexAddr:
		return exprStrD(t.X, d+1) + "[" + exprStrD(t.Index, d+1) + "]"
	case *ssa.Slice:
		lo, hi := "", ""
		if t.Low != nil {
			lo = exprStrD(t.Low, d+1)
		}
		if t.High != nil {
			hi = exprStrD(t.High, d+1)
		}
		return exprStrD(t.X, d+1) + "[" + lo + ":" + hi + "]"
	case *ssa.MakeClosure:
		return "closure " + fnKey(t.Fn.(*ssa.Function))
	}
	return v.Name() + ":" + fmt.Sprintf("%T", v)
}

func structOf(t types.Type) *types.Struct {
	for {
		switch tt := t.(type) {
		case *types.Pointer:
			t = tt.Elem()
			continue
		case *types.Named:
			t = tt.Underlying()
			continue
		case *types.Alias:
			t = types.Unalias(tt)
			continue
		case *types.Struct:
			return tt
		}
		return nil
	}
}

func fieldName(t types.Type, idx int) string {
	s := structOf(t)
	if s == nil || idx >= s.NumFields() {
		return fmt.Sprintf("f%d", idx)
	}
	if n, ok := canonicalFieldNames[s.Field(idx)]; ok {
		return n
	}
	return s.Field(idx).Name()
}

// canonicalFieldNames: an unexported field of a codec struct (packages packets,
// packets1) that an exported getter returns is named after the getter, not
// after its own (freely renameable) identifier: MessageID() -> "messageID",
// DUP() -> "dup". The rules, the specification table and the known-finding keys
// speak about the role of the field, so renaming it changes nothing. Filled by
// loadRepo (per loaded configuration; the *types.Var keys are distinct).
var canonicalFieldNames = map[*types.Var]string{}

func getterCanonical(getter string) string {
	if strings.ToUpper(getter) == getter {
		return strings.ToLower(getter)
	}
	return strings.ToLower(getter[:1]) + getter[1:]
}

func (c *Ctx) fillCanonicalFieldNames() {
	for _, rel := range []string{"packets", "packets1"} {
		for _, f := range c.repoFuncs(rel) {
			if f.Parent() != nil || f.Signature.Recv() == nil || f.Object() == nil || !f.Object().Exported() {
				continue
			}
			if f.Signature.Params().Len() != 0 || f.Signature.Results().Len() != 1 || len(f.Blocks) != 1 {
				continue
			}
			ret, ok := f.Blocks[0].Instrs[len(f.Blocks[0].Instrs)-1].(*ssa.Return)
			if !ok || len(ret.Results) != 1 {
				continue
			}
			u, ok := ret.Results[0].(*ssa.UnOp)
			if !ok || u.Op != token.MUL {
				continue
			}
			fa, ok := u.X.(*ssa.FieldAddr)
			if !ok || fa.X != ssa.Value(f.Params[0]) {
				continue
			}
			st := structOf(fa.X.Type())
			if st == nil || fa.Field >= st.NumFields() {
				continue
			}
			fv := st.Field(fa.Field)
			if fv.Exported() {
				continue
			}
			canonicalFieldNames[fv] = getterCanonical(f.Name())
		}
	}
}

// ---------------------------------------------------------------------------
// Origins (A1)

type Origin struct {
	Kind    string // param const call global alloc freevar lookup binop range other
	Root    ssa.Value
	Path    []string
	Val     ssa.Value
	Callee  string
	ResIdx  int
	Guards  []Guard
	Args    []ssa.Value
	ViaCall []string
	AsType  types.Type // static type the root was asserted/dereferenced to
	Sliced  bool       // the value went through a proper sub-slice x[a:b] on the way (part of the origin, not all of it)
}

// RootType is the type of the object the path starts at.
func (o Origin) RootType() types.Type {
	if o.AsType != nil {
		return o.AsType
	}
	if o.Root != nil {
		return o.Root.Type()
	}
	return nil
}

func (o Origin) PathStr() string { return strings.Join(o.Path, ".") }

func (o Origin) String() string {
	p := ""
	if len(o.Path) > 0 {
		p = "." + o.PathStr()
	}
	if o.Sliced {
		p += "[part]"
	}
	switch o.Kind {
	case "param":
		return "param(" + typeStr(o.RootType()) + ")" + p
	case "freevar":
		return "freevar(" + typeStr(o.RootType()) + ")" + p
	case "const":
		return "const " + exprStr(o.Val)
	case "call":
		n := strings.ReplaceAll(o.Callee, modPath+"/", "")
		n = strings.ReplaceAll(n, pahoPkts, "mqtt")
		return fmt.Sprintf("call %s#%d%s", n, o.ResIdx, p)
	case "global":
		return "global " + exprStr(o.Val) + p
	default:
		return o.Kind + " " + exprStr(o.Val) + p
	}
}

type tracer struct {
	c       *Ctx
	depth   int
	visited map[ssa.Value]bool
	inline  bool
}

// origins computes the set of sources a value derives from.
func (c *Ctx) origins(v ssa.Value) []Origin {
	t := &tracer{c: c, visited: map[ssa.Value]bool{}, inline: true}
	return dedupOrigins(t.trace(v, nil))
}

func dedupOrigins(os []Origin) []Origin {
	seen := map[string]bool{}
	var out []Origin
	for _, o := range os {
		k := o.String() + "|" + guardsStr(o.Guards)
		if !seen[k] {
			seen[k] = true
			out = append(out, o)
		}
	}
	return out
}

func guardsStr(gs []Guard) string {
	var s []string
	for _, g := range gs {
		s = append(s, g.String())
	}
	sort.Strings(s)
	return strings.Join(s, " && ")
}

func withPath(os []Origin, path []string) []Origin {
	if len(path) == 0 {
		return os
	}
	out := make([]Origin, len(os))
	for i, o := range os {
		o.Path = append(append([]string{}, o.Path...), path...)
		out[i] = o
	}
	return out
}

func withGuards(os []Origin, gs []Guard) []Origin {
	if len(gs) == 0 {
		return os
	}
	out := make([]Origin, len(os))
	for i, o := range os {
		o.Guards = append(append([]Guard{}, o.Guards...), gs...)
		out[i] = o
	}
	return out
}

// trace follows v backwards. path is the field path to append once a root is
// found (innermost last).
func (t *tracer) trace(v ssa.Value, path []string) []Origin {
	if t.visited[v] {
		return nil
	}
	t.visited[v] = true
	defer func() { delete(t.visited, v) }()
	switch x := v.(type) {
	case *ssa.Const:
		return []Origin{{Kind: "const", Val: x, Path: path}}
	case *ssa.Parameter:
		return []Origin{{Kind: "param", Root: x, Val: x, Path: path}}
	case *ssa.FreeVar:
		return []Origin{{Kind: "freevar", Root: x, Val: x, Path: path}}
	case *ssa.Global:
		return []Origin{{Kind: "global", Root: x, Val: x, Path: path}}
	case *ssa.Function:
		return []Origin{{Kind: "func", Val: x, Path: path}}
	case *ssa.Phi:
		if isLoopCounter(x) {
			return []Origin{{Kind: "loopcounter", Val: x, Path: path}}
		}
		var out []Origin
		for i, e := range x.Edges {
			gs := guardsOfEdge(x.Block().Preds[i], x.Block())
			out = append(out, withGuards(t.trace(e, path), gs)...)
		}
		return out
	case *ssa.Convert:
		return t.trace(x.X, path)
	case *ssa.ChangeType:
		return t.trace(x.X, path)
	case *ssa.ChangeInterface:
		return t.trace(x.X, path)
	case *ssa.MakeInterface:
		return t.trace(x.X, path)
	case *ssa.TypeAssert:
		os := t.trace(x.X, path)
		if _, isIface := x.AssertedType.Underlying().(*types.Interface); !isIface {
			for i := range os {
				if os[i].AsType == nil && len(os[i].Path) == len(path) {
					os[i].AsType = x.AssertedType
				}
			}
		}
		return os
	case *ssa.Slice:
		os := t.trace(x.X, path)
		if x.Low != nil || x.High != nil {
			// s[0:] and s[:len(s)] would be whole, but nobody writes those; anything else is a part
			if k, isC := constInt(x.Low); !(x.High == nil && x.Low != nil && isC && k == 0) {
				for i := range os {
					os[i].Sliced = true
				}
			}
		}
		return os
	case *ssa.FieldAddr:
		return t.trace(x.X, append([]string{fieldName(x.X.Type(), x.Field)}, path...))
	case *ssa.Field:
		return t.trace(x.X, append([]string{fieldName(x.X.Type(), x.Field)}, path...))
	case *ssa.UnOp:
		if x.Op == token.MUL {
			// load
			switch a := x.X.(type) {
			case *ssa.FieldAddr:
				if sv := dominatingFieldStore(x, a); sv != nil {
					return t.trace(sv, path)
				}
				return t.trace(a, path)
			case *ssa.Alloc:
				return t.traceAlloc(a, path, x)
			case *ssa.Global:
				return []Origin{{Kind: "global", Root: a, Val: a, Path: path}}
			case *ssa.FreeVar:
				// captured variable (pointer to it): resolve to the enclosing
				// function's parameter when the cell is only initialised from it
				if p := capturedParam(a); p != nil {
					return []Origin{{Kind: "param", Root: p, Val: p, Path: path}}
				}
				return []Origin{{Kind: "freevar", Root: a, Val: a, Path: path, AsType: derefType(a.Type())}}
			case *ssa.IndexAddr:
				return []Origin{{Kind: "index", Val: x, Path: path, Args: []ssa.Value{a.X, a.Index}}}
			default:
				return t.trace(x.X, path)
			}
		}
		if x.Op == token.ARROW {
			return []Origin{{Kind: "recv", Val: x, Path: path}}
		}
		os := t.trace(x.X, nil)
		for i := range os {
			os[i].Kind = "arith:" + os[i].Kind
		}
		return os
	case *ssa.Alloc:
		return t.traceAlloc(x, path, nil)
	case *ssa.BinOp:
		return []Origin{{Kind: "binop", Val: x, Path: path, Args: []ssa.Value{x.X, x.Y}}}
	case *ssa.Extract:
		switch tup := x.Tuple.(type) {
		case *ssa.Call:
			return t.traceCall(tup, x.Index, path)
		case *ssa.TypeAssert:
			if x.Index == 0 {
				os := t.trace(tup.X, path)
				if _, isIface := tup.AssertedType.Underlying().(*types.Interface); !isIface {
					for i := range os {
						if os[i].AsType == nil && len(os[i].Path) == len(path) {
							os[i].AsType = tup.AssertedType
						}
					}
				}
				return os
			}
			return []Origin{{Kind: "commaok", Val: x, Path: path}}
		case *ssa.Lookup:
			if x.Index == 0 {
				return []Origin{{Kind: "lookup", Val: tup, Path: path, Args: []ssa.Value{tup.X, tup.Index}}}
			}
			return []Origin{{Kind: "commaok", Val: x, Path: path}}
		case *ssa.Next:
			return []Origin{{Kind: "range", Val: x, Path: path, ResIdx: x.Index, Args: []ssa.Value{tup.Iter}}}
		case *ssa.UnOp:
			return []Origin{{Kind: "recv", Val: x, Path: path}}
		}
		return []Origin{{Kind: "other", Val: x, Path: path}}
	case *ssa.Call:
		return t.traceCall(x, 0, path)
	case *ssa.Lookup:
		return []Origin{{Kind: "lookup", Val: x, Path: path, Args: []ssa.Value{x.X, x.Index}}}
	case *ssa.Index:
		return []Origin{{Kind: "index", Val: x, Path: path, Args: []ssa.Value{x.X, x.Index}}}
	case *ssa.IndexAddr:
		return []Origin{{Kind: "index", Val: x, Path: path, Args: []ssa.Value{x.X, x.Index}}}
	case *ssa.MakeSlice, *ssa.MakeMap, *ssa.MakeChan:
		return []Origin{{Kind: "make", Val: x, Path: path}}
	case *ssa.MakeClosure:
		return []Origin{{Kind: "closure", Val: x, Path: path}}
	}
	return []Origin{{Kind: "other", Val: v, Path: path}}
}

// traceAlloc: a local variable cell or a heap object. For cells holding a
// scalar we follow all stores; for struct objects with a field path we follow
// the stores to that field.
func (t *tracer) traceAlloc(a *ssa.Alloc, path []string, load ssa.Instruction) []Origin {
	all := t.c.storesTo(a, path)
	var stores []storeRec
	for _, s := range all {
		// `*x = *x` (named results being "returned") carries no information
		if u, ok := s.Val.(*ssa.UnOp); ok && u.Op == token.MUL && u.X == ssa.Value(a) && len(path) == 0 {
			continue
		}
		stores = append(stores, s)
	}
	if stores == nil {
		return []Origin{{Kind: "alloc", Root: a, Val: a, Path: path}}
	}
	var out []Origin
	found := false
	for _, s := range stores {
		found = true
		out = append(out, withGuards(t.trace(s.Val, s.Rest), guardsOf(s.Instr.Block()))...)
	}
	if !found {
		return []Origin{{Kind: "alloc", Root: a, Val: a, Path: path}}
	}
	// zero value is also possible if some path has no store - keep it simple:
	// report a "zero" origin when the alloc is a struct field path (fields start zeroed)
	if len(path) > 0 {
		// the zero value survives only if some path from the allocation to an
		// exit of the function passes no store of the field
		set := map[ssa.Instruction]bool{}
		for _, s := range stores {
			set[s.Instr] = true
		}
		if reach, _ := pathExists(a.Parent(), a, func(i ssa.Instruction) bool { _, ok := i.(*ssa.Return); return ok }, func(i ssa.Instruction) bool { return set[i] }); reach {
			out = append(out, Origin{Kind: "zero", Root: a, Val: a, Path: path})
		}
	}
	return out
}

type storeRec struct {
	Instr ssa.Instruction
	Val   ssa.Value
	Rest  []string // remaining path below the stored value
}

// storesTo lists Store instructions in a's function that write a (when path is
// empty) or the field path below it. A store of a whole struct value to a prefix
// of the path is returned with the remaining path.
func (c *Ctx) storesTo(a ssa.Value, path []string) []storeRec {
	var out []storeRec
	var walk func(addr ssa.Value, rest []string, depth int)
	walk = func(addr ssa.Value, rest []string, depth int) {
		if depth > 8 {
			return
		}
		refs := addr.Referrers()
		if refs == nil {
			return
		}
		for _, r := range *refs {
			switch i := r.(type) {
			case *ssa.Store:
				if i.Addr == addr {
					out = append(out, storeRec{i, i.Val, rest})
				}
			case *ssa.FieldAddr:
				if i.X == addr && len(rest) > 0 && fieldName(addr.Type(), i.Field) == rest[0] {
					walk(i, rest[1:], depth+1)
				}
			case *ssa.IndexAddr:
				// element of a small array literal ([]T{x}): treated as the value itself
				if i.X == addr {
					if _, isArr := derefType(addr.Type()).Underlying().(*types.Array); isArr {
						walk(i, rest, depth+1)
					}
				}
			}
		}
	}
	walk(a, path, 0)
	return out
}

// traceCall handles getters / constructors by inlining their return origins.
func (t *tracer) traceCall(call *ssa.Call, idx int, path []string) []Origin {
	cc := &call.Call
	name := calleeName(cc)
	generic := Origin{Kind: "call", Val: call, Callee: name, ResIdx: idx, Path: path, Args: callArgs(cc)}
	f := staticCallee(cc)
	if f == nil || f.Blocks == nil || !t.inline || t.depth >= 4 {
		return []Origin{generic}
	}
	if !strings.HasPrefix(fnPkgPath(f), modPath) {
		return []Origin{generic}
	}
	if countInstrs(f) > 60 || takesLock(f) {
		return []Origin{generic}
	}
	// inline: origins of each return operand idx
	t.depth++
	defer func() { t.depth-- }()
	var out []Origin
	simple := true
	for _, b := range f.Blocks {
		ret, ok := b.Instrs[len(b.Instrs)-1].(*ssa.Return)
		if !ok || idx >= len(ret.Results) {
			continue
		}
		sub := &tracer{c: t.c, visited: map[ssa.Value]bool{}, inline: true, depth: t.depth}
		// the requested field path is resolved inside the callee (constructors
		// return a fresh object whose fields are stored from the parameters)
		ros := withGuards(sub.trace(ret.Results[idx], path), guardsOf(b))
		for _, ro := range ros {
			switch ro.Kind {
			case "param":
				p := ro.Root.(*ssa.Parameter)
				pi := paramIndex(f, p)
				if pi < 0 || pi >= len(cc.Args) {
					simple = false
					continue
				}
				mapped := t.trace(cc.Args[pi], append([]string{}, ro.Path...))
				for i := range mapped {
					mapped[i].ViaCall = append(mapped[i].ViaCall, fnKey(f))
					if ro.Sliced {
						mapped[i].Sliced = true
					}
					// the conditions under which the callee returns this value (they speak about the callee's parameters)
					mapped[i].Guards = append(append([]Guard{}, mapped[i].Guards...), ro.Guards...)
				}
				out = append(out, mapped...)
			case "const", "zero":
				ro.ViaCall = append(ro.ViaCall, fnKey(f))
				out = append(out, ro)
			default:
				simple = false
			}
		}
	}
	if !simple || len(out) == 0 {
		return []Origin{generic}
	}
	return out
}

// takesLock: the function locks a mutex (stateful operation: its result is
// not a pure function of its arguments, never inlined by the origin tracer).
func takesLock(f *ssa.Function) bool {
	found := false
	allInstrs(f, func(i ssa.Instruction) {
		if ci, ok := i.(ssa.CallInstruction); ok {
			if _, op, _ := lockOp(ci.Common()); op != 0 {
				found = true
			}
		}
	})
	return found
}

func countInstrs(f *ssa.Function) int {
	n := 0
	for _, b := range f.Blocks {
		n += len(b.Instrs)
	}
	return n
}

func paramIndex(f *ssa.Function, p *ssa.Parameter) int {
	for i, q := range f.Params {
		if q == p {
			return i
		}
	}
	return -1
}

// ---------------------------------------------------------------------------
// Intra-procedural reachability on instructions (A2)

type ipos struct {
	b *ssa.BasicBlock
	i int
}

func instrIndex(i ssa.Instruction) ipos {
	b := i.Block()
	for k, j := range b.Instrs {
		if j == i {
			return ipos{b, k}
		}
	}
	return ipos{b, -1}
}

// pathExists reports whether some CFG path starting right after `from` reaches
// an instruction satisfying `to` without executing an instruction satisfying
// `avoid` first. If from is nil the search starts at function entry.
func pathExists(f *ssa.Function, from ssa.Instruction, to func(ssa.Instruction) bool, avoid func(ssa.Instruction) bool) (bool, ssa.Instruction) {
	type st struct {
		b *ssa.BasicBlock
		i int
	}
	var start st
	if from == nil {
		start = st{f.Blocks[0], 0}
	} else {
		p := instrIndex(from)
		start = st{p.b, p.i + 1}
	}
	seen := map[*ssa.BasicBlock]bool{}
	work := []st{start}
	first := true
	for len(work) > 0 {
		s := work[len(work)-1]
		work = work[:len(work)-1]
		if s.i == 0 {
			if seen[s.b] {
				continue
			}
			seen[s.b] = true
		} else if !first {
			continue
		}
		first = false
		blocked := false
		for k := s.i; k < len(s.b.Instrs); k++ {
			in := s.b.Instrs[k]
			if to(in) {
				return true, in
			}
			if avoid != nil && avoid(in) {
				blocked = true
				break
			}
		}
		if blocked {
			continue
		}
		for _, n := range s.b.Succs {
			work = append(work, st{n, 0})
		}
	}
	return false, nil
}

// ---------------------------------------------------------------------------
// Call summaries: which repo functions can (transitively, through static calls
// and closures they create/invoke) reach an instruction satisfying pred.

func (c *Ctx) calleesOf(f *ssa.Function) []*ssa.Function {
	var out []*ssa.Function
	seen := map[*ssa.Function]bool{}
	node := c.CG().Nodes[f]
	if node == nil {
		return nil
	}
	for _, e := range node.Out {
		g := e.Callee.Func
		if g != nil && !seen[g] {
			seen[g] = true
			out = append(out, g)
		}
	}
	return out
}

// staticCalleesOf uses only statically resolved calls (and go/defer).
func staticCalleesOf(f *ssa.Function) []*ssa.Function {
	var out []*ssa.Function
	seen := map[*ssa.Function]bool{}
	allInstrs(f, func(i ssa.Instruction) {
		if ci, ok := i.(ssa.CallInstruction); ok {
			if g := staticCallee(ci.Common()); g != nil && !seen[g] {
				seen[g] = true
				out = append(out, g)
			}
		}
	})
	return out
}

// reachSet: functions from which a function in `targets` is reachable through
// static calls within the repo (bounded depth).
func (c *Ctx) mayReachStatic(f *ssa.Function, targets map[*ssa.Function]bool, depth int) bool {
	seen := map[*ssa.Function]bool{}
	var rec func(g *ssa.Function, d int) bool
	rec = func(g *ssa.Function, d int) bool {
		if targets[g] {
			return true
		}
		if seen[g] || d > depth {
			return false
		}
		seen[g] = true
		for _, h := range staticCalleesOf(g) {
			if rec(h, d+1) {
				return true
			}
		}
		return false
	}
	return rec(f, 0)
}

// closuresIn returns the anonymous functions defined (transitively) inside f.
func closuresIn(f *ssa.Function) []*ssa.Function {
	var out []*ssa.Function
	var rec func(g *ssa.Function)
	rec = func(g *ssa.Function) {
		for _, a := range g.AnonFuncs {
			out = append(out, a)
			rec(a)
		}
	}
	rec(f)
	return out
}

// ---------------------------------------------------------------------------
// misc

func isNilConst(v ssa.Value) bool {
	c, ok := v.(*ssa.Const)
	return ok && c.Value == nil
}

func sameStrings(a, b []string) bool {
	if len(a) != len(b) {
		return false
	}
	for i := range a {
		if a[i] != b[i] {
			return false
		}
	}
	return true
}

func sortedKeys(m map[string]bool) []string {
	var out []string
	for k := range m {
		out = append(out, k)
	}
	sort.Strings(out)
	return out
}

// structural equality of two pure SSA expressions (no CSE in go/ssa).
func sameExpr(a, b ssa.Value) bool { return sameExprD(a, b, 0) }

func sameExprD(a, b ssa.Value, d int) bool {
	if a == b {
		return true
	}
	if d > 8 || a == nil || b == nil {
		return false
	}
	switch x := a.(type) {
	case *ssa.Const:
		y, ok := b.(*ssa.Const)
		if !ok {
			return false
		}
		if x.Value == nil || y.Value == nil {
			return x.Value == nil && y.Value == nil && types.Identical(x.Type(), y.Type())
		}
		return constant.Compare(x.Value, token.EQL, y.Value)
	case *ssa.BinOp:
		y, ok := b.(*ssa.BinOp)
		return ok && x.Op == y.Op && sameExprD(x.X, y.X, d+1) && sameExprD(x.Y, y.Y, d+1)
	case *ssa.UnOp:
		y, ok := b.(*ssa.UnOp)
		if !ok || x.Op != y.Op {
			return false
		}
		if x.Op == token.MUL {
			// loads are equal only if same address expression and it is a
			// field/param-rooted address without intervening stores - we only accept
			// identical address values or structurally equal FieldAddr chains.
			return sameExprD(x.X, y.X, d+1)
		}
		return sameExprD(x.X, y.X, d+1)
	case *ssa.Convert:
		y, ok := b.(*ssa.Convert)
		return ok && types.Identical(x.Type(), y.Type()) && sameExprD(x.X, y.X, d+1)
	case *ssa.ChangeType:
		y, ok := b.(*ssa.ChangeType)
		return ok && types.Identical(x.Type(), y.Type()) && sameExprD(x.X, y.X, d+1)
	case *ssa.FieldAddr:
		y, ok := b.(*ssa.FieldAddr)
		return ok && x.Field == y.Field && sameExprD(x.X, y.X, d+1)
	case *ssa.Field:
		y, ok := b.(*ssa.Field)
		return ok && x.Field == y.Field && sameExprD(x.X, y.X, d+1)
	case *ssa.IndexAddr:
		y, ok := b.(*ssa.IndexAddr)
		return ok && sameExprD(x.X, y.X, d+1) && sameExprD(x.Index, y.Index, d+1)
	case *ssa.Call:
		y, ok := b.(*ssa.Call)
		if !ok {
			return false
		}
		if bx, ok1 := x.Call.Value.(*ssa.Builtin); ok1 {
			by, ok2 := y.Call.Value.(*ssa.Builtin)
			if !ok2 || bx.Name() != by.Name() || bx.Name() != "len" {
				return false
			}
			return sameExprD(x.Call.Args[0], y.Call.Args[0], d+1)
		}
		return false
	}
	return false
}

func sortStrings(s []string) { sort.Strings(s) }

// dominatingFieldStore: if the function contains exactly one store to the
// same field address expression as the load and that store dominates the load,
// the loaded value is the stored one (h.keepAlive = x; ... use h.keepAlive).
func dominatingFieldStore(load *ssa.UnOp, fa *ssa.FieldAddr) ssa.Value {
	f := load.Parent()
	if f == nil {
		return nil
	}
	var stores []*ssa.Store
	for _, b := range f.Blocks {
		for _, i := range b.Instrs {
			if s, ok := i.(*ssa.Store); ok {
				if fa2, ok := s.Addr.(*ssa.FieldAddr); ok && fa2.Field == fa.Field && sameExpr(fa2.X, fa.X) {
					stores = append(stores, s)
				}
			}
		}
	}
	if len(stores) != 1 {
		return nil
	}
	s := stores[0]
	if s.Block() == load.Block() {
		si, li := instrIndex(s).i, instrIndex(load).i
		if si < li {
			return s.Val
		}
		return nil
	}
	if s.Block().Dominates(load.Block()) {
		return s.Val
	}
	return nil
}

// capturedParam: the free variable is a cell of the enclosing function that is
// stored exactly once, from a parameter of that function (or, transitively,
// of an outer one).
func capturedParam(fv *ssa.FreeVar) *ssa.Parameter {
	f := fv.Parent()
	for depth := 0; depth < 4 && f != nil && f.Parent() != nil; depth++ {
		idx := -1
		for i, x := range f.FreeVars {
			if x == fv {
				idx = i
			}
		}
		if idx < 0 {
			return nil
		}
		var binding ssa.Value
		for _, b := range f.Parent().Blocks {
			for _, in := range b.Instrs {
				if mc, ok := in.(*ssa.MakeClosure); ok && mc.Fn == f && idx < len(mc.Bindings) {
					binding = mc.Bindings[idx]
				}
			}
		}
		switch b := binding.(type) {
		case *ssa.Alloc:
			var stores []*ssa.Store
			if refs := b.Referrers(); refs != nil {
				for _, r := range *refs {
					if s, ok := r.(*ssa.Store); ok && s.Addr == b {
						stores = append(stores, s)
					}
				}
			}
			if len(stores) == 1 {
				if p, ok := stores[0].Val.(*ssa.Parameter); ok {
					return p
				}
			}
			return nil
		case *ssa.FreeVar:
			fv = b
			f = f.Parent()
			continue
		}
		return nil
	}
	return nil
}

// stableFieldKey names a struct field for obligation keys in a way that
// survives renaming unexported identifiers: an exported field by its name, an
// unexported one by its type (plus its ordinal among the fields of that type).
// tname is "pkg.Type" as printed by typeStr.
func (c *Ctx) stableFieldKey(tname, fname string) string {
	i := strings.LastIndex(tname, ".")
	if i < 0 {
		return tname + "." + fname
	}
	rel, tn := tname[:i], tname[i+1:]
	for path, p := range c.ByPath {
		if !strings.HasPrefix(path, modPath) || !(strings.HasSuffix(path, "/"+rel) || path == modPath+"/"+rel) {
			continue
		}
		obj := p.Types.Scope().Lookup(tn)
		if obj == nil {
			continue
		}
		st, ok := obj.Type().Underlying().(*types.Struct)
		if !ok {
			continue
		}
		for k := 0; k < st.NumFields(); k++ {
			f := st.Field(k)
			if fieldName(obj.Type(), k) != fname && f.Name() != fname {
				continue
			}
			if f.Exported() {
				return tname + "." + f.Name()
			}
			ord, total := 0, 0
			for j := 0; j < st.NumFields(); j++ {
				if types.Identical(st.Field(j).Type(), f.Type()) && !st.Field(j).Exported() {
					total++
					if j < k {
						ord++
					}
				}
			}
			owner := tname
			if role := c.txRoleOf(tname); role != tname {
				owner = role // a transaction struct is named by the packets it handles
			} else if hn := c.gatewayHandlerType(); hn != "" && tname == "gateway."+hn {
				owner = "gateway.session-handler"
			}
			ft := typeStr(f.Type())
			if nm := namedOf(derefType(f.Type())); nm != nil && nm.Obj().Pkg() != nil && strings.HasPrefix(nm.Obj().Pkg().Path(), modPath) && !nm.Obj().Exported() {
				ft = "unexported " + types.TypeString(nm.Underlying(), nil)
			}
			s := owner + ".(" + ft + ")"
			if total > 1 {
				s += fmt.Sprintf("#%d", ord+1)
			}
			return s
		}
	}
	return tname + "." + fname
}

// retVal: the value a Return hands back as result idx. In functions with defers
// go/ssa spills results: "*r = v; rundefers; t = *r; return t" - then the value
// is the last store to the result cell in the returning block.
func retVal(ret *ssa.Return, idx int) ssa.Value {
	if idx >= len(ret.Results) {
		return nil
	}
	v := ret.Results[idx]
	u, ok := v.(*ssa.UnOp)
	if !ok || u.Op != token.MUL {
		return v
	}
	a, ok := u.X.(*ssa.Alloc)
	if !ok {
		return v
	}
	var last ssa.Value
	for _, i := range ret.Block().Instrs {
		if i == ssa.Instruction(u) {
			break
		}
		if st, ok := i.(*ssa.Store); ok && st.Addr == ssa.Value(a) {
			last = st.Val
		}
	}
	if last != nil {
		return last
	}
	// stored in a dominating block
	for b := ret.Block().Idom(); b != nil; b = b.Idom() {
		for k := len(b.Instrs) - 1; k >= 0; k-- {
			if st, ok := b.Instrs[k].(*ssa.Store); ok && st.Addr == ssa.Value(a) {
				return st.Val
			}
		}
	}
	return v
}

// deepOrigins: origins of v, descending into the results of repository functions and closures (also through named
// results, which SSA spills into locals) up to the given depth.
func (c *Ctx) deepOrigins(v ssa.Value, depth int) []Origin {
	return c.deepOriginsStop(v, depth, nil)
}

// deepOriginsStop: as deepOrigins, but a call whose callee satisfies stop is kept as an origin (not descended into).
func (c *Ctx) deepOriginsStop(v ssa.Value, depth int, stop func(callee string) bool) []Origin {
	var out []Origin
	for _, o := range c.origins(v) {
		call, _ := o.Val.(*ssa.Call)
		var g *ssa.Function
		if o.Kind == "call" && call != nil {
			g = staticCallee(&call.Call)
		}
		if g == nil || g.Blocks == nil || depth <= 0 || !strings.HasPrefix(fnPkgPath(g), modPath) || (stop != nil && stop(o.Callee)) {
			out = append(out, o)
			continue
		}
		descended := false
		for _, b := range g.Blocks {
			ret, ok := b.Instrs[len(b.Instrs)-1].(*ssa.Return)
			if !ok || o.ResIdx >= len(ret.Results) {
				continue
			}
			res := ret.Results[o.ResIdx]
			if u, ok := res.(*ssa.UnOp); ok {
				if al, ok := u.X.(*ssa.Alloc); ok && al.Referrers() != nil {
					for _, rf := range *al.Referrers() {
						if st, ok := rf.(*ssa.Store); ok && st.Addr == ssa.Value(al) {
							if _, isConst := st.Val.(*ssa.Const); isConst {
								continue
							}
							out = append(out, c.deepOriginsStop(st.Val, depth-1, stop)...)
							descended = true
						}
					}
					continue
				}
			}
			if _, isConst := res.(*ssa.Const); isConst {
				continue
			}
			out = append(out, c.deepOriginsStop(res, depth-1, stop)...)
			descended = true
		}
		if !descended {
			out = append(out, o)
		}
	}
	return out
}

// forwardTarget: a closure (or function) whose whole body hands its work to ONE repository function or method and
// returns that call's results - `func() error { return t.watch(ctx) }`, a bound-method wrapper - stands for that
// function (a goroutine body or timer callback turned into a method). Otherwise fn itself.
func forwardTarget(fn *ssa.Function) *ssa.Function {
	for d := 0; d < 3 && fn != nil; d++ {
		if len(fn.Blocks) != 1 {
			return fn
		}
		var call ssa.CallInstruction
		ok := true
		for _, in := range fn.Blocks[0].Instrs {
			switch x := in.(type) {
			case *ssa.DebugRef, *ssa.UnOp, *ssa.FieldAddr, *ssa.Extract, *ssa.MakeInterface, *ssa.ChangeType, *ssa.ChangeInterface:
			case *ssa.Call:
				if call != nil {
					ok = false
				}
				call = x
			case *ssa.Return:
				for _, rv := range x.Results {
					v := rv
					if ex, isEx := v.(*ssa.Extract); isEx {
						v = ex.Tuple
					}
					if cv, isCall := v.(*ssa.Call); !isCall || ssa.CallInstruction(cv) != call {
						if _, isConst := v.(*ssa.Const); !isConst {
							ok = false
						}
					}
				}
			default:
				ok = false
			}
		}
		if !ok || call == nil {
			return fn
		}
		g := staticCallee(call.Common())
		if g == nil || g.Blocks == nil || !strings.HasPrefix(fnPkgPath(g), modPath) {
			return fn
		}
		// only a pure hand-over: every argument is something the closure captured or was given
		for _, a := range call.Common().Args {
			switch x := a.(type) {
			case *ssa.FreeVar, *ssa.Parameter:
			case *ssa.UnOp:
				if _, isFV := x.X.(*ssa.FreeVar); !isFV {
					return fn
				}
			default:
				return fn
			}
		}
		fn = g
	}
	return fn
}

// callbackFunction resolves a function value handed to go / group.Go / time.AfterFunc: closure literal, bound method
// value, plain function; trivial forwarders are looked through.
func callbackFunction(v ssa.Value) *ssa.Function {
	for {
		if ct, ok := v.(*ssa.ChangeType); ok {
			v = ct.X
			continue
		}
		break
	}
	switch x := v.(type) {
	case *ssa.MakeClosure:
		if t := boundTarget(x); t != nil {
			return forwardTarget(t)
		}
		if f, ok := x.Fn.(*ssa.Function); ok {
			return forwardTarget(f)
		}
	case *ssa.Function:
		return forwardTarget(x)
	}
	return nil
}
