package main

import (
	"sort"
	"fmt"
	"go/token"
	"go/types"
	"strings"

	"golang.org/x/tools/go/ssa"
)

func init() {
	register("C15", func(r *Report) {
		r.Explanation = "Decides data isolation for all interleavings (no shared mutable state implies no interference through memory): (R1) in the accept loop every variable captured by the per-connection goroutine is allocated inside the loop body or never written inside the loop, the handler is constructed inside the loop, and the session function dials its own broker connection into a local; (R2) everything a handler shares with other sessions - the handler configuration struct, the predefined-topics maps, configured byte slices (also when aliased by a packet field) - is never written: no field store outside construction, no map update/delete/Add/Merge, no element store or in-place append on a slice loaded from a configuration or CONNECT-packet field, and no write (store, atomic update, also inside a called repository method and after copying the reference into a per-session struct) through a pointer or interface held in a field of the shared configuration; (R3) no package-level variable of the repository is assigned outside init; (R4) a failed DTLS handshake of one peer (it runs inside Accept) never ends the accept loop: every return on an Accept error is guarded by 'not a *dtls.HandshakeError'. Not decided: interference through resource exhaustion or through the broker."
		r.floor("R1", 3)
		r.floor("R2", 3)
		r.floor("R3", 1)
		r.floor("R4", 1)
	}, checkC15)
	register("C23", func(r *Report) {
		r.Explanation = "Decides form, direction, length-field and size-bound clauses for all histories: (R1) no packet struct is built by a composite literal outside package packets1, and inside it every literal initialises the embedded Header (constructors and the decoder); (R2) the type-flow set of every argument of the gateway's MQTT-SN sender is within the types a gateway may send and the client library's within the types a client may send, and each such type has a case in the other side's dispatcher; (R3) length field = bytes written for every type and variant, header form thresholds (shared with C21-R3/R5); (R4) only the sender functions write to connections (one packet per datagram), and the repository's connection wrappers hand the whole buffer of one Write to the transport in one Write; (R5) every variable-length field of an outgoing packet that comes from outside the process passes a length comparison on its way to the sender. R5 is a known finding today (no bound anywhere: uint16(len) wraps above 65535 and datagrams above 8192 bytes are produced)."
		r.floor("R1", 28)
		r.floor("R2", 20)
		r.floor("R3", 28)
		r.floor("R4", 2)
		r.floor("R5", 2)
	}, checkC23)
	register("C24", func(r *Report) {
		r.Explanation = "Taint rules: sources are fields of decoded MQTT-SN packets, sinks are fields of MQTT packets handed to the MQTT sender, sanitisers are dominating guards. (R1) QoS sinks need a guard or mapping bounding the value to 0-2 (PUBLISH: the QoS 3 -> 0 mapping, shared with C01-R1; SUBSCRIBE Qoss; CONNECT WillQos); (R2) PUBLISH topic: only lawful producers (shared with C01-R2, so never empty), and names that enter the registered-topics map from a client REGISTER, as well as decoded short names, need a wildcard test; (R3) SUBSCRIBE/UNSUBSCRIBE filters are non-empty because the decoder rejects empty string names (re-established on every run) and the filter handed to the broker is on every path one of the lawful producers of a name, never a zero value (C03-R2, re-run here); (R4) CONNECT: the will-protocol order (shared with C09-R1: the CONNECT of a will exchange only after WILLTOPIC and WILLMSG), a non-empty will topic whenever the will flag stays set, PasswordFlag only with UsernameFlag, protocol name/level constants; (R5) every packet handed to the MQTT sender is created by NewControlPacket with the constant code of the asserted type or is a literal with its MessageType set. Known findings: QoS 3 in SUBSCRIBE and WILLTOPIC, wildcard/short names, empty WILLTOPIC, password without user."
		r.floor("R1", 3)
		r.floor("R2", 3)
		r.floor("R3", 2)
		r.floor("R4", 4)
		r.floor("R5", 8)
	}, checkC24)
	register("C32", func(r *Report) {
		r.Explanation = "Sibling comparison of every resolver site in the client library, the gateway and the CLI tools: (R1) ID -> name uses PredefinedTopics.GetTopicName(<own client id>, <the packet's topic ID>) for predefined IDs and DecodeShortTopic(<the packet's topic ID>) for short ones; name -> ID uses GetTopicID(<own client id>, name) and EncodeShortTopic(name) under IsShortTopic(name); no site swaps arguments or uses another function; (R2) 'own client id' is the same identity on both ends: the gateway's comes from the CONNECT packet's ClientID, the client's CONNECT ClientID comes from cfg.ClientID, which is also the identity of every client-side lookup, and the CLI tools look up with the ID they configure; (R3) the two lookup functions are mutually consistent (C05's rules, re-run here) and the short codec is a byte-exact bijection (C21-R6, re-run here); (R4) the gateway uses the results lawfully: the (topic-ID type, ID) pairing of PUBLISHes to the client (C02-R2) and the producers of the topic name of PUBLISHes to the broker (C01-R2), re-run here - a cache or another source in between is a violation; (R5) the mapping the gateway looks up in is the configured one for the whole session: no session writes to it, directly or through an alias (C15-R2, re-run here); (R6) the client delivers a received PUBLISH under a name that comes straight from its registry / GetTopicName / DecodeShortTopic (no cache keyed without the topic-ID type). Not decided: that both ends were given the same configuration (the operator's responsibility)."
		r.floor("R1", 8)
		r.floor("R2", 3)
		r.floor("R3", 18)
		r.floor("R4", 3)
	}, checkC32)
}

// importRules runs another property's rules and files the obligations of the
// selected rules under this property (shared rules are decided once, by the
// same code, for every property that depends on them).
func importRules(c *Ctx, r *Report, prop string, mapping map[string]string) {
	pc, ok := registry[prop]
	if !ok {
		r.undecided("R0", "import:"+prop, "-", "shared rule set "+prop+" not available")
		return
	}
	tmp := c.runCached(pc, r.configActive)
	for _, o := range tmp.Obls {
		short := strings.TrimPrefix(o.Rule, prop+"-")
		nr, ok := mapping[short]
		if !ok {
			continue
		}
		o2 := *o
		o2.Rule = r.Prop + "-" + nr
		o2.Key = prop + "/" + short + ":" + o.Key
		r.Obls = append(r.Obls, &o2)
	}
	for f := range tmp.Funcs {
		r.Funcs[f] = true
	}
}

func checkC15(c *Ctx, r *Report) {
	// R1: accept loop
	n1 := 0
	for _, f := range c.repoFuncs("gateway") {
		allInstrs(f, func(i ssa.Instruction) {
			g, ok := i.(*ssa.Go)
			if !ok || !inCycle(i.Block()) {
				return
			}
			mc, ok := g.Common().Value.(*ssa.MakeClosure)
			if !ok {
				return
			}
			n1++
			r.fn(f)
			for _, b := range mc.Bindings {
				a, ok := b.(*ssa.Alloc)
				if !ok {
					continue
				}
				key := fmt.Sprintf("%s:captured(%s)", fnKey(f), a.Comment)
				if inCycle(a.Block()) {
					r.ok("R1", key, c.instrPos(a), "allocated per iteration")
					continue
				}
				written := false
				if refs := a.Referrers(); refs != nil {
					for _, rf := range *refs {
						if s, ok := rf.(*ssa.Store); ok && s.Addr == ssa.Value(a) && inCycle(s.Block()) {
							written = true
						}
					}
				}
				if written {
					r.bad("R1", key, c.instrPos(a), "the per-connection goroutine captures a variable that is allocated once outside the accept loop and overwritten in every iteration: sessions see (and close) each other's connection")
				} else {
					r.ok("R1", key, c.instrPos(a), "allocated outside the loop but never written inside it")
				}
			}
			// handler constructed in the loop
			ctorInLoop := false
			allInstrs(f, func(j ssa.Instruction) {
				if call, ok := j.(*ssa.Call); ok && inCycle(j.Block()) {
					if h := staticCallee(&call.Call); h != nil && fnPkgPath(h) == pkGateway && h.Signature.Results().Len() == 1 {
						if st := structOf(h.Signature.Results().At(0).Type()); st != nil {
							for k := 0; k < st.NumFields(); k++ {
								if typeIs(st.Field(k).Type(), pkTrans, "TransactionStore") {
									ctorInLoop = true
								}
							}
						}
					}
				}
			})
			c.checkAcceptErrors(r, f)
			r.cond(ctorInLoop, "R1", fnKey(f)+":handler-per-connection", c.instrPos(i), "a fresh handler (own transaction store, ID sequence, maps) is constructed in every iteration", "no handler is constructed per accepted connection")
		})
	}
	if n1 == 0 {
		r.undecided("R1", "accept-loop", "-", "no goroutine spawned inside a loop in package gateway")
	}
	// own broker connection: the dial result lives in a local of the session function
	if run := c.sessionFunc(); run != nil {
		okd := false
		seenD := map[*ssa.Function]bool{}
		var scanDial func(f *ssa.Function, d int)
		scanDial = func(f *ssa.Function, d int) {
			if seenD[f] || d > 3 || f.Blocks == nil {
				return
			}
			seenD[f] = true
			allInstrs(f, func(i ssa.Instruction) {
				ci, ok := i.(ssa.CallInstruction)
				if !ok {
					return
				}
				if strings.HasSuffix(calleeName(ci.Common()), ".DialContext") {
					okd = true
				}
				// a helper of the same package called synchronously by the session function (not a goroutine)
				if _, isGo := i.(*ssa.Go); isGo {
					return
				}
				if g := staticCallee(ci.Common()); g != nil && fnPkgPath(g) == pkGateway {
					scanDial(g, d+1)
				}
			})
		}
		scanDial(run, 0)
		r.cond(okd, "R1", fnKey(run)+":own-broker-connection", c.pos(run.Pos()), "the session function dials its own broker connection", "the session function does not dial a broker connection of its own")
	}
	// R2: shared data never written
	sharedNames := c.sharedConfigTypes()
	sharedStruct := func(t types.Type) bool {
		return sharedNames[typeStr(derefType(t))]
	}
	nShared := 0
	for _, f := range c.repoFuncs("gateway") {
		allInstrs(f, func(i ssa.Instruction) {
			switch x := i.(type) {
			case *ssa.Store:
				if fa, ok := x.Addr.(*ssa.FieldAddr); ok && sharedStruct(fa.X.Type()) {
					nShared++
					key := fmt.Sprintf("%s:write %s.%s", fnKey(f), typeStr(derefType(fa.X.Type())), fieldName(fa.X.Type(), fa.Field))
					if isFreshObject(fa.X) {
						r.okTrivial("R2", key, c.instrPos(i), "initialisation of a freshly allocated configuration")
					} else {
						r.bad("R2", key, c.instrPos(i), "a session writes the configuration shared by all sessions")
					}
				}
				// element store into a shared slice
				if ia, ok := x.Addr.(*ssa.IndexAddr); ok {
					if c.isSharedSlice(ia.X) {
						r.bad("R2", fnKey(f)+":element-store-into-shared-slice", c.instrPos(i), "an element of a byte slice that aliases the shared configuration is overwritten")
					}
				}
			case *ssa.MapUpdate:
				if typeIs(x.Map.Type(), pkTopics, "PredefinedTopics") || c.isPredefinedInner(x.Map) {
					r.bad("R2", fnKey(f)+":predefined-topics-map-update", c.instrPos(i), "a session modifies the predefined-topics map shared by all sessions")
				}
			case ssa.CallInstruction:
				cc := x.Common()
				n := calleeName(cc)
				if n == "("+pkTopics+".PredefinedTopics).Add" || n == "("+pkTopics+".PredefinedTopics).Merge" {
					r.bad("R2", fnKey(f)+":predefined-topics-mutation", c.instrPos(i), "a session calls "+shortName(n)+" on the predefined-topics map shared by all sessions")
				}
				if b, ok := cc.Value.(*ssa.Builtin); ok {
					switch b.Name() {
					case "append":
						// in-place reuse: append(x[:k], ...) with x loaded from a shared / aliased field
						if sl, ok := cc.Args[0].(*ssa.Slice); ok && c.isSharedSlice(sl.X) {
							r.bad("R2", fnKey(f)+":in-place-append-on-shared-slice", c.instrPos(i), "append reuses the backing array of a byte slice that aliases the shared configuration ("+exprStr(sl.X)+"): one session's data overwrites what another session is about to send")
						}
					case "copy":
						if c.isSharedSlice(cc.Args[0]) {
							r.bad("R2", fnKey(f)+":copy-into-shared-slice", c.instrPos(i), "copy() into a byte slice that aliases the shared configuration")
						}
					case "delete":
						if typeIs(cc.Args[0].Type(), pkTopics, "PredefinedTopics") || c.isPredefinedInner(cc.Args[0]) {
							r.bad("R2", fnKey(f)+":predefined-topics-delete", c.instrPos(i), "a session deletes from the shared predefined-topics map")
						}
					}
				}
			}
		})
	}
	c.checkSharedMapAliases(r, "R2")
	c.checkSharedPointers(r, "R2")
	r.ok("R2", "shared-config-read-only", "-", fmt.Sprintf("%d stores to configuration structs examined (all at construction); no map update, Add/Merge, element store or in-place append on shared data in package gateway", nShared))
	// which slices alias the configuration (for the record)
	r.okTrivial("R2", "aliases", "-", "byte-slice fields considered shared: "+strings.Join(c.sharedSliceFields(), ", "))
	// R3: package-level variables
	nG := 0
	for _, f := range c.allRepoFuncs() {
		if f.Name() == "init" || strings.HasPrefix(f.Name(), "init#") {
			continue
		}
		if strings.Contains(fnPkgPath(f), "/cmd/") {
			continue
		}
		allInstrs(f, func(i ssa.Instruction) {
			if s, ok := i.(*ssa.Store); ok {
				if g, ok := s.Addr.(*ssa.Global); ok {
					nG++
					r.bad("R3", "global:"+g.Name(), c.instrPos(i), "package-level variable "+g.Name()+" is assigned in "+fnKey(f)+": state shared by all sessions")
				}
			}
		})
	}
	if nG == 0 {
		r.ok("R3", "no-mutable-package-state", "-", "no package-level variable of the library packages is assigned outside init")
	}
}

// sharedSliceFields: (type.field) of slice-typed fields that hold, or are
// assigned from, a configuration slice.
func (c *Ctx) sharedSliceFields() []string {
	set := map[string]bool{}
	for tname := range c.sharedConfigTypes() {
		cfgT := c.ByPath[pkGateway].Types.Scope().Lookup(strings.TrimPrefix(tname, "gateway."))
		if cfgT == nil {
			continue
		}
		if st, ok := cfgT.Type().Underlying().(*types.Struct); ok {
			for i := 0; i < st.NumFields(); i++ {
				if _, ok := st.Field(i).Type().Underlying().(*types.Slice); ok {
					set[tname+"."+st.Field(i).Name()] = true
				}
			}
		}
	}
	// fields assigned from those (one step of aliasing)
	for _, f := range c.repoFuncs("gateway") {
		allInstrs(f, func(i ssa.Instruction) {
			s, ok := i.(*ssa.Store)
			if !ok {
				return
			}
			fa, ok := s.Addr.(*ssa.FieldAddr)
			if !ok {
				return
			}
			if _, isSlice := s.Val.Type().Underlying().(*types.Slice); !isSlice {
				return
			}
			for _, o := range c.origins(s.Val) {
				if len(o.Path) >= 1 && strings.Contains(typeStr(o.RootType()), "gateway.") && (set[typeStr(derefType(o.RootType()))+"."+o.Path[len(o.Path)-1]] || c.anySharedField(set, o.Path[len(o.Path)-1])) {
					set[typeStr(derefType(fa.X.Type()))+"."+fieldName(fa.X.Type(), fa.Field)] = true
				}
			}
		})
	}
	return sortedKeys(set)
}

func (c *Ctx) isSharedSlice(v ssa.Value) bool {
	shared := map[string]bool{}
	for _, s := range c.sharedSliceFields() {
		shared[s] = true
	}
	for {
		switch x := v.(type) {
		case *ssa.Slice:
			v = x.X
			continue
		}
		break
	}
	u, ok := v.(*ssa.UnOp)
	if !ok || u.Op != token.MUL {
		return false
	}
	fa, ok := u.X.(*ssa.FieldAddr)
	if !ok {
		return false
	}
	return shared[typeStr(derefType(fa.X.Type()))+"."+fieldName(fa.X.Type(), fa.Field)]
}

func (c *Ctx) isPredefinedInner(v ssa.Value) bool {
	switch x := v.(type) {
	case *ssa.Lookup:
		return typeIs(x.X.Type(), pkTopics, "PredefinedTopics")
	case *ssa.Extract:
		if l, ok := x.Tuple.(*ssa.Lookup); ok {
			return typeIs(l.X.Type(), pkTopics, "PredefinedTopics")
		}
	}
	return false
}

// ---------------------------------------------------------------------------
// C23

var gwMaySend = map[string]bool{"Connack": true, "WillTopicReq": true, "WillMsgReq": true, "Register": true, "Regack": true, "Publish": true, "Puback": true,
	"Pubrec": true, "Pubrel": true, "Pubcomp": true, "Suback": true, "Unsuback": true, "Pingresp": true, "Disconnect": true}
var clientMaySend = map[string]bool{"Connect": true, "Auth": true, "WillTopic": true, "WillMsg": true, "Register": true, "Regack": true, "Publish": true, "Puback": true,
	"Pubrec": true, "Pubrel": true, "Pubcomp": true, "Subscribe": true, "Unsubscribe": true, "Pingreq": true, "Disconnect": true}

func checkC23(c *Ctx, r *Report) {
	// R1: composite literals of packet structs
	for _, rel := range []string{"gateway", "client", "cmd/bisquitt", "cmd/bisquitt-pub", "cmd/bisquitt-sub", "transactions", "topics"} {
		for _, f := range c.repoFuncs(rel) {
			allInstrs(f, func(i ssa.Instruction) {
				a, ok := i.(*ssa.Alloc)
				if !ok {
					return
				}
				n := namedOf(derefType(a.Type()))
				if n == nil || n.Obj().Pkg() == nil || n.Obj().Pkg().Path() != pkPackets1 {
					return
				}
				if st := structOf(n); st == nil {
					return
				}
				r.bad("R1", fnKey(f)+":literal "+n.Obj().Name(), c.instrPos(i), "an MQTT-SN packet is built by a composite literal outside package packets1: its header (length, type) stays zero and it is encoded as 00 00 ...")
			})
		}
	}
	for _, f := range c.repoFuncs("packets1") {
		allInstrs(f, func(i ssa.Instruction) {
			a, ok := i.(*ssa.Alloc)
			if !ok {
				return
			}
			n := namedOf(derefType(a.Type()))
			if n == nil || n.Obj().Pkg() == nil || n.Obj().Pkg().Path() != pkPackets1 {
				return
			}
			st := structOf(n)
			if st == nil {
				return
			}
			hasHeader := false
			for k := 0; k < st.NumFields(); k++ {
				if st.Field(k).Embedded() && typeIs(st.Field(k).Type(), pkPackets, "Header") {
					hasHeader = true
				}
			}
			if !hasHeader {
				return
			}
			r.fn(f)
			key := fnKey(f) + ":literal " + n.Obj().Name()
			init := len(c.storesTo(a, []string{"Header"})) > 0
			r.cond(init, "R1", key, c.instrPos(i), "the literal initialises the embedded Header", "a packet literal without an initialised Header")
		})
	}
	// R2: direction
	gm, err1 := c.newGwModel()
	cm, err2 := c.newClientModel()
	if err1 != nil || err2 != nil {
		r.undecided("R2", "models", "-", "gateway/client model not available")
		return
	}
	handledBy := func(handled []string, t string) bool {
		for _, h := range handled {
			if h == t {
				return true
			}
		}
		return false
	}
	check := func(rel string, senders map[*ssa.Function]bool, may map[string]bool, otherHandled []string, side string) {
		tf := c.newTypeFlowScoped(rel)
		for _, s := range c.sendSites(rel, senders) {
			r.fn(s.Fn)
			ts := tf.Types(s.Arg)
			// the argument of a retry callback is the step data of the
			// transaction built by the enclosing constructor
			if s.Fn.Parent() != nil {
				var ts2 []string
				for _, t := range ts {
					if strings.HasPrefix(t, "?param-without-callers:"+fnKey(s.Fn)+".") {
						ts2 = append(ts2, c.stepDataTypes(rel, s.Fn.Parent())...)
					} else {
						ts2 = append(ts2, t)
					}
				}
				ts = ts2
			}
			key := fmt.Sprintf("%s:send(%s)", fnKey(s.Fn), exprStr(s.Arg))
			bad := ""
			for _, t := range ts {
				if strings.HasPrefix(t, "?") || strings.HasPrefix(t, "<") {
					bad = "cannot bound the packet types reaching this send: " + t
					continue
				}
				if t == "nil" {
					continue
				}
				name := strings.TrimPrefix(t, "*packets1.")
				if !strings.HasPrefix(t, "*packets1.") || !may[name] {
					bad = fmt.Sprintf("%s can send %s, which is not valid in that direction", side, t)
				} else if !handledBy(otherHandled, t) {
					bad = fmt.Sprintf("%s can send %s, for which the other side's dispatcher has no case", side, t)
				}
			}
			if bad != "" {
				if strings.HasPrefix(bad, "cannot bound") {
					r.undecided("R2", key, c.instrPos(s.Call), bad)
				} else {
					r.bad("R2", key, c.instrPos(s.Call), bad)
				}
			} else {
				r.ok("R2", key, c.instrPos(s.Call), "types "+strings.Join(ts, ", "))
			}
		}
	}
	check("gateway", gm.snSenders, gwMaySend, cm.snHandled, "the gateway")
	check("client", cm.snSenders, clientMaySend, gm.snHandled, "the client library")
	// R3: shared with C21
	importRules(c, r, "C21", map[string]string{"R3": "R3", "R5": "R3"})
	// R4: single writer
	for _, rel := range []string{"gateway", "client"} {
		senders := gm.snSenders
		mq := gm.mqSenders
		if rel == "client" {
			senders, mq = cm.snSenders, map[*ssa.Function]bool{}
		}
		for _, w := range c.connWriteSites(rel) {
			f := w.Parent()
			key := fnKey(f) + ":conn.Write"
			if senders[f] || mq[f] {
				// and the bytes written are the result of one Pack()
				r.ok("R4", key, c.instrPos(w), "write inside a sender role function (one Pack() per datagram)")
			} else {
				r.bad("R4", key, c.instrPos(w), "bytes are written to a connection outside the sender function: the datagram is not one packet produced by Pack()")
			}
		}
		c.checkConnEscapes(r, "R4", rel, mq)
	}
	c.checkWriteForwarders(r, "R4")
	// R5: size bound at the single writers (R4 makes them the choke points)
	for _, rel := range []string{"gateway", "client"} {
		senders := gm.snSenders
		if rel == "client" {
			senders = cm.snSenders
		}
		for _, w := range c.connWriteSites(rel) {
			f := w.Parent()
			if !senders[f] {
				continue
			}
			r.fn(f)
			key := fnKey(f) + ":datagram-size-bound"
			args := w.Common().Args
			buf := args[len(args)-1]
			bound := int64(-1)
			for _, g := range guardsOf(w.Block()) {
				x, y, op, isCmp := cmpGuard(g)
				if !isCmp {
					continue
				}
				isLen := func(v ssa.Value) bool {
					lc, ok := v.(*ssa.Call)
					if !ok {
						return false
					}
					b, ok := lc.Call.Value.(*ssa.Builtin)
					return ok && b.Name() == "len" && (lc.Call.Args[0] == buf || sameExpr(lc.Call.Args[0], buf))
				}
				if k, ok := constInt(y); ok && isLen(x) {
					switch op {
					case token.LEQ, token.EQL:
						bound = k
					case token.LSS:
						bound = k - 1
					}
				}
				if k, ok := constInt(x); ok && isLen(y) {
					switch op {
					case token.GEQ, token.EQL:
						bound = k
					case token.GTR:
						bound = k - 1
					}
				}
			}
			switch {
			case bound < 0:
				r.bad("R5", key, c.instrPos(w), "the packed bytes are written without a length check: a payload/topic above 8183 bytes gives a datagram beyond the transport maximum, and above 65530 bytes the uint16 length wraps so that the length field no longer equals the size")
			case bound > 8192:
				r.bad("R5", key, c.instrPos(w), fmt.Sprintf("the length check admits datagrams of up to %d bytes, more than the transport maximum 8192", bound))
			default:
				r.ok("R5", key, c.instrPos(w), fmt.Sprintf("write dominated by len(bytes) <= %d", bound))
			}
		}
	}
}

// ---------------------------------------------------------------------------
// C24

func checkC24(c *Ctx, r *Report) {
	gm, err := c.newGwModel()
	if err != nil {
		r.undecided("R0", "gateway-model", "-", err.Error())
		return
	}
	// R1a / R2a: shared with C01
	importRules(c, r, "C01", map[string]string{"R1": "R1", "R2": "R2"})
	// R1b: SUBSCRIBE Qoss, CONNECT WillQos
	type sink struct{ outType, field, inType, inField string }
	for _, s := range []sink{{"SubscribePacket", "Qoss", "Subscribe", "QOS"}, {"ConnectPacket", "WillQos", "WillTopic", "QOS"}} {
		n := 0
		for _, f := range c.repoFuncs("gateway") {
			allInstrs(f, func(i ssa.Instruction) {
				st, ok := i.(*ssa.Store)
				if !ok {
					return
				}
				fa, ok := st.Addr.(*ssa.FieldAddr)
				if !ok || !typeIs(fa.X.Type(), pahoPkts, s.outType) || fieldName(fa.X.Type(), fa.Field) != s.field {
					return
				}
				n++
				r.fn(f)
				key := fmt.Sprintf("%s:%s.%s<-%s.%s", fnKey(f), s.outType, s.field, s.inType, s.inField)
				isQ := c.isFieldOf(pkPackets1, s.inType, s.inField)
				tainted := false
				for _, o := range c.origins(st.Val) {
					if originIsField(o, pkPackets1, s.inType, s.inField) {
						tainted = true
					}
				}
				if !tainted {
					r.ok("R1", key, c.instrPos(i), "value does not come from the client's QoS field")
					return
				}
				vs := feasibleValues(guardsOf(i.Block()), isQ, []int64{0, 1, 2, 3})
				if subsetOf(vs, 0, 1, 2) {
					r.ok("R1", key, c.instrPos(i), fmt.Sprintf("guarded: QoS in %v", vs))
				} else {
					r.bad("R1", key, c.instrPos(i), fmt.Sprintf("the client's 2-bit QoS field reaches the MQTT %s unchecked (values %v): QoS 3 is not valid MQTT 3.1.1 and makes the broker drop the connection", s.outType, vs))
				}
			})
		}
		if n == 0 {
			r.undecided("R1", s.outType+"."+s.field, "-", "no store to this field found")
		}
	}
	// R2b: wildcard test on names entering the registered map / short names
	c.checkWildcardSanitisers(r)
	// R3: decoder rejects empty filters
	cmod := c.newCodecModel()
	for _, tn := range []string{"Subscribe", "Unsubscribe"} {
		t := "*packets1." + tn
		d := cmod.decode(t, codecVariant{Cells: map[string]aval{"f:packets1." + tn + ".TopicIDType": kint(0)}}, 3, nil)
		r.cond(d.Paths == 0, "R3", tn+":empty-filter-rejected", "-", "a "+tn+" whose string topic name is empty (3-byte body) is rejected by the decoder", "the decoder accepts a "+tn+" with an empty topic filter, which the gateway would forward")
	}
	// ... and the filter handed to the broker is always one of the lawful producers of a name - the decoded string
	// name, GetTopicName on ok, DecodeShortTopic - never the zero value left over by a refused lookup (C03-R2, re-run)
	importRulesF(c, r, "C03", map[string]string{"R2": "R3"}, func(rule, key string) bool { return strings.Contains(key, "Topics") })
	// R4: CONNECT
	importRules(c, r, "C09", map[string]string{"R1": "R4"})
	c.checkConnectWillAndFlags(r, gm)
	// R5: well-typed packets
	for _, f := range c.repoFuncs("gateway") {
		allInstrs(f, func(i ssa.Instruction) {
			switch x := i.(type) {
			case *ssa.TypeAssert:
				call, ok := x.X.(*ssa.Call)
				if !ok || calleeName(&call.Call) != pahoPkts+".NewControlPacket" {
					return
				}
				r.fn(f)
				key := fmt.Sprintf("%s:NewControlPacket.(%s)", fnKey(f), typeStr(x.AssertedType))
				k, okk := constInt(call.Call.Args[0])
				r.cond(okk && pahoTypeOfCode(k) == typeStr(x.AssertedType), "R5", key, c.instrPos(i), fmt.Sprintf("code %d creates %s", k, typeStr(x.AssertedType)), "NewControlPacket's code and the asserted type disagree")
			case *ssa.Alloc:
				n := namedOf(derefType(x.Type()))
				if n == nil || n.Obj().Pkg() == nil || n.Obj().Pkg().Path() != pahoPkts || !strings.HasSuffix(n.Obj().Name(), "Packet") {
					return
				}
				r.fn(f)
				key := fmt.Sprintf("%s:literal mqtt.%s", fnKey(f), n.Obj().Name())
				stores := c.storesTo(x, []string{"FixedHeader", "MessageType"})
				okc := false
				for _, s := range stores {
					if k, ok := constInt(s.Val); ok && pahoTypeOfCode(k) == "*mqtt."+n.Obj().Name() {
						okc = true
					}
				}
				r.cond(okc, "R5", key, c.instrPos(i), "literal with the matching MessageType", "an MQTT packet literal without (or with a wrong) FixedHeader.MessageType")
			}
		})
	}
}

func (c *Ctx) checkWildcardSanitisers(r *Report) {
	// sink rule: whatever the producer (registered map, predefined table,
	// short codec), the value stored into PublishPacket.TopicName has passed
	// a wildcard test and an emptiness test.
	n := 0
	for _, f := range c.repoFuncs("gateway") {
		if !c.functionHasParam(f, pkPackets1, "Publish") {
			continue
		}
		allInstrs(f, func(i ssa.Instruction) {
			st, ok := i.(*ssa.Store)
			if !ok {
				return
			}
			fa, ok := st.Addr.(*ssa.FieldAddr)
			if !ok || !typeIs(fa.X.Type(), pahoPkts, "PublishPacket") || fieldName(fa.X.Type(), fa.Field) != "TopicName" {
				return
			}
			n++
			r.fn(f)
			wild, empty := false, false
			for _, g := range guardsOf(i.Block()) {
				if call, ok := g.Cond.(*ssa.Call); ok && !g.Truth && len(call.Call.Args) >= 1 && call.Call.Args[0] == st.Val {
					if h := staticCallee(&call.Call); h != nil && c.isWildcardTest(h) {
						wild = true
					}
				}
				x, y, op, isCmp := cmpGuard(g)
				if isCmp && op == token.NEQ {
					if s, ok := constString(y); ok && s == "" && x == st.Val {
						empty = true
					}
					if s, ok := constString(x); ok && s == "" && y == st.Val {
						empty = true
					}
				}
			}
			r.cond(wild, "R2", fnKey(f)+":publish-topic-wildcard-test", c.instrPos(i), "the topic name passes a wildcard test before it is stored into the MQTT PUBLISH", "the topic name reaches the MQTT PUBLISH without a wildcard test: REGISTER 'a/#' (or the short name '+a') followed by a PUBLISH on that ID sends an MQTT PUBLISH whose topic name contains a wildcard")
			r.cond(empty, "R2", fnKey(f)+":publish-topic-non-empty-test", c.instrPos(i), "the topic name is tested for emptiness before it is stored into the MQTT PUBLISH", "the topic name reaches the MQTT PUBLISH without an emptiness test")
		})
	}
	if n == 0 {
		r.undecided("R2", "publish-topic-sink", "-", "no store to PublishPacket.TopicName in a function handling a client PUBLISH")
	}
}

// isWildcardTest: a string predicate that returns true exactly when its
// argument contains '+' or contains '#' (decided by exploring it on the two
// symbolic facts strings.Contains(arg, "+") / strings.Contains(arg, "#")).
func (c *Ctx) isWildcardTest(h *ssa.Function) bool {
	if h.Signature.Params().Len() < 1 || h.Signature.Results().Len() != 1 || len(h.Blocks) == 0 {
		return false
	}
	for mask := 0; mask < 4; mask++ {
		plus, hash := int64(mask&1), int64(mask>>1&1)
		e := &explorer{c: c, MaxDepth: 2}
		e.Inline = func(*ssa.Function) bool { return false }
		e.CallValue = func(call *ssa.Call, ex *explorer, st *pstate, fr *frame) ([]aval, bool) {
			if calleeName(&call.Call) == "strings.Contains" {
				if s, ok := constString(call.Call.Args[1]); ok && call.Call.Args[0] == ssa.Value(h.Params[len(h.Params)-1]) {
					switch s {
					case "+":
						return []aval{kint(plus)}, true
					case "#":
						return []aval{kint(hash)}, true
					}
				}
			}
			return nil, false
		}
		outs := e.Explore(h, nil, nil)
		want := fmt.Sprint(plus | hash)
		if len(outs) == 0 {
			return false
		}
		for _, o := range outs {
			if len(o.Ret) != 1 || o.Ret[0] != want {
				return false
			}
		}
	}
	return true
}

func (c *Ctx) checkConnectWillAndFlags(r *Report, gm *gwModel) {
	// will topic non-empty whenever the will flag stays set
	for _, f := range c.repoFuncs("gateway") {
		if !c.functionHasParam(f, pkPackets1, "WillTopic") {
			continue
		}
		allInstrs(f, func(i ssa.Instruction) {
			st, ok := i.(*ssa.Store)
			if !ok {
				return
			}
			fa, ok := st.Addr.(*ssa.FieldAddr)
			if !ok || !typeIs(fa.X.Type(), pahoPkts, "ConnectPacket") || fieldName(fa.X.Type(), fa.Field) != "WillTopic" {
				return
			}
			r.fn(f)
			key := fnKey(f) + ":will-topic-non-empty-or-flag-cleared"
			// guard on the topic's emptiness, or a store clearing WillFlag in the same function
			guarded := false
			for _, g := range guardsOf(i.Block()) {
				x, y, _, isCmp := cmpGuard(g)
				if isCmp {
					for _, v := range []ssa.Value{x, y} {
						if s, ok := constString(v); ok && s == "" {
							guarded = true
						}
						if lc, ok := v.(*ssa.Call); ok {
							if b, ok := lc.Call.Value.(*ssa.Builtin); ok && b.Name() == "len" {
								guarded = true
							}
						}
					}
				}
			}
			clears := false
			allInstrs(f, func(j ssa.Instruction) {
				if s2, ok := j.(*ssa.Store); ok {
					if fa2, ok := s2.Addr.(*ssa.FieldAddr); ok && fieldName(fa2.X.Type(), fa2.Field) == "WillFlag" {
						clears = true
					}
				}
			})
			if guarded || clears {
				r.ok("R4", key, c.instrPos(i), "an empty WILLTOPIC is handled (flag cleared or topic tested)")
			} else {
				r.bad("R4", key, c.instrPos(i), "the WILLTOPIC's (possibly empty) topic is stored while the CONNECT keeps WillFlag set: an empty WILLTOPIC yields a CONNECT with the will flag and an empty will topic, which MQTT 3.1.1 forbids")
			}
		})
	}
	// PasswordFlag => UsernameFlag
	for _, f := range c.repoFuncs("gateway") {
		var userStore, passStore *ssa.Store
		allInstrs(f, func(i ssa.Instruction) {
			st, ok := i.(*ssa.Store)
			if !ok {
				return
			}
			fa, ok := st.Addr.(*ssa.FieldAddr)
			if !ok || !typeIs(fa.X.Type(), pahoPkts, "ConnectPacket") || !isFreshObject(fa.X) {
				return
			}
			switch fieldName(fa.X.Type(), fa.Field) {
			case "UsernameFlag":
				userStore = st
			case "PasswordFlag":
				passStore = st
			}
		})
		if userStore == nil || passStore == nil {
			continue
		}
		r.fn(f)
		key := fnKey(f) + ":password-flag-implies-username-flag"
		// the password flag must be a conjunction including the username condition, or stored under it
		depends := false
		if b, ok := passStore.Val.(*ssa.BinOp); ok && b.Op == token.AND {
			depends = true
		}
		if phi, ok := passStore.Val.(*ssa.Phi); ok {
			_ = phi
			depends = true
		}
		for _, g := range guardsOf(passStore.Block()) {
			if sameExpr(g.Cond, userStore.Val) && g.Truth {
				depends = true
			}
		}
		if depends {
			r.ok("R4", key, c.instrPos(passStore), "PasswordFlag depends on the user name being configured")
		} else {
			r.bad("R4", key, c.instrPos(passStore), "PasswordFlag is derived from the configured password alone: with --mqtt-password but no --mqtt-user the CONNECT has the password flag without the user name flag, which MQTT 3.1.1 forbids")
		}
	}
}

// ---------------------------------------------------------------------------
// C32

func checkC32(c *Ctx, r *Report) {
	checkC32Sites(c, r)
	c.checkClientDeliveryTopic(r, "R6")
	// R3
	importRules(c, r, "C05", map[string]string{"R1": "R3", "R2": "R3"})
	importRules(c, r, "C21", map[string]string{"R6": "R3"})
	// R4: what the gateway does with the results (pairing of topic-ID type and ID in PUBLISHes to the
	// client, lawful producers of the topic name of PUBLISHes to the broker)
	importRules(c, r, "C02", map[string]string{"R2": "R4"})
	importRules(c, r, "C01", map[string]string{"R2": "R4"})
	// R5: the gateway's mapping stays the configured one: no session writes to it, directly or through an alias (C15-R2)
	importRules(c, r, "C15", map[string]string{"R2": "R5"})
}

// checkC32Sites: R1 and R2 of C32 (resolver sites and the identity they use).
func checkC32Sites(c *Ctx, r *Report) {
	ownID := func(v ssa.Value, rel string) (bool, string) {
		os := c.origins(v)
		if len(os) != 1 {
			return false, "several origins"
		}
		o := os[0]
		switch rel {
		case "client":
			// c.cfg.ClientID / t.client.cfg.ClientID
			if (o.Kind == "param" || o.Kind == "freevar") && len(o.Path) >= 2 && o.Path[len(o.Path)-1] == "ClientID" && o.Path[len(o.Path)-2] == "cfg" {
				return true, "cfg.ClientID"
			}
		case "gateway":
			if (o.Kind == "param" || o.Kind == "freevar") && len(o.Path) == 1 && strings.HasPrefix(typeStr(o.RootType()), "*gateway.") {
				return true, "handler." + o.Path[0]
			}
		}
		return false, o.String()
	}
	idFields := map[string]bool{}
	for _, rel := range []string{"client", "gateway"} {
		for _, f := range c.repoFuncs(rel) {
			allInstrs(f, func(i ssa.Instruction) {
				call, ok := i.(*ssa.Call)
				if !ok {
					return
				}
				n := calleeName(&call.Call)
				switch n {
				case "(" + pkTopics + ".PredefinedTopics).GetTopicName":
					r.fn(f)
					key := fmt.Sprintf("%s:GetTopicName", fnKey(f))
					okID, d := ownID(call.Call.Args[1], rel)
					if okID && rel == "gateway" {
						idFields[strings.TrimPrefix(d, "handler.")] = true
					}
					_, idOK := pktTopicIDLoad(call.Call.Args[2])
					for _, o := range c.origins(call.Call.Args[2]) {
						if len(o.Path) >= 1 && o.Path[len(o.Path)-1] == "TopicID" && strings.HasPrefix(typeStr(o.RootType()), "*packets1.") {
							idOK = true
						}
						if o.Kind == "call" && strings.HasSuffix(o.Callee, "IDSequence).Next") {
							idOK = true // collision probe of a fresh ID
						}
						if o.Kind == "call" && len(o.Path) == 0 {
							idOK = true
						}
					}
					r.cond(okID && idOK, "R1", key, c.instrPos(i), "GetTopicName("+d+", <packet>.TopicID)", "GetTopicName is not called with (own client ID, the packet's topic ID): client ID "+d)
				case "(" + pkTopics + ".PredefinedTopics).GetTopicID":
					r.fn(f)
					key := fmt.Sprintf("%s:GetTopicID", fnKey(f))
					okID, d := ownID(call.Call.Args[1], rel)
					if okID && rel == "gateway" {
						idFields[strings.TrimPrefix(d, "handler.")] = true
					}
					r.cond(okID, "R1", key, c.instrPos(i), "GetTopicID("+d+", name)", "GetTopicID is not called with the own client ID: "+d)
				case pkPackets + ".EncodeShortTopic":
					r.fn(f)
					key := fmt.Sprintf("%s:EncodeShortTopic", fnKey(f))
					guarded := false
					for _, g := range guardsOf(i.Block()) {
						if gc, ok := g.Cond.(*ssa.Call); ok && g.Truth && calleeName(&gc.Call) == pkPackets+".IsShortTopic" {
							if gc.Call.Args[0] == call.Call.Args[0] || sameExpr(gc.Call.Args[0], call.Call.Args[0]) {
								guarded = true
							}
						}
					}
					r.cond(guarded, "R1", key, c.instrPos(i), "EncodeShortTopic(name) under IsShortTopic(name)", "EncodeShortTopic is applied to a name that was not tested with IsShortTopic (names that are not 2 bytes long are truncated/padded)")
				case pkPackets + ".DecodeShortTopic":
					r.fn(f)
					key := fmt.Sprintf("%s:DecodeShortTopic", fnKey(f))
					pktType, idOK := pktTopicIDLoad(call.Call.Args[0])
					for _, o := range c.origins(call.Call.Args[0]) {
						if idOK {
							break
						}
						if len(o.Path) >= 1 && o.Path[len(o.Path)-1] == "TopicID" && strings.HasPrefix(typeStr(o.RootType()), "*packets1.") {
							idOK = true
							pktType = strings.TrimPrefix(typeStr(o.RootType()), "*packets1.")
						}
					}
					tit := false
					if idOK {
						isT0 := c.isFieldOfAny(pktType, "TopicIDType")
						isT := func(v ssa.Value) bool {
							if u, ok := v.(*ssa.UnOp); ok && u.Op == token.MUL {
								if fa, ok := u.X.(*ssa.FieldAddr); ok && fieldName(fa.X.Type(), fa.Field) == "TopicIDType" {
									if n := namedOf(derefType(fa.X.Type())); n != nil && n.Obj().Name() == pktType {
										return true
									}
								}
							}
							return isT0(v)
						}
						vs := feasibleValues(guardsOf(i.Block()), isT, []int64{0, 1, 2, 3})
						tit = subsetOf(vs, 2) && len(vs) > 0
					}
					if strings.HasSuffix(f.Name(), "String") {
						return // Stringer helpers
					}
					r.cond(idOK && tit, "R1", key, c.instrPos(i), "DecodeShortTopic(<packet>.TopicID) under TopicIDType == short", "DecodeShortTopic is not applied to the packet's topic ID under TopicIDType == 2")
				}
			})
		}
	}
	// R2: identities
	// gateway: the handler field used as client ID is assigned from Connect.ClientID only
	for fld := range idFields {
		n, okAll := 0, true
		idCell := ""
		for _, f := range c.repoFuncs("gateway") {
			allInstrs(f, func(i ssa.Instruction) {
				st, ok := i.(*ssa.Store)
				if !ok {
					return
				}
				fa, ok := st.Addr.(*ssa.FieldAddr)
				if !ok || fieldName(fa.X.Type(), fa.Field) != fld || !strings.HasPrefix(typeStr(fa.X.Type()), "*gateway.") {
					return
				}
				n++
				idCell = fieldCell(fa)
				if !c.valueIsField(st.Val, pkPackets1, "Connect", "ClientID") {
					okAll = false
				}
			})
		}
		// ... and only by a CONNECT that starts a connect exchange: a refused CONNECT (protocol, zero keep-alive) or
		// one answered by the handler itself (client returning from sleep) must leave the identity of the
		// established session untouched
		if m, err := c.newGwModel(); err == nil && idCell != "" {
			for _, st := range []int64{0, 1, 2, 3} {
				okc, detail, nOut := true, "", 0
				for _, dur := range []int64{0, 60} {
					for _, proto := range []int64{1, 2} {
						for _, tx := range []string{"none", c.gwConnectTx()} {
							cells := map[string]aval{"state": kint(st), "type:sn": kstr("*packets1.Connect"), "f:packets1.Connect.Duration": kint(dur), "f:packets1.Connect.ProtocolID": kint(proto), "type:tx": kstr(tx)}
							outs, _ := m.run(m.snDisp, cells)
							nOut += len(outs)
							for _, o := range outs {
								if hasEventPrefix(o, "set "+idCell+"=") && !hasEventPrefix(o, "store.StoreByType") {
									okc = false
									detail = fmt.Sprintf("a CONNECT (keep-alive %d, protocol %d) that starts no connect exchange - refused, or answered by the handler itself - still replaces the identity used for predefined lookups: the session goes on with the broker under the old client ID while names and IDs are resolved for another one: %s", dur, proto, strings.Join(o.Events, " ; "))
								}
							}
						}
					}
				}
				key := "gateway:" + fld + "-written-only-by-a-CONNECT-that-starts-an-exchange/" + stateNames[st]
				if nOut == 0 {
					r.undecided("R2", key, "-", "CONNECT case not explored")
				} else {
					r.cond(okc, "R2", key, c.pos(m.snDisp.Pos()), fmt.Sprintf("%d outcomes: the identity is set only together with a new connect exchange", nOut), detail)
				}
			}
		}
		r.cond(n > 0 && okAll, "R2", "gateway:"+fld+"<-CONNECT.ClientID", "-", fmt.Sprintf("the gateway's lookup identity is the CONNECT's ClientID (%d assignment(s))", n), "the identity the gateway uses for predefined lookups is not (only) the ClientID of the client's CONNECT")
	}
	if len(idFields) == 0 {
		r.undecided("R2", "gateway:client-id-field", "-", "no handler field used as lookup identity")
	}
	// client: CONNECT's ClientID = cfg.ClientID
	for _, f := range c.repoFuncs("client") {
		allInstrs(f, func(i ssa.Instruction) {
			call, ok := i.(*ssa.Call)
			if !ok || calleeName(&call.Call) != pkPackets1+".NewConnect" {
				return
			}
			okc := false
			for _, o := range c.origins(call.Call.Args[1]) {
				if len(o.Path) >= 2 && o.Path[len(o.Path)-1] == "ClientID" && o.Path[len(o.Path)-2] == "cfg" {
					okc = true
				}
			}
			r.cond(okc, "R2", "client:CONNECT.ClientID<-cfg.ClientID", c.instrPos(i), "the client announces cfg.ClientID, the identity of all its lookups", "the CONNECT's ClientID is not cfg.ClientID")
		})
	}
	// CLI: lookups with the configured client ID
	for _, tool := range []string{"cmd/bisquitt-pub", "cmd/bisquitt-sub"} {
		f := c.actionClosure(tool)
		if f == nil {
			r.undecided("R2", tool+":action", "-", "action closure not found")
			continue
		}
		env := cliEnv{Bool: map[string]int64{"dtls": 1, "insecure": 1, "self-signed": 1}, IsSet: map[string]int64{"predefined-topics-file": 1, "predefined-topic": 0, "user": 0, "client-id": 1, "port": 1}, String: map[string]string{}}
		e := c.cliExplorer(env)
		outs := e.Explore(f, nil, nil)
		key := strings.TrimPrefix(tool, "cmd/") + ":lookup-identity"
		okc, seen := true, false
		for _, o := range outs {
			id, have := o.Cells["f:client.ClientConfig.ClientID"]
			for _, ev := range eventsWithPrefix(o, "GetTopicID(") {
				seen = true
				if !have || !strings.HasSuffix(ev, ", client "+id.String()+")") {
					okc = false
				}
			}
		}
		r.cond(okc && seen, "R2", key, c.pos(f.Pos()), "the tool looks topics up with the client ID it configures", "the tool looks predefined topics up with another client ID than the one it connects with")
	}
}

// pktTopicIDLoad: v is a load of the TopicID field of a packets1 packet.
func pktTopicIDLoad(v ssa.Value) (string, bool) {
	u, ok := v.(*ssa.UnOp)
	if !ok || u.Op != token.MUL {
		return "", false
	}
	fa, ok := u.X.(*ssa.FieldAddr)
	if !ok || fieldName(fa.X.Type(), fa.Field) != "TopicID" {
		return "", false
	}
	n := namedOf(derefType(fa.X.Type()))
	if n == nil || n.Obj().Pkg() == nil || n.Obj().Pkg().Path() != pkPackets1 {
		return "", false
	}
	return n.Obj().Name(), true
}

// isFieldOfAny: like isFieldOf for a packets1 type given by name.
func (c *Ctx) isFieldOfAny(tname string, path ...string) func(ssa.Value) bool {
	return c.isFieldOf(pkPackets1, tname, path...)
}

// sharedConfigTypes: the configuration structs every session shares: the
// exported GatewayConfig and every struct of package gateway that the gateway
// builds ONCE, outside the accept loop, and hands to the handler constructor
// (today handlerConfig) - found by allocation site, not by name.
func (c *Ctx) sharedConfigTypes() map[string]bool {
	out := map[string]bool{"gateway.GatewayConfig": true}
	for _, f := range c.repoFuncs("gateway") {
		hasAccept := false
		allInstrs(f, func(i ssa.Instruction) {
			if _, ok := i.(*ssa.Go); ok && inCycle(i.Block()) {
				hasAccept = true
			}
		})
		if !hasAccept {
			continue
		}
		allInstrs(f, func(i ssa.Instruction) {
			a, ok := i.(*ssa.Alloc)
			if !ok || !a.Heap || inCycle(a.Block()) {
				return
			}
			if st := structOf(a.Type()); st != nil {
				if n := namedOf(derefType(a.Type())); n != nil && n.Obj().Pkg() != nil && n.Obj().Pkg().Path() == pkGateway {
					out["gateway."+n.Obj().Name()] = true
				}
			}
		})
	}
	return out
}

func (c *Ctx) anySharedField(set map[string]bool, field string) bool {
	for k := range set {
		if strings.HasSuffix(k, "."+field) {
			return true
		}
	}
	return false
}

// checkAcceptErrors (C15-R4): a peer can make Accept fail - the DTLS server handshake runs inside Accept and every
// handshake failure (bad certificate alert, no common cipher suite, garbage record, timeout) surfaces as
// *dtls.HandshakeError. Such an error must never end the accept loop: the loop's return would stop the whole gateway,
// i.e. one client's (mis)behaviour ends every other client's session. Every return of the accept-loop function that is
// reachable with a non-nil Accept error must therefore be guarded by "the error is NOT a *dtls.HandshakeError"
// (type assertion with comma-ok, or errors.As on a *dtls.HandshakeError target).
func (c *Ctx) checkAcceptErrors(r *Report, f *ssa.Function) {
	var accept *ssa.Call
	allInstrs(f, func(i ssa.Instruction) {
		if call, ok := i.(*ssa.Call); ok && call.Call.IsInvoke() && call.Call.Method.Name() == "Accept" && inCycle(i.Block()) {
			accept = call
		}
	})
	key := fnKey(f) + ":accept-error:handshake-failure-never-ends-the-loop"
	if accept == nil {
		r.undecided("R4", key, c.pos(f.Pos()), "no Accept call in the accept loop")
		return
	}
	var errv ssa.Value
	if accept.Referrers() != nil {
		for _, u := range *accept.Referrers() {
			if ex, ok := u.(*ssa.Extract); ok && ex.Index == 1 {
				errv = ex
			}
		}
	}
	if errv == nil {
		r.bad("R4", key, c.instrPos(accept), "the error of Accept is discarded")
		return
	}
	isHandshakeType := func(t types.Type) bool {
		return strings.HasSuffix(typeStr(t), "dtls.HandshakeError") || strings.HasSuffix(typeStr(t), "dtls/v2.HandshakeError")
	}
	notHandshake := func(gs []Guard) bool {
		for _, g := range gs {
			if g.Truth {
				continue
			}
			switch x := g.Cond.(type) {
			case *ssa.Extract:
				if ta, ok := x.Tuple.(*ssa.TypeAssert); ok && ta.CommaOk && ta.X == errv && isHandshakeType(ta.AssertedType) {
					return true
				}
			case *ssa.Call:
				if calleeName(&x.Call) == "errors.As" && len(x.Call.Args) == 2 && x.Call.Args[0] == errv {
					tgt := x.Call.Args[1]
					if mi, ok := tgt.(*ssa.MakeInterface); ok {
						tgt = mi.X
					}
					if pt, ok := tgt.Type().Underlying().(*types.Pointer); ok && isHandshakeType(pt.Elem()) {
						return true
					}
				}
			}
		}
		return false
	}
	n, bad := 0, ""
	for _, b := range f.Blocks {
		ret, ok := b.Instrs[len(b.Instrs)-1].(*ssa.Return)
		if !ok {
			continue
		}
		gs := guardsOf(b)
		onErr := false
		for _, g := range gs {
			if x, y, op, ok := cmpGuard(g); ok && op == token.NEQ && ((x == errv && isNilConst(y)) || (y == errv && isNilConst(x))) {
				onErr = true
			}
		}
		if !onErr {
			continue
		}
		n++
		if !notHandshake(gs) {
			bad = c.instrPos(ret)
		}
	}
	if n == 0 {
		r.ok("R4", key, c.instrPos(accept), "no Accept error ends the accept loop")
		return
	}
	r.cond(bad == "", "R4", key, c.instrPos(accept), fmt.Sprintf("%d return(s) on an Accept error, each only for errors that are not DTLS handshake failures", n),
		"the accept loop returns ("+bad+") on an Accept error that may be a *dtls.HandshakeError: the DTLS handshake runs inside Accept, so one peer whose handshake fails (rejected certificate, no common cipher suite, garbage) stops the gateway - no other peer address gets a session any more and the established sessions end with the process")
}

// checkWriteForwarders (C23-R4): the connection the senders write to is wrapped by repository types (the context-aware
// connection). One Write of the sender must be one Write of the transport - on UDP/DTLS each transport Write is one
// datagram. Every repository method Write([]byte) that calls Write on an inner connection must hand it its own
// parameter, unsliced (a retry of the same call after a timeout is still one datagram per successful call).
func (c *Ctx) checkWriteForwarders(r *Report, rule string) {
	n := 0
	for _, f := range c.allRepoFuncs() {
		if f.Name() != "Write" || f.Signature.Recv() == nil || len(f.Params) != 2 || !isByteSlice(f.Params[1].Type()) {
			continue
		}
		if strings.HasSuffix(c.pos(f.Pos()), "_test.go") {
			continue
		}
		allInstrs(f, func(i ssa.Instruction) {
			ci, ok := i.(ssa.CallInstruction)
			if !ok {
				return
			}
			cc := ci.Common()
			nm := ""
			var arg ssa.Value
			if cc.IsInvoke() && cc.Method.Name() == "Write" && len(cc.Args) == 1 {
				nm, arg = "Write", cc.Args[0]
			} else if g := staticCallee(cc); g != nil && g.Name() == "Write" && g.Signature.Recv() != nil && len(cc.Args) == 2 {
				nm, arg = "Write", cc.Args[1]
			}
			if nm == "" || !isByteSlice(arg.Type()) {
				return
			}
			n++
			r.fn(f)
			key := fnKey(f) + ":forwards-whole-buffer"
			r.cond(arg == ssa.Value(f.Params[1]), rule, key, c.instrPos(i), "the wrapper hands its whole buffer to the transport in one Write",
				"the connection wrapper passes something else than its whole buffer ("+exprStr(arg)+") to the transport's Write: on the datagram transports (UDP, DTLS) one packet leaves as several datagrams, none of which is a well-formed MQTT-SN packet with a matching length field")
		})
	}
	if n == 0 {
		r.ok(rule, "connection-wrappers:forward-whole-buffer", "-", "no repository type wraps a connection's Write")
	}
}

// checkClientDeliveryTopic (C32-R6): the client's side of "the results are used lawfully": the topic name under which a
// received PUBLISH is handed to the subscription handlers comes, on every path, straight from one of the three
// resolvers for the packet's topic-ID type - the client's registry (topic IDs it acknowledged), GetTopicName for its own
// client ID, DecodeShortTopic. A cache or any other source in between is a violation (the three ID spaces are disjoint
// only together with the topic-ID type).
func (c *Ctx) checkClientDeliveryTopic(r *Report, rule string) {
	n := 0
	for _, f := range c.repoFuncs("client") {
		allInstrs(f, func(i ssa.Instruction) {
			ci, ok := i.(ssa.CallInstruction)
			if !ok {
				return
			}
			g := staticCallee(ci.Common())
			if g == nil || fnPkgPath(g) != pkClient || g.Signature.Recv() == nil {
				return
			}
			// the delivery function: takes a string and a *Publish and starts a goroutine / calls a callback type
			var topicArg ssa.Value
			hasPub := false
			for k, p := range g.Params {
				if k >= len(ci.Common().Args) {
					break
				}
				if b, ok := p.Type().Underlying().(*types.Basic); ok && b.Kind() == types.String {
					topicArg = ci.Common().Args[k]
				}
				if typeIs(p.Type(), pkPackets1, "Publish") {
					hasPub = true
				}
			}
			if topicArg == nil || !hasPub {
				return
			}
			delivers := false
			var hasGo func(h *ssa.Function, d int)
			seenG := map[*ssa.Function]bool{}
			hasGo = func(h *ssa.Function, d int) {
				if seenG[h] || d > 2 || h.Blocks == nil {
					return
				}
				seenG[h] = true
				allInstrs(h, func(j ssa.Instruction) {
					if _, ok := j.(*ssa.Go); ok {
						delivers = true
					}
					if cj, ok := j.(ssa.CallInstruction); ok {
						if h2 := staticCallee(cj.Common()); h2 != nil && fnPkgPath(h2) == pkClient {
							hasGo(h2, d+1)
						}
					}
				})
			}
			hasGo(g, 0)
			if !delivers {
				return
			}
			n++
			r.fn(f)
			key := fnKey(f) + ":delivery-topic-from-resolvers"
			var bad []string
			var srcs []string
			lawfulCall := func(callee string) bool {
				return callee == "("+pkTopics+".PredefinedTopics).GetTopicName" || callee == pkPackets+".DecodeShortTopic"
			}
			for _, o := range c.deepOriginsStop(topicArg, 3, lawfulCall) {
				d := o.String()
				switch {
				case o.Kind == "call" && (o.Callee == "("+pkTopics+".PredefinedTopics).GetTopicName" || o.Callee == pkPackets+".DecodeShortTopic"):
				case o.Kind == "range" || o.Kind == "lookup":
					// the client's registry: a plain map field of the client (name <-> uint16)
					var mtyp types.Type
					if len(o.Args) > 0 {
						if rg, ok := o.Args[0].(*ssa.Range); ok {
							mtyp = rg.X.Type()
						}
					}
					for _, rv := range []ssa.Value{o.Root, o.Val} {
						if rv == nil || mtyp != nil {
							continue
						}
						if nx, ok := rv.(*ssa.Next); ok {
							if rg, ok := nx.Iter.(*ssa.Range); ok {
								mtyp = rg.X.Type()
							}
						} else if _, ok := derefType(rv.Type()).Underlying().(*types.Map); ok {
							mtyp = derefType(rv.Type())
						}
					}
					if mtyp == nil {
						bad = append(bad, d)
					} else if mt, ok := mtyp.Underlying().(*types.Map); !ok {
						bad = append(bad, d+" [not a map]")
					} else {
						kb, _ := mt.Key().Underlying().(*types.Basic)
						eb, _ := mt.Elem().Underlying().(*types.Basic)
						if !((kb != nil && kb.Kind() == types.Uint16) || (eb != nil && eb.Kind() == types.Uint16)) {
							bad = append(bad, d)
						}
					}
				case o.Kind == "const" || o.Kind == "zero":
				default:
					bad = append(bad, d+" ["+o.Kind+"]")
				}
				srcs = append(srcs, d)
			}
			sort.Strings(srcs)
			r.cond(len(bad) == 0 && len(srcs) > 0, rule, key, c.instrPos(i), "topic name from: "+strings.Join(srcs, "; "),
				"the name under which a received PUBLISH is delivered does not come straight from the registry / GetTopicName / DecodeShortTopic: "+strings.Join(bad, "; ")+" - a cache or other source keyed without the topic-ID type delivers a message under another topic's name")
		})
	}
	if n == 0 {
		r.undecided(rule, "client:delivery-topic", "-", "no call of the client's delivery function found")
	}
}
