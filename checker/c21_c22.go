package main

import (
	"go/constant"
	"fmt"
	"go/token"
	"go/types"
	"sort"
	"strings"

	"golang.org/x/tools/go/ssa"
)

func init() {
	register("C21", func(r *Report) {
		r.Explanation = "Encoder/decoder table agreement, which is necessary for round-trip equality and sufficient for every field whose handling is value independent. Decided: (R1) for each of the 28 packet types and each variant the codec branches on (topic-ID type, DISCONNECT duration zero/non-zero, empty WILLTOPIC), the ordered buffer writes of Pack and the (field <- buffer position) stores of the single accepting Unpack path list the same fields at the same offsets and widths; (R2) every flag field uses the same mask and shift in encodeFlags and decodeFlags, masks are disjoint, booleans occupy their whole mask; (R3) the length handed to the header equals the number of bytes written and is set before the header is written; (R4) the type tag in each constructor equals the tag NewPacketWithHeader maps to that struct, tags are distinct; (R5) SetVarPartLength, HeaderLength, PackToBuffer and Header.Unpack switch between the 2- and 4-byte header forms at the same total length (255) and use the same byte positions; (R6) the short-topic codec moves byte 0 to the high octet and byte 1 to the low octet in both directions and never goes through rune/UTF-8 conversions; IsShortTopic accepts exactly the names of two bytes; (R7) the receive buffer holds every datagram a sender may produce (C22-R3); (R8) no Unpack can panic (C20's bounds obligations of the decoders, re-run here: a decoder that panics on a legal field value does not return the original packet); (R9) the boundary case of R1: with every variable-length field one octet long the decoder accepts what the encoder produces, at the same offsets. Not decided: equality for every field value (e.g. lengths above 65535, reported under C23)."
		r.floor("R1", 28)
		r.floor("R2", 5)
		r.floor("R3", 28)
		r.floor("R4", 28)
		r.floor("R5", 8)
		r.floor("R6", 3)
		r.floor("R8", 30)
		r.floor("R9", 10)
	}, checkC21)
	register("C22", func(r *Report) {
		r.Explanation = "Decided: (R1) for each packet type and variant the single accepting decoder path reads every field from the byte position the MQTT-SN 1.2 message format (and doc/auth.md for AUTH) assigns to it - the specification table is frozen in the checker, one line per field; (R2) the body is sliced at the size of the header form that Header.Unpack actually parsed: for the long form (first octet 0x01) HeaderLength yields 4 whatever the length value, for the short form 2, and ReadPacket slices the very buffer it handed to Header.Unpack; the type is read at offset 3 resp. 1; (R3) the whole datagram is decoded: the buffer ReadPacket hands to the connection's Read is at least as long as the longest datagram a bisquitt sender lets through and as MaxPayloadLength plus the longest fixed part, so no legal datagram is truncated and then decoded as if complete. Not decided: semantic validity of the decoded values."
		r.floor("R1", 28)
		r.floor("R2", 3)
		r.floor("R3", 1)
	}, checkC22)
}

// bodySize returns the number of body bytes the encoder wrote.
func bodySize(items []layItem) int64 {
	n := int64(0)
	for _, it := range items {
		n += it.Width
	}
	return n
}

func checkC21(c *Ctx, r *Report) {
	cm := c.newCodecModel()
	if len(cm.types) < 28 {
		r.undecided("R0", "packet-types", "-", fmt.Sprintf("only %d packet types found in NewPacketWithHeader", len(cm.types)))
	}
	tags := cm.decoderTags()
	ctorTags := map[string]int64{}
	for _, t := range cm.types {
		name := strings.TrimPrefix(t, "*packets1.")
		pack := cm.method(t, "Pack")
		r.fn(pack)
		r.fn(cm.method(t, "Unpack"))
		pos := "-"
		if pack != nil {
			pos = c.pos(pack.Pos())
		}
		// R1 + R3 per variant
		okAll := true
		var descr []string
		for _, v := range cm.variants(t) {
			key := name
			if v.Name != "" {
				key += "[" + v.Name + "]"
			}
			enc := cm.encode(t, v)
			if enc.Err != "" {
				r.undecided("R1", key, pos, "encoder not understood: "+enc.Err)
				okAll = false
				continue
			}
			for _, it := range enc.Items {
				if strings.HasPrefix(it.Field, "?") {
					r.undecided("R1", key, pos, "encoder writes something the analysis cannot attribute to a field: "+it.Field)
					okAll = false
				}
			}
			S := bodySize(enc.Items)
			extra := map[string]aval{}
			for _, it := range enc.Items {
				if strings.HasPrefix(it.Field, "len(") {
					f := strings.TrimSuffix(strings.TrimPrefix(it.Field, "len("), ")")
					if lc, ok := v.Cells["len:f:"+strings.TrimPrefix(t, "*")+"."+f]; ok {
						extra[fmt.Sprintf("buf[%d]", it.Off)] = lc
					}
				}
			}
			dec := cm.decode(t, v, S, extra)
			if dec.Err != "" {
				r.bad("R1", key, pos, fmt.Sprintf("the decoder does not accept what the encoder produces for this variant (%d body bytes): %s", S, dec.Err))
				okAll = false
				continue
			}
			flagOff := cm.flagsOffset(t)
			mism := compareLayouts(enc.Items, dec.Items, dec.Used, flagOff)
			if mism != "" {
				r.bad("R1", key, pos, "encoder and decoder disagree: "+mism+"; encoder "+itemsStr(enc.Items)+"; decoder "+itemsStr(dec.Items))
				okAll = false
			} else {
				descr = append(descr, key+": "+itemsStr(enc.Items))
			}
			// R3
			k3 := key + ":length"
			switch {
			case !enc.HdrFirst:
				r.bad("R3", k3, pos, "fields are written before the header")
			case enc.HdrArg.known && enc.HdrArg.i == S && enc.SetBefore:
				r.ok("R3", k3, pos, fmt.Sprintf("SetVarPartLength(%d) before the header write = %d bytes written", enc.HdrArg.i, S))
			case enc.HdrArg.known:
				r.bad("R3", k3, pos, fmt.Sprintf("length field computed from %d but %d body bytes are written", enc.HdrArg.i, S))
			default:
				// constant-length type: the constructor's header length
				cl, ok := cm.ctorLength(t)
				if ok && cl == S {
					r.ok("R3", k3, pos, fmt.Sprintf("constant length %d set by the constructor = bytes written", cl))
				} else if ok {
					r.bad("R3", k3, pos, fmt.Sprintf("constructor sets var-part length %d but Pack writes %d bytes", cl, S))
				} else {
					r.undecided("R3", k3, pos, "Pack does not compute the length and no constructor with a constant NewHeader length was found")
				}
			}
		}
		if okAll {
			r.ok("R1", name, pos, strings.Join(descr, " | "))
		}
		// R2 flags
		ef, eb := cm.encodeFlagSpecs(t)
		df, db := cm.decodeFlagSpecs(t)
		if ef != nil || df != nil {
			key := name + ":flags"
			switch {
			case eb != "":
				r.undecided("R2", key, pos, "encodeFlags: "+eb)
			case db != "":
				r.undecided("R2", key, pos, "decodeFlags: "+db)
			default:
				bad := ""
				var names []string
				for f := range ef {
					names = append(names, f)
				}
				for f := range df {
					if _, ok := ef[f]; !ok {
						names = append(names, f)
					}
				}
				sort.Strings(names)
				var all int64
				for _, f := range names {
					e, ok1 := ef[f]
					d, ok2 := df[f]
					if !ok1 || !ok2 {
						bad += fmt.Sprintf("flag %s handled on one side only; ", f)
						continue
					}
					if e != d {
						bad += fmt.Sprintf("flag %s: encoder %s, decoder %s; ", f, e, d)
					}
					if e.Mask&all != 0 {
						bad += fmt.Sprintf("flag %s overlaps another flag; ", f)
					}
					all |= e.Mask
					if !e.Bool {
						m := e.Mask >> uint(e.Shift)
						if m&(m+1) != 0 || (e.Mask&((1<<uint(e.Shift))-1)) != 0 {
							bad += fmt.Sprintf("flag %s: mask %#x is not a contiguous field at shift %d; ", f, e.Mask, e.Shift)
						}
					}
				}
				if bad != "" {
					r.bad("R2", key, pos, bad)
				} else {
					var ds []string
					for _, f := range names {
						ds = append(ds, f+": "+ef[f].String())
					}
					r.ok("R2", key, pos, strings.Join(ds, "; "))
				}
			}
		}
		// R4 tag
		k4 := name + ":tag"
		ct, okc := cm.ctorTag(t)
		dt, okd := tags[t]
		switch {
		case !okd:
			r.undecided("R4", k4, pos, "no case of NewPacketWithHeader creates this type under a constant tag")
		case !okc:
			r.undecided("R4", k4, pos, "no constructor calling NewHeader(<constant tag>, ...) found")
		case ct != dt:
			r.bad("R4", k4, pos, fmt.Sprintf("constructor uses type tag %#x but the decoder creates this struct for tag %#x", ct, dt))
		default:
			ctorTags[t] = ct
			r.ok("R4", k4, pos, fmt.Sprintf("tag %#x on both sides", ct))
		}
	}
	seen := map[int64]string{}
	for t, k := range ctorTags {
		if o, dup := seen[k]; dup {
			r.bad("R4", "distinct-tags", "-", fmt.Sprintf("%s and %s share tag %#x", o, t, k))
		}
		seen[k] = t
	}
	cm.checkHeader(r, "R5")
	cm.checkShortTopic(r, "R6")
	cm.checkIsShortTopic(r, "R6")
	importRules(c, r, "C22", map[string]string{"R3": "R7"})
	// R8: decoding never panics, so in particular not on the encoding of a legal packet (C20's bounds obligations for
	// the decoders, re-run here): a decoder that panics on some legal field value does not "yield a packet equal to the original"
	importRulesF(c, r, "C20", map[string]string{"R1": "R8"}, func(rule, key string) bool { return strings.Contains(key, ".Unpack:") || strings.Contains(key, "Unpack") })
	// R9: the smallest legal packets: every variable-length field one octet long (names such as "#", "a"; a one-octet
	// payload) - the decoder must accept exactly what the encoder produces, at the same offsets
	for _, t := range cm.types {
		name := strings.TrimPrefix(t, "*packets1.")
		pack := cm.method(t, "Pack")
		if pack == nil {
			continue
		}
		pos := c.pos(pack.Pos())
		for _, v := range cm.variants(t) {
			hasVar := false
			mv := codecVariant{Name: v.Name, Cells: map[string]aval{}}
			for k, a := range v.Cells {
				if strings.HasPrefix(k, "len:f:") && a.known && a.i == varLen {
					a = kint(1)
					hasVar = true
				}
				mv.Cells[k] = a
			}
			if !hasVar {
				continue
			}
			key := name
			if v.Name != "" {
				key += "[" + v.Name + "]"
			}
			key += ":one-octet-fields"
			enc := cm.encode(t, mv)
			if enc.Err != "" {
				r.undecided("R9", key, pos, "encoder not understood: "+enc.Err)
				continue
			}
			S := bodySize(enc.Items)
			extra := map[string]aval{}
			for _, it := range enc.Items {
				if strings.HasPrefix(it.Field, "len(") {
					f := strings.TrimSuffix(strings.TrimPrefix(it.Field, "len("), ")")
					if lc, ok := mv.Cells["len:f:"+strings.TrimPrefix(t, "*")+"."+f]; ok {
						extra[fmt.Sprintf("buf[%d]", it.Off)] = lc
					}
				}
			}
			dec := cm.decode(t, mv, S, extra)
			if dec.Err != "" {
				r.bad("R9", key, pos, fmt.Sprintf("the decoder does not accept the smallest legal packet of this variant (%d body bytes, every variable-length field one octet long) although the encoder produces it: %s", S, dec.Err))
				continue
			}
			if mism := compareLayouts(enc.Items, dec.Items, dec.Used, cm.flagsOffset(t)); mism != "" {
				r.bad("R9", key, pos, "encoder and decoder disagree on the smallest legal packet: "+mism+"; encoder "+itemsStr(enc.Items)+"; decoder "+itemsStr(dec.Items))
				continue
			}
			r.ok("R9", key, pos, itemsStr(enc.Items))
		}
	}
}

// checkIsShortTopic: the predicate every resolver uses to decide that a name
// travels as a 2-byte short topic must accept exactly the names of two BYTES:
// EncodeShortTopic packs bytes 0 and 1 and nothing else, so a name of another
// byte length that passes the predicate is sent truncated (or panics).
func (cm *codecModel) checkIsShortTopic(r *Report, rule string) {
	c := cm.c
	f := c.SSA[pkPackets].Func("IsShortTopic")
	if f == nil {
		r.undecided(rule, "IsShortTopic", "-", "IsShortTopic not found")
		return
	}
	r.fn(f)
	// explore the predicate for each byte length of the name; len(name) (also of []byte(name)) is the
	// only thing the result may depend on
	okc := len(f.Params) == 1
	for n := int64(0); n <= 5 && okc; n++ {
		e := &explorer{c: c}
		e.Inline = func(g *ssa.Function) bool { return false }
		nn := n
		e.ValueHook = func(v ssa.Value, e *explorer, st *pstate, fr *frame) (aval, bool) {
			if lc, ok := v.(*ssa.Call); ok {
				if bi, ok := lc.Call.Value.(*ssa.Builtin); ok && bi.Name() == "len" && stripConv(lc.Call.Args[0]) == ssa.Value(f.Params[0]) {
					return kint(nn), true
				}
			}
			return aval{}, false
		}
		outs := e.Explore(f, nil, nil)
		if len(outs) == 0 {
			okc = false
		}
		for _, o := range outs {
			want := "0"
			if n == 2 {
				want = "1"
			}
			if len(o.Ret) != 1 || o.Ret[0] != want {
				okc = false
			}
		}
	}
	r.cond(okc, rule, "IsShortTopic", c.pos(f.Pos()), "IsShortTopic(name) == (len(name) == 2), byte length",
		"IsShortTopic is not exactly 'the name is 2 bytes long': a name it accepts with another byte length (e.g. two multi-byte characters) is packed into a topic ID from its first two bytes only, so the receiver decodes a different name")
}

func itemsStr(items []layItem) string {
	var s []string
	for _, it := range sortedItems(items) {
		s = append(s, it.String())
	}
	return "[" + strings.Join(s, " ") + "]"
}

// compareLayouts: every encoder item has a decoder item for the same field at
// the same offset/width and vice versa.
func compareLayouts(enc, dec []layItem, used map[string]bool, flagOff int64) string {
	decBy := map[string]layItem{}
	for _, d := range dec {
		if d.Kind == "flag" {
			continue
		}
		if strings.HasPrefix(d.Kind, "?") {
			return "decoder stores field " + d.Field + " from " + d.Kind
		}
		decBy[d.Field] = d
	}
	hasFlagDec := false
	for _, d := range dec {
		if d.Kind == "flag" {
			hasFlagDec = true
		}
	}
	encFields := map[string]bool{}
	for _, e := range enc {
		switch {
		case e.Field == "flags":
			if !hasFlagDec {
				return "encoder writes a flags byte the decoder never decodes"
			}
			if flagOff != e.Off {
				return fmt.Sprintf("flags byte written at offset %d but decoded from offset %d", e.Off, flagOff)
			}
		case strings.HasPrefix(e.Field, "len("):
			if !used[fmt.Sprintf("buf[%d]", e.Off)] {
				return fmt.Sprintf("length octet %s written at offset %d is not read by the decoder", e.Field, e.Off)
			}
		default:
			encFields[e.Field] = true
			d, ok := decBy[e.Field]
			if !ok {
				if e.Width == 0 {
					continue
				}
				return "field " + e.Field + " is encoded but never decoded"
			}
			if d.Off != e.Off || d.Width != e.Width {
				return fmt.Sprintf("field %s encoded at %d+%d but decoded from %d+%d", e.Field, e.Off, e.Width, d.Off, d.Width)
			}
		}
	}
	for f, d := range decBy {
		if !encFields[f] && d.Width != 0 {
			return "field " + f + " is decoded but never encoded"
		}
	}
	if hasFlagDec {
		found := false
		for _, e := range enc {
			if e.Field == "flags" {
				found = true
			}
		}
		if !found {
			return "decoder decodes flags the encoder never writes"
		}
	}
	return ""
}

// flagsOffset: index k of the flags octet in the body (decodeFlags(buf[k]) or buf[k] masked in place).
func (cm *codecModel) flagsOffset(tname string) int64 {
	_, _, off := cm.flagDecoder(tname)
	return off
}

// decoderTags: tag -> struct mapping of NewPacketWithHeader.
func (cm *codecModel) decoderTags() map[string]int64 {
	out := map[string]int64{}
	p := cm.c.SSA[pkPackets1]
	if p == nil {
		return out
	}
	f := p.Func("NewPacketWithHeader")
	if f == nil {
		return out
	}
	allInstrs(f, func(i ssa.Instruction) {
		mi, ok := i.(*ssa.MakeInterface)
		if !ok {
			return
		}
		if !typeIs(mi.Type(), pkPackets, "Packet") {
			return
		}
		for _, g := range guardsOf(mi.Block()) {
			x, y, op, okc := cmpGuard(g)
			if !okc || op != token.EQL {
				continue
			}
			if k, ok := constInt(y); ok {
				_ = x
				out[typeStr(mi.X.Type())] = k
			}
		}
	})
	return out
}

func (cm *codecModel) ctors(tname string) []*ssa.Function {
	var out []*ssa.Function
	p := cm.c.SSA[pkPackets1]
	for _, m := range p.Members {
		f, ok := m.(*ssa.Function)
		if !ok || !strings.HasPrefix(f.Name(), "New") || f.Signature.Results().Len() != 1 {
			continue
		}
		if typeStr(f.Signature.Results().At(0).Type()) == tname {
			out = append(out, f)
		}
	}
	sort.Slice(out, func(i, j int) bool { return out[i].Pos() < out[j].Pos() })
	return out
}

func (cm *codecModel) newHeaderCalls(tname string) []*ssa.Call {
	var out []*ssa.Call
	for _, f := range cm.ctors(tname) {
		allInstrs(f, func(i ssa.Instruction) {
			if call, ok := i.(*ssa.Call); ok && calleeName(&call.Call) == pkPackets+".NewHeader" {
				out = append(out, call)
			}
		})
	}
	return out
}

func (cm *codecModel) ctorTag(tname string) (int64, bool) {
	calls := cm.newHeaderCalls(tname)
	if len(calls) == 0 {
		return 0, false
	}
	tag := int64(-1)
	for _, call := range calls {
		k, ok := constInt(call.Call.Args[0])
		if !ok {
			return 0, false
		}
		if tag >= 0 && tag != k {
			return 0, false
		}
		tag = k
	}
	return tag, true
}

func (cm *codecModel) ctorLength(tname string) (int64, bool) {
	calls := cm.newHeaderCalls(tname)
	if len(calls) == 0 {
		return 0, false
	}
	l := int64(-1)
	for _, call := range calls {
		k, ok := constInt(call.Call.Args[1])
		if !ok {
			return 0, false
		}
		if l >= 0 && l != k {
			return 0, false
		}
		l = k
	}
	return l, true
}

// checkHeader: R5 (header form thresholds and positions).
func (cm *codecModel) checkHeader(r *Report, rule string) {
	c := cm.c
	hp := c.ByPath[pkPackets]
	if hp == nil {
		r.undecided(rule, "header", "-", "package packets not loaded")
		return
	}
	ht := types.NewPointer(hp.Types.Scope().Lookup("Header").Type())
	meth := func(n string) *ssa.Function {
		sel := c.Prog.MethodSets.MethodSet(ht).Lookup(hp.Types, n)
		if sel == nil {
			return nil
		}
		return c.Prog.MethodValue(sel)
	}
	set, hl, ptb, unp := meth("SetVarPartLength"), meth("HeaderLength"), meth("PackToBuffer"), meth("Unpack")
	if set == nil || hl == nil || ptb == nil || unp == nil {
		r.undecided(rule, "header-methods", "-", "Header methods SetVarPartLength/HeaderLength/PackToBuffer/Unpack not all found")
		return
	}
	for _, f := range []*ssa.Function{set, hl, ptb, unp} {
		r.fn(f)
	}
	used := map[string]bool{}
	for _, L := range []int64{0, 1, 100, 252, 253, 254, 255, 256, 300, 8000, 65000} {
		key := fmt.Sprintf("varpart=%d", L)
		total := L + 2
		long := false
		if total > 255 {
			total = L + 4
			long = true
		}
		e := cm.baseExplorer(used)
		outs := e.Explore(set, nil, map[int]aval{1: kint(L)})
		if len(outs) != 1 {
			r.undecided(rule, key, c.pos(set.Pos()), fmt.Sprintf("SetVarPartLength has %d paths for a concrete length", len(outs)))
			continue
		}
		cells := outs[0].Cells
		pl := cells["f:packets.Header.packetLength"]
		bad := ""
		if !pl.known || pl.i != total {
			bad += fmt.Sprintf("SetVarPartLength(%d) sets packet length %s, expected %d; ", L, pl, total)
		}
		// HeaderLength and PackToBuffer under the resulting header cells
		e2 := cm.baseExplorer(used)
		o2 := e2.Explore(hl, cells, nil)
		want := int64(2)
		if long {
			want = 4
		}
		if len(o2) != 1 || len(o2[0].Ret) != 1 || o2[0].Ret[0] != fmt.Sprint(want) {
			bad += fmt.Sprintf("HeaderLength() for a %d-byte packet is not %d (%v); ", total, want, outsRet(o2))
		}
		e3 := cm.baseExplorer(used)
		var writes []string
		e3.Event = func(i ssa.Instruction, ex *explorer, st *pstate, fr *frame) (string, bool, bool) {
			ci, ok := i.(ssa.CallInstruction)
			if !ok {
				return "", false, false
			}
			cc := ci.Common()
			switch calleeName(cc) {
			case "(*bytes.Buffer).WriteByte":
				return "B:" + ex.eval(cc.Args[1], st, fr).String(), true, true
			case "(*bytes.Buffer).Write":
				if call, ok := cc.Args[1].(*ssa.Call); ok && calleeName(&call.Call) == pkPackets+".EncodeUint16" {
					return "U16:" + ex.eval(call.Call.Args[0], st, fr).String(), true, true
				}
				return "W:?", true, true
			}
			return "", false, false
		}
		cells3 := map[string]aval{}
		for k, v := range cells {
			cells3[k] = v
		}
		cells3["f:packets.Header.packetType"] = kint(0x0C)
		o3 := e3.Explore(ptb, cells3, nil)
		if len(o3) == 1 {
			writes = o3[0].Events
		}
		wantW := []string{fmt.Sprintf("B:%d", total&0xff), "B:12"}
		if long {
			wantW = []string{"B:1", fmt.Sprintf("U16:%d", total), "B:12"}
		}
		if strings.Join(writes, ",") != strings.Join(wantW, ",") {
			bad += fmt.Sprintf("PackToBuffer writes %v, expected %v; ", writes, wantW)
		}
		if bad != "" {
			r.bad(rule, key, c.pos(set.Pos()), bad)
		} else {
			r.ok(rule, key, c.pos(set.Pos()), fmt.Sprintf("total %d, header %d bytes, bytes %v", total, want, wantW))
		}
	}
	// Unpack positions
	for _, first := range []int64{1, 7} {
		key := fmt.Sprintf("unpack(first-octet=%d)", first)
		e := cm.baseExplorer(used)
		var decs []string
		e.StoreEvent = func(s *ssa.Store, ex *explorer, st *pstate, fr *frame) (string, bool, bool) {
			fa, ok := s.Addr.(*ssa.FieldAddr)
			if !ok {
				return "", false, false
			}
			return "DEC:" + fieldName(fa.X.Type(), fa.Field) + "<-" + cm.describeDecoded(s.Val, ex, st, fr) + "=" + ex.eval(s.Val, st, fr).String(), true, false
		}
		outs := e.Explore(unp, map[string]aval{"len:buf": kint(20), "buf[0]": kint(first)}, nil)
		var succ []Outcome
		for _, o := range outs {
			if len(o.Ret) == 1 && o.Ret[0] == "nil" {
				succ = append(succ, o)
			}
		}
		if len(succ) != 1 {
			r.undecided(rule, key, c.pos(unp.Pos()), fmt.Sprintf("%d accepting paths", len(succ)))
			continue
		}
		for _, ev := range succ[0].Events {
			if strings.HasPrefix(ev, "DEC:") {
				decs = append(decs, strings.TrimPrefix(ev, "DEC:"))
			}
		}
		// fields are named through the exported getters, constants are ignored
		lenField, typField := cm.getterField(meth("PacketLength")), cm.getterField(meth("PacketType"))
		var nonConst []string
		for _, d := range decs {
			if strings.Contains(d, "<-const=") {
				continue
			}
			d = strings.Replace(d, lenField+"<-", "PacketLength()<-", 1)
			d = strings.Replace(d, typField+"<-", "PacketType()<-", 1)
			nonConst = append(nonConst, d)
		}
		sort.Strings(nonConst)
		got := strings.Join(nonConst, ",")
		want := "PacketLength()<-u8@0=7,PacketType()<-u8@1=?"
		if first == 1 {
			want = "PacketLength()<-u16@1=?,PacketType()<-u8@3=?"
		}
		if got != want {
			r.bad(rule, key, c.pos(unp.Pos()), "Header.Unpack stores "+got+", expected "+want)
		} else {
			r.ok(rule, key, c.pos(unp.Pos()), got)
		}
		// the header size reported afterwards is the size of the form parsed,
		// whatever the length value is
		eh := cm.baseExplorer(used)
		hcells := map[string]aval{}
		for k, v := range succ[0].Cells {
			if strings.HasPrefix(k, "f:packets.Header.") {
				hcells[k] = v
			}
		}
		oh := eh.Explore(hl, hcells, nil)
		wantHL := "2"
		if first == 1 {
			wantHL = "4"
		}
		okHL := len(oh) > 0
		for _, o := range oh {
			if len(o.Ret) != 1 || o.Ret[0] != wantHL {
				okHL = false
			}
		}
		k2 := fmt.Sprintf("header-length-after-unpack(first-octet=%d)", first)
		if okHL {
			r.ok(rule, k2, c.pos(hl.Pos()), "HeaderLength() = "+wantHL+" for every length value")
		} else {
			r.bad(rule, k2, c.pos(hl.Pos()), fmt.Sprintf("after parsing a header whose first octet is %d, HeaderLength() can return %v (must be %s whatever the length field says): the body would be sliced at the wrong offset", first, outsRet(oh), wantHL))
		}
	}
}

func outsRet(os []Outcome) []string {
	var s []string
	for _, o := range os {
		s = append(s, strings.Join(o.Ret, ","))
	}
	return s
}

// checkShortTopic: R6.
func (cm *codecModel) checkShortTopic(r *Report, rule string) {
	c := cm.c
	p := c.SSA[pkPackets]
	enc, dec := p.Func("EncodeShortTopic"), p.Func("DecodeShortTopic")
	if enc == nil || dec == nil {
		r.undecided(rule, "short-topic-codec", "-", "EncodeShortTopic / DecodeShortTopic not found")
		return
	}
	r.fn(enc)
	r.fn(dec)
	// forbidden anywhere in the two functions: range over a string, conversion
	// integer/rune -> string, []rune
	for _, f := range []*ssa.Function{enc, dec} {
		bad := ""
		allInstrs(f, func(i ssa.Instruction) {
			switch x := i.(type) {
			case *ssa.Range:
				if b, ok := x.X.Type().Underlying().(*types.Basic); ok && b.Info()&types.IsString != 0 {
					bad = "ranges over a string (yields runes, not bytes)"
				}
			case *ssa.Convert:
				from, to := x.X.Type().Underlying(), x.Type().Underlying()
				if tb, ok := to.(*types.Basic); ok && tb.Info()&types.IsString != 0 {
					if fb, ok := from.(*types.Basic); ok && fb.Info()&types.IsInteger != 0 {
						bad = "converts an integer to a string (UTF-8 encodes values >= 0x80)"
					}
					if fs, ok := from.(*types.Slice); ok {
						if eb, ok := fs.Elem().Underlying().(*types.Basic); ok && eb.Kind() != types.Uint8 {
							bad = "converts a non-byte slice to a string"
						}
					}
				}
				if ts, ok := to.(*types.Slice); ok {
					if eb, ok := ts.Elem().Underlying().(*types.Basic); ok && eb.Kind() == types.Int32 {
						bad = "converts to []rune"
					}
				}
			}
		})
		if bad != "" {
			r.bad(rule, f.Name()+":bytes-not-runes", c.pos(f.Pos()), f.Name()+" "+bad)
		}
	}
	// encoder shape: OR of (uint16(b[0]) << 8) and uint16(b[1]) where b = []byte(topic)
	hi, lo := false, false
	allInstrs(enc, func(i ssa.Instruction) {
		b, ok := i.(*ssa.BinOp)
		if !ok || b.Op != token.OR {
			return
		}
		term := b.Y
		shift := int64(0)
		if s, ok := term.(*ssa.BinOp); ok && s.Op == token.SHL {
			k, _ := constInt(s.Y)
			shift = k
			term = s.X
		}
		term = stripConv(term)
		if l, ok := term.(*ssa.UnOp); ok && l.Op == token.MUL {
			if ia, ok := l.X.(*ssa.IndexAddr); ok {
				idx, okc := constInt(ia.Index)
				src := stripConv(ia.X)
				_, fromParam := src.(*ssa.Parameter)
				if okc && fromParam && isByteSlice(ia.X.Type()) {
					if idx == 0 && shift == 8 {
						hi = true
					}
					if idx == 1 && shift == 0 {
						lo = true
					}
				}
			}
		}
	})
	if hi && lo {
		r.ok(rule, "EncodeShortTopic", c.pos(enc.Pos()), "id = byte[0]<<8 | byte[1] of []byte(topic)")
	} else {
		r.bad(rule, "EncodeShortTopic", c.pos(enc.Pos()), "EncodeShortTopic is not byte[0]<<8 | byte[1] over the bytes of the name")
	}
	// decoder: returns string(<2-byte slice>) filled big-endian from the parameter
	okDec := false
	allInstrs(dec, func(i ssa.Instruction) {
		ret, ok := i.(*ssa.Return)
		if !ok || len(ret.Results) != 1 {
			return
		}
		cv, ok := ret.Results[0].(*ssa.Convert)
		if !ok || !isByteSlice(cv.X.Type()) {
			return
		}
		// the slice: MakeSlice len 2 (or array) written by PutUint16(slice, param)
		put := false
		allInstrs(dec, func(j ssa.Instruction) {
			if ci, ok := j.(ssa.CallInstruction); ok && calleeName(ci.Common()) == "(encoding/binary.bigEndian).PutUint16" {
				if len(ci.Common().Args) == 3 && ci.Common().Args[1] == cv.X {
					if _, isParam := ci.Common().Args[2].(*ssa.Parameter); isParam {
						put = true
					}
				}
			}
		})
		if ms, ok := cv.X.(*ssa.MakeSlice); ok {
			if k, ok := constInt(ms.Len); ok && k == 2 && put {
				okDec = true
			}
		}
		if sl, ok := cv.X.(*ssa.Slice); ok {
			if a, ok := sl.X.(*ssa.Alloc); ok {
				if at, ok := derefType(a.Type()).Underlying().(*types.Array); ok && at.Len() == 2 && put {
					okDec = true
				}
			}
		}
	})
	if okDec {
		r.ok(rule, "DecodeShortTopic", c.pos(dec.Pos()), "string of a 2-byte slice filled by BigEndian.PutUint16(id)")
	} else {
		r.bad(rule, "DecodeShortTopic", c.pos(dec.Pos()), "DecodeShortTopic is not string(<2 bytes written big-endian from the id>)")
	}
}

// ---------------------------------------------------------------------------
// C22

// specTable: MQTT-SN 1.2 section 5.4 (+ doc/auth.md): body layout per type and
// variant. Offsets are relative to the first octet after the header; width -1 =
// rest of the packet. "flags" marks the flags octet.
var specTable = map[string]map[string][]layItem{
	"Advertise":     {"": {{"GatewayID", 0, 1, ""}, {"Duration", 1, 2, ""}}},
	"SearchGw":      {"": {{"Radius", 0, 1, ""}}},
	"GwInfo":        {"": {{"GatewayID", 0, 1, ""}, {"GatewayAddress", 1, -1, ""}}},
	"Connect":       {"": {{"flags", 0, 1, ""}, {"ProtocolID", 1, 1, ""}, {"Duration", 2, 2, ""}, {"ClientID", 4, -1, ""}}},
	"Connack":       {"": {{"ReturnCode", 0, 1, ""}}},
	"WillTopicReq":  {"": {}},
	"WillTopic":     {"len:WillTopic=0": {}, "len:WillTopic=3": {{"flags", 0, 1, ""}, {"WillTopic", 1, -1, ""}}},
	"WillMsgReq":    {"": {}},
	"WillMsg":       {"": {{"WillMsg", 0, -1, ""}}},
	"Register":      {"": {{"TopicID", 0, 2, ""}, {"messageID", 2, 2, ""}, {"TopicName", 4, -1, ""}}},
	"Regack":        {"": {{"TopicID", 0, 2, ""}, {"messageID", 2, 2, ""}, {"ReturnCode", 4, 1, ""}}},
	"Publish":       {"*": {{"flags", 0, 1, ""}, {"TopicID", 1, 2, ""}, {"messageID", 3, 2, ""}, {"Data", 5, -1, ""}}},
	"Puback":        {"": {{"TopicID", 0, 2, ""}, {"messageID", 2, 2, ""}, {"ReturnCode", 4, 1, ""}}},
	"Pubcomp":       {"": {{"messageID", 0, 2, ""}}},
	"Pubrec":        {"": {{"messageID", 0, 2, ""}}},
	"Pubrel":        {"": {{"messageID", 0, 2, ""}}},
	"Subscribe":     {"TopicIDType=0": {{"flags", 0, 1, ""}, {"messageID", 1, 2, ""}, {"TopicName", 3, -1, ""}}, "TopicIDType=1": {{"flags", 0, 1, ""}, {"messageID", 1, 2, ""}, {"TopicID", 3, 2, ""}}, "TopicIDType=2": {{"flags", 0, 1, ""}, {"messageID", 1, 2, ""}, {"TopicID", 3, 2, ""}}},
	"Suback":        {"": {{"flags", 0, 1, ""}, {"TopicID", 1, 2, ""}, {"messageID", 3, 2, ""}, {"ReturnCode", 5, 1, ""}}},
	"Unsubscribe":   {"TopicIDType=0": {{"flags", 0, 1, ""}, {"messageID", 1, 2, ""}, {"TopicName", 3, -1, ""}}, "TopicIDType=1": {{"flags", 0, 1, ""}, {"messageID", 1, 2, ""}, {"TopicID", 3, 2, ""}}, "TopicIDType=2": {{"flags", 0, 1, ""}, {"messageID", 1, 2, ""}, {"TopicID", 3, 2, ""}}},
	"Unsuback":      {"": {{"messageID", 0, 2, ""}}},
	"Pingreq":       {"": {{"ClientID", 0, -1, ""}}},
	"Pingresp":      {"": {}},
	"Disconnect":    {"Duration=0": {}, "Duration=5": {{"Duration", 0, 2, ""}}},
	"WillTopicUpd":  {"len:WillTopic=0": {}, "len:WillTopic=3": {{"flags", 0, 1, ""}, {"WillTopic", 1, -1, ""}}},
	"WillTopicResp": {"": {{"ReturnCode", 0, 1, ""}}},
	"WillMsgUpd":    {"": {{"WillMsg", 0, -1, ""}}},
	"WillMsgResp":   {"": {{"ReturnCode", 0, 1, ""}}},
	"Auth":          {"": {{"Reason", 0, 1, ""}, {"len(Method)", 1, 1, ""}, {"Method", 2, 3, ""}, {"Data", 5, -1, ""}}},
}

func checkC22(c *Ctx, r *Report) {
	cm := c.newCodecModel()
	for _, t := range cm.types {
		name := strings.TrimPrefix(t, "*packets1.")
		unp := cm.method(t, "Unpack")
		r.fn(unp)
		pos := "-"
		if unp != nil {
			pos = c.pos(unp.Pos())
		}
		spec, ok := specTable[name]
		if !ok {
			r.undecided("R1", name, pos, "packet type without an entry in the specification table")
			continue
		}
		okAll := true
		var descr []string
		for _, v := range cm.variants(t) {
			key := name
			if v.Name != "" {
				key += "[" + v.Name + "]"
			}
			want, okv := spec[v.Name]
			if !okv {
				want, okv = spec["*"]
			}
			if !okv {
				r.undecided("R1", key, pos, "variant without an entry in the specification table")
				okAll = false
				continue
			}
			// body size of the variant according to the spec table (rest = 3)
			n := int64(0)
			extra := map[string]aval{}
			for _, it := range want {
				w := it.Width
				if w < 0 {
					w = varLen
				}
				n += w
				if strings.HasPrefix(it.Field, "len(") {
					extra[fmt.Sprintf("buf[%d]", it.Off)] = kint(varLen)
				}
			}
			dec := cm.decode(t, v, n, extra)
			if dec.Err != "" {
				r.bad("R1", key, pos, fmt.Sprintf("a %d-byte body laid out as the specification says is not decoded along exactly one path: %s", n, dec.Err))
				okAll = false
				continue
			}
			mism := ""
			decBy := map[string]layItem{}
			hasFlag := false
			for _, d := range dec.Items {
				if d.Kind == "flag" {
					hasFlag = true
					continue
				}
				if strings.HasPrefix(d.Kind, "?") {
					mism = "field " + d.Field + " is not read from the datagram bytes (" + d.Kind + ")"
				}
				decBy[d.Field] = d
			}
			specFields := map[string]bool{}
			for _, it := range want {
				w := it.Width
				if w < 0 {
					w = n - it.Off
				}
				switch {
				case it.Field == "flags":
					if !hasFlag {
						mism = "flags octet is never decoded"
					} else if fo := cm.flagsOffset(t); fo != it.Off {
						mism = fmt.Sprintf("flags decoded from offset %d, specified at %d", fo, it.Off)
					}
				case strings.HasPrefix(it.Field, "len("):
					if !dec.Used[fmt.Sprintf("buf[%d]", it.Off)] {
						mism = fmt.Sprintf("length octet at offset %d is not used", it.Off)
					}
				default:
					specFields[it.Field] = true
					d, ok := decBy[it.Field]
					if !ok {
						if w == 0 {
							continue
						}
						mism = "field " + it.Field + " is never decoded"
					} else if d.Off != it.Off || d.Width != w {
						mism = fmt.Sprintf("field %s is read from offset %d width %d, specified at offset %d width %d", it.Field, d.Off, d.Width, it.Off, w)
					}
				}
			}
			for f, d := range decBy {
				if !specFields[f] && d.Width != 0 {
					mism = "field " + f + " is read from the datagram but is not part of this variant"
				}
			}
			if hasFlag {
				specHas := false
				for _, it := range want {
					if it.Field == "flags" {
						specHas = true
					}
				}
				if !specHas {
					mism = "flags are decoded although this variant has no flags octet"
				}
			}
			if mism != "" {
				r.bad("R1", key, pos, mism+"; decoder "+itemsStr(dec.Items))
				okAll = false
			} else {
				descr = append(descr, key+": "+itemsStr(dec.Items))
			}
		}
		if okAll {
			r.ok("R1", name, pos, strings.Join(descr, " | "))
		}
	}
	// flags bit positions against the specification (5.3.4)
	specFlags := map[string]flagSpec{"dup": {0x80, 0, true}, "QOS": {0x60, 5, false}, "Retain": {0x10, 0, true}, "Will": {0x08, 0, true},
		"CleanSession": {0x04, 0, true}, "TopicIDType": {0x03, 0, false}}
	for _, t := range cm.types {
		df, bad := cm.decodeFlagSpecs(t)
		if df == nil {
			continue
		}
		name := strings.TrimPrefix(t, "*packets1.")
		key := name + ":flag-bits"
		fdec, _, _ := cm.flagDecoder(t)
		pos := c.pos(fdec.Pos())
		if bad != "" {
			r.undecided("R1", key, pos, bad)
			continue
		}
		m := ""
		for f, s := range df {
			w, ok := specFlags[f]
			if !ok {
				m += "unknown flag field " + f + "; "
			} else if w != s {
				m += fmt.Sprintf("flag %s decoded with %s, specified %s; ", f, s, w)
			}
		}
		if m != "" {
			r.bad("R1", key, pos, m)
		} else {
			r.ok("R1", key, pos, fmt.Sprintf("%d flag fields at their specified bit positions", len(df)))
		}
	}
	cm.checkHeader(r, "R2")
	cm.checkReadPacketSlicing(r, "R2")
	cm.checkReadBuffer(r, "R3")
}

// senderBound: the largest datagram the MQTT-SN sender of package rel lets
// through (constant of the length guard dominating its connection write), -1
// when there is no guard.
func (c *Ctx) senderBounds(rel string) map[ssa.CallInstruction]int64 {
	out := map[ssa.CallInstruction]int64{}
	senders := c.snSenders(rel)
	for _, w := range c.connWriteSites(rel) {
		f := w.Parent()
		if !senders[f] {
			continue
		}
		args := w.Common().Args
		buf := args[len(args)-1]
		bound := int64(-1)
		for _, g := range guardsOf(w.Block()) {
			x, y, op, isCmp := cmpGuard(g)
			if !isCmp {
				continue
			}
			isLen := func(v ssa.Value) bool {
				lc, ok := v.(*ssa.Call)
				if !ok {
					return false
				}
				b, ok := lc.Call.Value.(*ssa.Builtin)
				return ok && b.Name() == "len" && (lc.Call.Args[0] == buf || sameExpr(lc.Call.Args[0], buf))
			}
			if k, ok := constInt(y); ok && isLen(x) {
				switch op {
				case token.LEQ, token.EQL:
					bound = k
				case token.LSS:
					bound = k - 1
				}
			}
			if k, ok := constInt(x); ok && isLen(y) {
				switch op {
				case token.GEQ, token.EQL:
					bound = k
				case token.GTR:
					bound = k - 1
				}
			}
		}
		out[w] = bound
	}
	return out
}

// checkReadBuffer: R3 of C22. A datagram longer than the buffer handed to the
// connection's Read is silently truncated by the transport, and the truncated
// bytes still decode (the body is "the rest of the buffer"). So the buffer must
// be at least as long as the longest datagram a bisquitt sender lets through,
// and at least MaxPayloadLength plus the longest fixed part (long header 4 +
// PUBLISH fixed fields 5).
// checkReadBufferFresh: every place in gateway / client / packets1 that reads a datagram and hands the bytes to the
// packets1 decoders uses a buffer allocated for that one read: decoded packets keep slices of the buffer (PUBLISH data,
// client ID, AUTH data), so a buffer reused for the next datagram silently rewrites packets still in use.
func (cm *codecModel) checkReadBufferFresh(r *Report, rule string) {
	c := cm.c
	n := 0
	for _, rel := range []string{"gateway", "client", "packets1"} {
		for _, f := range c.repoFuncs(rel) {
			decodes := false
			allInstrs(f, func(i ssa.Instruction) {
				if ci, ok := i.(ssa.CallInstruction); ok {
					if g := staticCallee(ci.Common()); g != nil && (fnPkgPath(g) == pkPackets1 || calleeName(ci.Common()) == "(*"+pkPackets+".Header).Unpack") {
						for _, a := range ci.Common().Args {
							if isByteSlice(a.Type()) {
								decodes = true
							}
						}
					}
				}
			})
			_ = decodes // (the read may sit in a helper of the decoding function: every Read of these packages is a datagram read)
			allInstrs(f, func(i ssa.Instruction) {
				ci, ok := i.(ssa.CallInstruction)
				if !ok || len(ci.Common().Args) == 0 {
					return
				}
				isRead := ci.Common().IsInvoke() && ci.Common().Method.Name() == "Read"
				if g := staticCallee(ci.Common()); g != nil && g.Name() == "Read" && g.Signature.Recv() != nil {
					isRead = true
				}
				if !isRead {
					return
				}
				buf := ci.Common().Args[len(ci.Common().Args)-1]
				if !isByteSlice(buf.Type()) {
					return
				}
				n++
				r.fn(f)
				key := fnKey(f) + ":read-buffer-fresh-per-datagram"
				v := buf
				for d := 0; d < 3; d++ {
					if sl, ok := v.(*ssa.Slice); ok {
						v = sl.X
						continue
					}
					break
				}
				// make([]byte, n): a MakeSlice, or (constant n) a fresh array that is sliced
				var allocAt ssa.Instruction
				if ms, ok := v.(*ssa.MakeSlice); ok {
					allocAt = ms
				} else if a, ok := v.(*ssa.Alloc); ok {
					allocAt = a
				}
				switch {
				case allocAt != nil && (!inCycle(i.Block()) || inCycle(allocAt.Block())):
					r.ok(rule, key, c.instrPos(i), "the buffer is allocated for this read")
				case allocAt != nil:
					r.bad(rule, key, c.instrPos(i), "the buffer is allocated once ("+c.instrPos(allocAt)+") and reused for every datagram read in the loop: the decoded packets keep slices of it (PUBLISH data, client ID, AUTH password), which the next datagram overwrites while they are still in use")
				default:
					r.bad(rule, key, c.instrPos(i), "the read buffer is not allocated per datagram ("+exprStr(buf)+"): decoded packets keep slices of it, which a later datagram overwrites")
				}
			})
		}
	}
	if n == 0 {
		r.undecided(rule, "read-buffer-fresh-per-datagram", "-", "no function that reads a datagram and decodes it found")
	}
}

func (cm *codecModel) checkReadBuffer(r *Report, rule string) {
	c := cm.c
	cm.checkReadBufferFresh(r, rule)
	f := c.SSA[pkPackets1].Func("ReadPacket")
	if f == nil {
		r.undecided(rule, "ReadPacket:buffer", "-", "ReadPacket not found")
		return
	}
	key := "ReadPacket:read-buffer"
	var readCall ssa.CallInstruction
	// in ReadPacket itself or in a helper of the package it hands its reader to
	var find func(g *ssa.Function, d int)
	seenF := map[*ssa.Function]bool{}
	find = func(g *ssa.Function, d int) {
		if seenF[g] || d > 2 || g.Blocks == nil {
			return
		}
		seenF[g] = true
		allInstrs(g, func(i ssa.Instruction) {
			ci, ok := i.(ssa.CallInstruction)
			if !ok {
				return
			}
			if ci.Common().IsInvoke() && ci.Common().Method.Name() == "Read" {
				readCall = ci
				return
			}
			if h := staticCallee(ci.Common()); h != nil && fnPkgPath(h) == pkPackets1 {
				for _, a := range ci.Common().Args {
					if typeIs(a.Type(), "io", "Reader") {
						find(h, d+1)
					}
				}
			}
		})
	}
	find(f, 0)
	if readCall == nil {
		r.undecided(rule, key, c.pos(f.Pos()), "no Read call on the connection found in ReadPacket")
		return
	}
	// length of the slice given to Read: make([]byte, K) or a slice of a [K]byte array
	L := int64(-1)
	v := readCall.Common().Args[0]
	for d := 0; d < 4 && L < 0; d++ {
		switch x := v.(type) {
		case *ssa.MakeSlice:
			if k, ok := constInt(x.Len); ok {
				L = k
			}
		case *ssa.Slice:
			if x.Low == nil && x.High == nil {
				if pt, ok := x.X.Type().Underlying().(*types.Pointer); ok {
					if at, ok := pt.Elem().Underlying().(*types.Array); ok {
						L = at.Len()
					}
				}
				v = x.X
				continue
			}
			if x.High != nil {
				if k, ok := constInt(x.High); ok {
					lo := int64(0)
					if x.Low != nil {
						lo, _ = constInt(x.Low)
					}
					L = k - lo
				}
			}
		}
		break
	}
	if L < 0 {
		r.undecided(rule, key, c.instrPos(readCall), "the length of the buffer handed to Read is not a constant the analysis can see: "+exprStr(readCall.Common().Args[0]))
		return
	}
	need := int64(0)
	why := ""
	for _, rel := range []string{"gateway", "client"} {
		for w, b := range c.senderBounds(rel) {
			if b < 0 {
				continue // unbounded sender: C23-R5's violation
			}
			if b > need {
				need, why = b, fmt.Sprintf("the %s sender lets datagrams of up to %d bytes through (%s)", rel, b, c.instrPos(w))
			}
		}
	}
	if obj := c.ByPath[pkPackets1].Types.Scope().Lookup("MaxPayloadLength"); obj != nil {
		if k, ok := obj.(*types.Const); ok {
			if n, exact := constant.Int64Val(constant.ToInt(k.Val())); exact && n+9 > need {
				need, why = n+9, fmt.Sprintf("MaxPayloadLength (%d) + long header (4) + PUBLISH fixed fields (5)", n)
			}
		}
	}
	if need == 0 {
		r.undecided(rule, key, c.instrPos(readCall), "neither a sender size guard nor MaxPayloadLength found to compare the read buffer with")
		return
	}
	r.cond(L >= need, rule, key, c.instrPos(readCall), fmt.Sprintf("read buffer of %d bytes >= %d: %s", L, need, why),
		fmt.Sprintf("the read buffer holds %d bytes but %s: a longer datagram is truncated by the transport and the truncated bytes decode without error into a packet that does not reflect the datagram", L, why))
}

// checkReadPacketSlicing: ReadPacket slices the buffer it gave to
// Header.Unpack at h.HeaderLength() of the same header.
func (cm *codecModel) checkReadPacketSlicing(r *Report, rule string) {
	c := cm.c
	f := c.SSA[pkPackets1].Func("ReadPacket")
	if f == nil {
		r.undecided(rule, "ReadPacket", "-", "ReadPacket not found")
		return
	}
	r.fn(f)
	var unpackCall *ssa.Call
	var bodySlice *ssa.Slice
	find := func(g *ssa.Function) {
		unpackCall, bodySlice = nil, nil
		allInstrs(g, func(i ssa.Instruction) {
			if call, ok := i.(*ssa.Call); ok && calleeName(&call.Call) == "(*"+pkPackets+".Header).Unpack" {
				unpackCall = call
			}
			if sl, ok := i.(*ssa.Slice); ok && sl.Low != nil && sl.High == nil {
				bodySlice = sl
			}
		})
	}
	find(f)
	if unpackCall == nil {
		// the decoding half in a helper of the package that is handed the bytes read
		for _, g := range staticCalleesOf(f) {
			if fnPkgPath(g) == pkPackets1 && g.Blocks != nil {
				find(g)
				if unpackCall != nil {
					r.fn(g)
					f = g
					break
				}
			}
		}
	}
	key := "ReadPacket:body-slice"
	if unpackCall == nil || bodySlice == nil {
		r.undecided(rule, key, c.pos(f.Pos()), "ReadPacket does not call Header.Unpack and slice the rest")
		return
	}
	low := stripConv(bodySlice.Low)
	call, ok := low.(*ssa.Call)
	okc := ok && calleeName(&call.Call) == "(*"+pkPackets+".Header).HeaderLength" && call.Call.Args[0] == unpackCall.Call.Args[0] &&
		bodySlice.X == unpackCall.Call.Args[1]
	if okc {
		// the sliced body is what is handed to pkt.Unpack
		used := false
		if refs := bodySlice.Referrers(); refs != nil {
			for _, rf := range *refs {
				if ci, ok := rf.(ssa.CallInstruction); ok && ci.Common().IsInvoke() && ci.Common().Method.Name() == "Unpack" {
					used = true
				}
			}
		}
		okc = used
	}
	r.cond(okc, rule, key, c.instrPos(bodySlice), "body = same buffer [h.HeaderLength():] of the header Header.Unpack filled, handed to the packet's Unpack",
		"the body handed to the packet decoder is not buffer[h.HeaderLength():] of the buffer/header pair that Header.Unpack parsed")
}
