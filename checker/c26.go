package main

import (
	"fmt"
	"strings"

	"golang.org/x/tools/go/ssa"
	"go/types"
)

// C26 Bisquitt client and gateway interoperate for any API usage.
//
// The statement quantifies over all sequences of API calls of two cooperating
// state machines plus a broker and asserts end-to-end effects; no rule on the
// shape of the code decides that. What the shape does decide is a set of
// AGREEMENT conditions between the two implementations, each a necessary
// condition of interoperation (break one and some API sequence fails):
//
//	R1  each side has a dispatcher case for every packet type the other side can
//	    hand to its sender (C23-R2, re-run here).
//	R2  both sides implement the same exchange tables: the gateway's one-to-one
//	    translation table and SUBACK mapping (C03-R1/R3), its QoS 1/2 step
//	    tables towards the client (C16-R3), the client's success-only-on-the-
//	    right-acknowledgement rules (C17-R1), its PUBREL/PUBLISH receive side
//	    (C17-R3/R6) - each side is checked against the protocol table, so they
//	    agree with each other at the level of (request type, reply type, state).
//	R3  the sleep cycle means the same on both sides: the gateway is Asleep again
//	    after answering the wake-up PINGREQ (C11-R2); the client library, after
//	    that PINGRESP, may go back to sleep WITHOUT sending anything (Sleep()
//	    from Awake): explored here - no packet leaves and the state becomes
//	    Asleep - and from Active it announces the duration with DISCONNECT.
//	R4  topic registration means the same on both sides: a REGISTER the gateway
//	    repeats is accepted again (C16-R7); and the pair "gateway allocates a
//	    fresh ID for every broker PUBLISH on an unregistered name, also while a
//	    REGISTER for that name is still pending" x "client refuses a second ID
//	    for a name it knows" is examined: together they drop every message of a
//	    burst but the first (known finding unless one side changes).
//	R5  dispatch follows the subscription table the same way on both sides:
//	    the client's matcher step rule and subscribe/unsubscribe key agreement
//	    (C27-R2/R4).
//
// Not decided: that every API call succeeds and every matching message is
// delivered for every sequence (history property).
func init() {
	register("C26", func(r *Report) {
		r.Explanation = "Agreement conditions between the client library and the gateway, each necessary for interoperation (the end-to-end statement itself - every API call succeeds and every matching message reaches its handler for every call sequence - is a history property and is NOT decided): (R1) each side handles every packet type the other side can send (C23-R2 re-run); (R2) both sides implement the same exchange tables, each checked against the protocol table: gateway translation table and SUBACK mapping (C03-R1/R3), gateway QoS 1/2 step tables (C16-R3), client success-only-on-the-right-acknowledgement (C17-R1) and its receive side (C17-R3/R6); (R3) the sleep cycle: while the client sleeps the gateway buffers every packet, unconditionally and in order (C11-R1), delivers all of them and is asleep again after the wake-up PINGRESP (C11-R2) and the client's Sleep() from the awake state sends nothing and becomes asleep, from the active state it sends DISCONNECT(duration) - explored per client state; (R4) topic registration: a repeated REGISTER is accepted again (C16-R7), neither side ever forgets or rebinds a topic ID during the session (C04-R6, C17-R9), every pending gateway REGISTER has a message ID of its own (C02-R5), and 'fresh topic ID per pending registration of one name' on the gateway against 'second ID for a known name refused' on the client is reported (a burst on a not-yet-registered topic under a wildcard loses every message but the first: known finding); (R5) the client's matcher and subscribe/unsubscribe key agreement (C27-R2/R4); (R6) the message IDs that label API calls stay inside 1..0xFFFF for every call count (C29-R1/R4: an identifier 0 is a protocol violation at the broker)."
		r.floor("R1", 20)
		r.floor("R2", 30)
		r.floor("R3", 4)
		r.floor("R4", 3)
		r.floor("R5", 5)
		r.floor("R6", 3)
	}, checkC26)
}

func checkC26(c *Ctx, r *Report) {
	importRulesF(c, r, "C23", map[string]string{"R2": "R1"}, nil)
	importRulesF(c, r, "C03", map[string]string{"R1": "R2", "R3": "R2"}, nil)
	importRulesF(c, r, "C16", map[string]string{"R3": "R2"}, nil)
	importRulesF(c, r, "C17", map[string]string{"R1": "R2", "R3": "R2", "R6": "R2"}, nil)
	importRulesF(c, r, "C11", map[string]string{"R1": "R3", "R2": "R3"}, nil)
	// R6: the identifiers API calls are labelled with: the client's message-ID sequence never yields 0 and wraps inside
	// its range (an MQTT packet identifier 0 makes a conforming broker close the connection) - C29's sequence rules
	importRulesF(c, r, "C29", map[string]string{"R1": "R6", "R4": "R6"}, nil)
	importRulesF(c, r, "C16", map[string]string{"R7": "R4"}, nil)
	// topic IDs mean the same on both sides for the whole session: the gateway never deletes or rebinds a registration
	// (C04-R6), the client never forgets one (C17-R9); and each pending gateway REGISTER of a burst has its own
	// message ID, probed free in the store (C02-R5)
	importRulesF(c, r, "C04", map[string]string{"R6": "R4"}, nil)
	importRulesF(c, r, "C17", map[string]string{"R9": "R4"}, nil)
	importRulesF(c, r, "C02", map[string]string{"R5": "R4"}, nil)
	importRulesF(c, r, "C27", map[string]string{"R2": "R5", "R4": "R5"}, nil)

	cm, err := c.newClientModel()
	if err != nil {
		r.undecided("R3", "client-model", "-", err.Error())
		return
	}
	// R3: the client's side of the sleep cycle. The function of package client that reads the client state
	// and either sends a DISCONNECT or goes to sleep directly (today sleepTransaction.Sleep).
	var sleepFn *ssa.Function
	for _, f := range c.repoFuncs("client") {
		if f.Parent() != nil || f.Signature.Recv() == nil {
			continue
		}
		getsState, buildsDisconnect := false, false
		allInstrs(f, func(i ssa.Instruction) {
			if ci, ok := i.(ssa.CallInstruction); ok {
				switch calleeName(ci.Common()) {
				case "(*" + pkUtil + ".ClientState).Get":
					getsState = true
				case pkPackets1 + ".NewDisconnect":
					if len(ci.Common().Args) == 1 {
						if _, isConst := constInt(ci.Common().Args[0]); !isConst {
							buildsDisconnect = true
						}
					}
				}
			}
		})
		if getsState && buildsDisconnect {
			sleepFn = f
		}
	}
	if sleepFn == nil {
		r.undecided("R3", "client-sleep-step", "-", "no method of package client that reads the state and builds DISCONNECT(duration) found")
	} else {
		r.fn(sleepFn)
		for st := int64(0); st <= 3; st++ {
			e := cm.clientExplorer()
			outs := e.Explore(sleepFn, map[string]aval{"state": kint(st)}, nil)
			key := "client-Sleep/" + stateNames[st]
			okc := len(outs) > 0
			detail := ""
			for _, o := range outs {
				var sent []string
				for _, ev := range eventsWithPrefix(o, "sn:") {
					sent = append(sent, ev)
				}
				final := o.Cells["state"]
				last := ""
				if len(o.Ret) > 0 {
					last = o.Ret[len(o.Ret)-1]
				}
				switch st {
				case stActive:
					// announces the duration (or fails because the send failed)
					if len(sent) != 1 || !strings.Contains(sent[0], "Disconnect") {
						okc, detail = false, "from the active state Sleep() must announce the sleep with exactly one DISCONNECT(duration): "+strings.Join(o.Events, " ; ")
					}
				case stAwake:
					// the gateway already considers the client asleep (it answered the wake-up PINGREQ): nothing is sent
					if len(sent) != 0 || !(final.known && final.i == stAsleep) {
						okc, detail = false, "from the awake state (after the wake-up PINGRESP the gateway considers the client asleep again) Sleep() must go back to sleep silently: sent "+strings.Join(sent, ",")+", final state "+final.String()
					}
				default:
					if last == "nil" || len(sent) != 0 {
						okc, detail = false, "Sleep() in state "+stateNames[st]+" must fail without sending anything: "+strings.Join(o.Events, " ; ")+" => "+last
					}
				}
			}
			if okc {
				r.ok("R3", key, c.pos(sleepFn.Pos()), firstOutcome(outs))
			} else if detail == "" {
				r.undecided("R3", key, c.pos(sleepFn.Pos()), "no outcome explored")
			} else {
				r.bad("R3", key, c.pos(sleepFn.Pos()), detail)
			}
		}
	}
	// R4: one name, two pending registrations
	// gateway: on the needs-register path, is the fresh ID allocated without consulting the pending registrations?
	gm, err := c.newGwModel()
	if err != nil {
		r.undecided("R4", "gateway-model", "-", err.Error())
		return
	}
	alloc := c.allocatorWrapper()
	gatewayDedups := false
	var allocSite ssa.Instruction
	if alloc != nil {
		for _, f := range c.repoFuncs("gateway") {
			allInstrs(f, func(i ssa.Instruction) {
				ci, ok := i.(ssa.CallInstruction)
				if !ok || staticCallee(ci.Common()) != alloc || !c.functionHasParam(f, pahoPkts, "PublishPacket") {
					return
				}
				allocSite = i
				// a lookup among pending transactions (Range/Get over the store comparing topic names) dominating the allocation would be a dedup
				for _, g := range guardsOf(i.Block()) {
					if call, ok := g.Cond.(*ssa.Call); ok && fnPkgPath(staticCalleeOrNil(call)) == pkGateway {
						n := strings.ToLower(call.Call.Value.Name())
						if strings.Contains(n, "pending") || strings.Contains(n, "registering") {
							gatewayDedups = true
						}
					}
				}
			})
		}
	}
	_ = gm
	// client: a REGISTER for a known name with another ID is refused?
	clientRefuses := false
	e := cm.clientExplorer()
	prev := e.ValueHook
	e.ValueHook = func(v ssa.Value, ex *explorer, st *pstate, fr *frame) (aval, bool) {
		if x, ok := v.(*ssa.Extract); ok {
			if lk, ok := x.Tuple.(*ssa.Lookup); ok && lk.CommaOk {
				if mt, ok := lk.X.Type().Underlying().(*types.Map); ok {
					if b, ok := mt.Elem().Underlying().(*types.Basic); ok && b.Kind() == types.Uint16 {
						if x.Index == 0 {
							return kint(9), true
						}
						return kint(1), true
					}
				}
			}
		}
		if prev != nil {
			return prev(v, ex, st, fr)
		}
		return aval{}, false
	}
	outs := e.Explore(cm.snDisp, map[string]aval{"type:sn": kstr("*packets1.Register"), "f:packets1.Register.TopicID": kint(7)}, nil)
	for _, o := range outs {
		for _, ev := range eventsWithPrefix(o, "sn:") {
			if strings.Contains(ev, "NewRegack(7,") && !strings.Contains(ev, "NewRegack(7,0)") {
				clientRefuses = true
			}
		}
	}
	key := "duplicate-registration[gateway:fresh-id-per-pending-registration x client:second-id-refused]"
	switch {
	case allocSite == nil:
		r.undecided("R4", key, "-", "the gateway's allocation of a topic ID for a broker PUBLISH on an unregistered name was not found")
	case len(outs) == 0:
		r.undecided("R4", key, "-", "the client's REGISTER case could not be explored")
	case !gatewayDedups && clientRefuses:
		r.bad("R4", key, c.instrPos(allocSite), "the gateway allocates a fresh topic ID for every broker PUBLISH whose name is not registered yet - also when a REGISTER for that very name is still awaiting its REGACK - and the client refuses a REGISTER that gives a second ID to a name it knows (REGACK 'invalid topic ID'): of a burst of broker messages on a new topic under a wildcard subscription only the first reaches the handler")
	default:
		r.ok("R4", key, c.instrPos(allocSite), fmt.Sprintf("gateway consults pending registrations: %v; client refuses a second ID: %v", gatewayDedups, clientRefuses))
	}
}

func staticCalleeOrNil(call *ssa.Call) *ssa.Function {
	if g := staticCallee(&call.Call); g != nil {
		return g
	}
	return &ssa.Function{}
}
