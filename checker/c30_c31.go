package main

import (
	"os"
	"go/types"
	"fmt"
	"go/token"
	"strings"

	"golang.org/x/tools/go/ssa"
)

func init() {
	register("C30", func(r *Report) {
		r.Explanation = "Sibling comparison of the three action closures (bisquitt, bisquitt-pub, bisquitt-sub), each explored for the four combinations of (--predefined-topics-file given, --predefined-topic given) with symbolic map values: (F1) the file flag's path is what ReadPredefinedTopicsFile reads; (F2) the option flag's values are what ParsePredefinedTopicOptions parses; (F3) the options map is merged INTO the file map (receiver/argument roles) after the file was read; (F4) the merged map is what reaches the PredefinedTopics field of the gateway/client configuration and the tools' own GetTopicID lookups; (F5) the flag names are the same in the three tools; (R6) Merge overwrites entry by entry (t[c][id] = src[c][id]) and adopts whole client maps only when the client is absent; (R7) the option list: every option that parses is handed to Add exactly once, in order, with the triple parsed from it (none is skipped on any condition), Add assigns t[client][id] = name unconditionally, and an option without a client ID is filed under the all-clients key; (R8) a topic ID parsed from option text is refused when it does not fit 16 bits (the parse's bit size is at most the width it is converted to), so an option never overrides an entry it does not name. All three vectors must satisfy the specification (not merely agree). Not decided: YAML decoding."
		r.floor("F", 12)
		r.floor("R6", 1)
		r.floor("R8", 1)
	}, checkC30)
	register("C31", func(r *Report) {
		r.Explanation = "Decides all flag/environment combinations (finite abstract domain, exhaustively propagated; environment aliases are part of the cli.Flag declarations, so Context.Bool/IsSet cover them): (R1) each tool's action closure is explored for every consistent valuation of (--dtls, --insecure value and presence, --auth resp. --user presence and emptiness); the gateway/client constructor is reachable with credentials in use only if dtls or insecure(value) holds; (R2) the configuration's UseDTLS / AuthEnabled / User fields carry exactly those flag values; (R3) in the client library the AUTH packet is built iff cfg.User is non-empty (the guard, and a constructor that returns a fresh packet on every path), and on every iteration of the connect loop each CONNECT send is immediately followed by the AUTH send exactly when that AUTH exists; (R4) no library code writes the User, Password or UseDTLS field of a client configuration (the user the guards saw is the user the library sees). Not decided: that DTLS actually encrypts."
		r.floor("R1", 20)
		r.floor("R2", 6)
		r.floor("R3", 3)
		r.floor("R4", 1)
	}, checkC31)
}

var cliTools = []string{"cmd/bisquitt", "cmd/bisquitt-pub", "cmd/bisquitt-sub"}

// actionClosure: the closure returned by the tool's handleAction-like
// function: a func(*cli.Context) error closure in the tool's package.
func (c *Ctx) actionClosure(rel string) *ssa.Function {
	var best *ssa.Function
	for _, f := range c.repoFuncs(rel) {
		if f.Parent() == nil || len(f.Params) != 1 {
			continue
		}
		if !typeIs(f.Params[0].Type(), "github.com/urfave/cli/v2", "Context") {
			continue
		}
		if best == nil || countInstrs(f) > countInstrs(best) {
			best = f
		}
	}
	return best
}

type cliEnv struct {
	Bool   map[string]int64
	IsSet  map[string]int64
	String map[string]string // "" or a non-empty marker
}

func (c *Ctx) cliExplorer(env cliEnv) *explorer {
	e := &explorer{c: c, MaxDepth: 3, MaxPaths: 200000}
	// helpers of the tool's own package (the action split into functions) are part of the action
	e.Inline = func(g *ssa.Function) bool {
		return strings.HasPrefix(fnPkgPath(g), modPath+"/cmd/") && g.Blocks != nil
	}
	ctxCall := func(v ssa.Value) (method, flag string, ok bool) {
		call, isCall := v.(*ssa.Call)
		if !isCall {
			return "", "", false
		}
		g := staticCallee(&call.Call)
		if g == nil || g.Signature.Recv() == nil || !typeIs(g.Signature.Recv().Type(), "github.com/urfave/cli/v2", "Context") || len(call.Call.Args) < 2 {
			return "", "", false
		}
		s, isStr := constString(call.Call.Args[1])
		if !isStr {
			return "", "", false
		}
		return g.Name(), s, true
	}
	e.ValueHook = func(v ssa.Value, ex *explorer, st *pstate, fr *frame) (aval, bool) {
		if m, flag, ok := ctxCall(v); ok {
			switch m {
			case "Bool":
				if b, have := env.Bool[flag]; have {
					return kint(b), true
				}
				return aval{}, false
			case "IsSet":
				if b, have := env.IsSet[flag]; have {
					return kint(b), true
				}
				return aval{}, false
			case "String":
				if s, have := env.String[flag]; have {
					return kstr("\"" + s + "\""), true
				}
				return kstr("str:" + flag), true
			case "Path":
				return kstr("path:" + flag), true
			case "StringSlice":
				return kstr("opts:" + flag), true
			}
		}
		if _, ok := v.(*ssa.MakeMap); ok {
			return kstr("EMPTY"), true
		}
		return aval{}, false
	}
	e.CallValue = func(call *ssa.Call, ex *explorer, st *pstate, fr *frame) ([]aval, bool) {
		switch calleeName(&call.Call) {
		case pkTopics + ".ReadPredefinedTopicsFile":
			return []aval{kstr("FILE(" + ex.eval(call.Call.Args[0], st, fr).String() + ")"), unk()}, true
		case pkTopics + ".ParsePredefinedTopicOptions":
			return []aval{kstr("OPTS(" + ex.eval(call.Call.Args[0], st, fr).String() + ")"), unk()}, true
		}
		return nil, false
	}
	e.Event = func(i ssa.Instruction, ex *explorer, st *pstate, fr *frame) (string, bool, bool) {
		ci, ok := i.(ssa.CallInstruction)
		if !ok {
			return "", false, false
		}
		cc := ci.Common()
		switch calleeName(cc) {
		case pkGateway + ".NewGateway", pkClient + ".NewClient":
			return "START", true, true
		case "(" + pkTopics + ".PredefinedTopics).Merge":
			return "merge(" + ex.eval(cc.Args[0], st, fr).String() + " <- " + ex.eval(cc.Args[1], st, fr).String() + ")", true, true
		case "(" + pkTopics + ".PredefinedTopics).GetTopicID":
			return "GetTopicID(on " + ex.eval(cc.Args[0], st, fr).String() + ", client " + ex.eval(cc.Args[1], st, fr).String() + ")", true, true
		case "(" + pkTopics + ".PredefinedTopics).Add":
			return "Add(on " + ex.eval(cc.Args[0], st, fr).String() + ")", true, true
		}
		return "", false, false
	}
	e.CellOf = func(v ssa.Value, fr *frame) (string, bool) { return "", false }
	e.CellStore = func(i ssa.Instruction, fr *frame) (string, ssa.Value, bool) {
		if s, ok := i.(*ssa.Store); ok {
			if fa, ok := s.Addr.(*ssa.FieldAddr); ok {
				t := typeStr(derefType(fa.X.Type()))
				if t == "gateway.GatewayConfig" || t == "client.ClientConfig" {
					return fieldCell(fa), s.Val, true
				}
			}
		}
		return "", nil, false
	}
	return e
}

func checkC30(c *Ctx, r *Report) {
	c.checkParsedIDWidth(r, "R8")
	const fileFlag, optFlag = "predefined-topics-file", "predefined-topic"
	for _, tool := range cliTools {
		f := c.actionClosure(tool)
		if f == nil {
			r.undecided("F", tool+":action", "-", "action closure not found")
			continue
		}
		r.fn(f)
		cfgCell := "f:client.ClientConfig.PredefinedTopics"
		if tool == "cmd/bisquitt" {
			cfgCell = "f:gateway.GatewayConfig.PredefinedTopics"
		}
		for _, fileSet := range []int64{0, 1} {
			for _, optSet := range []int64{0, 1} {
				env := cliEnv{Bool: map[string]int64{"dtls": 1, "insecure": 1}, IsSet: map[string]int64{fileFlag: fileSet, optFlag: optSet, "user": 0, "client-id": 1},
					String: map[string]string{}}
				e := c.cliExplorer(env)
				outs := e.Explore(f, nil, nil)
				key := fmt.Sprintf("%s[file=%d,options=%d]", strings.TrimPrefix(tool, "cmd/"), fileSet, optSet)
				fileV := "FILE(path:" + fileFlag + ")"
				optV := "OPTS(opts:" + optFlag + ")"
				wantCfg, wantMerge := "EMPTY", ""
				if fileSet == 1 {
					wantCfg = fileV
				}
				if optSet == 1 {
					wantMerge = "merge(" + wantCfg + " <- " + optV + ")"
				}
				okc := false
				detail := ""
				started := 0
				for _, o := range outs {
					if !hasEventPrefix(o, "START") {
						continue
					}
					started++
					okc = true
					cfg, have := o.Cells[cfgCell]
					merges := eventsWithPrefix(o, "merge(")
					switch {
					case !have || cfg.String() != wantCfg:
						okc, detail = false, fmt.Sprintf("the configuration's PredefinedTopics is %s, specified %s (file mapping overridden entry by entry by the options)", cfg, wantCfg)
					case wantMerge == "" && len(merges) > 0:
						okc, detail = false, "unexpected merge "+strings.Join(merges, " ; ")
					case wantMerge != "" && (len(merges) != 1 || merges[0] != wantMerge):
						okc, detail = false, fmt.Sprintf("expected exactly %s, found %v", wantMerge, merges)
					}
					for _, ev := range eventsWithPrefix(o, "GetTopicID(") {
						if !strings.HasPrefix(ev, "GetTopicID(on "+wantCfg+",") {
							okc, detail = false, "the tool's own topic lookup uses another mapping than the configured one: "+ev
						}
					}
					if !okc {
						break
					}
				}
				if started == 0 {
					r.undecided("F", key, c.pos(f.Pos()), fmt.Sprintf("no path reaches the gateway/client constructor (%d paths explored, truncated=%v)", len(outs), e.Truncated))
				} else if okc {
					r.ok("F", key, c.pos(f.Pos()), fmt.Sprintf("config = %s %s (%d starting paths)", wantCfg, wantMerge, started))
				} else {
					r.bad("F", key, c.pos(f.Pos()), detail)
				}
			}
		}
		// F5: the flags exist under the agreed names (queried by this tool)
		names := map[string]bool{}
		seenH := map[*ssa.Function]bool{}
		var scanNames func(h *ssa.Function, d int)
		scanNames = func(h *ssa.Function, d int) {
			if seenH[h] || d > 3 || h.Blocks == nil {
				return
			}
			seenH[h] = true
			allInstrs(h, func(i ssa.Instruction) {
				if call, ok := i.(*ssa.Call); ok {
					g := staticCallee(&call.Call)
					if g != nil && g.Signature.Recv() != nil && typeIs(g.Signature.Recv().Type(), "github.com/urfave/cli/v2", "Context") && len(call.Call.Args) > 1 {
						if s, ok := constString(call.Call.Args[1]); ok {
							names[s] = true
						}
					} else if g != nil && strings.HasPrefix(fnPkgPath(g), modPath+"/cmd/") {
						scanNames(g, d+1) // helper of the tool's own package
					}
				}
			})
		}
		scanNames(f, 0)
		r.cond(names[fileFlag] && names[optFlag], "F", strings.TrimPrefix(tool, "cmd/")+":flag-names", c.pos(f.Pos()), "queries --"+fileFlag+" and --"+optFlag, "the tool does not query the flags --"+fileFlag+" / --"+optFlag)
	}
	// R7: the option list means "Add every option, in order"
	c.checkOptionListSemantics(r, "R7")
	// R6: Merge semantics
	merge := c.topicsMethod("Merge")
	if merge == nil {
		r.undecided("R6", "Merge", "-", "PredefinedTopics.Merge not found")
		return
	}
	r.fn(merge)
	entryWise, adopt := false, false
	t, src := merge.Params[0], merge.Params[1]
	allInstrs(merge, func(i ssa.Instruction) {
		mu, ok := i.(*ssa.MapUpdate)
		if !ok {
			return
		}
		// t[c] = src[c]  (adopt)   |   t[c][id] = src[c][id] (entry wise)
		if mu.Map == ssa.Value(t) {
			if l, ok := mu.Value.(*ssa.Lookup); ok && l.X == ssa.Value(src) && sameExpr(l.Index, mu.Key) || mu.Key == lookupKey(mu.Value) {
				// must be under !ok of t[c]
				for _, g := range guardsOf(i.Block()) {
					if ex, ok := g.Cond.(*ssa.Extract); ok && !g.Truth && ex.Index == 1 {
						if l2, ok := ex.Tuple.(*ssa.Lookup); ok && l2.X == ssa.Value(t) {
							adopt = true
						}
					}
				}
			}
			return
		}
		if lt, ok := mu.Map.(*ssa.Lookup); ok && lt.X == ssa.Value(t) {
			if lv, ok := mu.Value.(*ssa.Lookup); ok {
				if ls, ok := lv.X.(*ssa.Lookup); ok && ls.X == ssa.Value(src) && lv.Index == mu.Key && ls.Index == lt.Index {
					entryWise = true
				}
			}
		}
	})
	r.cond(entryWise && adopt, "R6", "Merge:entry-by-entry", c.pos(merge.Pos()), "t[c][id] = src[c][id] for existing clients; whole map adopted only when the client is absent", "Merge is not 'src overrides t entry by entry'")
}

func lookupKey(v ssa.Value) ssa.Value {
	if l, ok := v.(*ssa.Lookup); ok {
		return l.Index
	}
	return nil
}

func checkC31(c *Ctx, r *Report) {
	for _, tool := range cliTools {
		f := c.actionClosure(tool)
		if f == nil {
			r.undecided("R1", tool+":action", "-", "action closure not found")
			continue
		}
		r.fn(f)
		isGw := tool == "cmd/bisquitt"
		short := strings.TrimPrefix(tool, "cmd/")
		for _, dtls := range []int64{0, 1} {
			for _, insec := range []int64{0, 1, 2} { // 0: absent, 1: given as false, 2: given true
				for _, cred := range []int64{0, 1, 2} { // gw: 0 no --auth, 1 --auth ; clients: 0 no --user, 1 --user "", 2 --user x
					if isGw && cred == 2 {
						continue
					}
					env := cliEnv{Bool: map[string]int64{"dtls": dtls, "insecure": 0, "self-signed": 1, "debug": 0, "syslog": 0}, IsSet: map[string]int64{"dtls": dtls, "insecure": 0, "client-id": 1,
						"predefined-topics-file": 0, "predefined-topic": 0, "port": 1}, String: map[string]string{}}
					if insec >= 1 {
						env.IsSet["insecure"] = 1
					}
					if insec == 2 {
						env.Bool["insecure"] = 1
					}
					credInUse := false
					if isGw {
						env.Bool["auth"] = cred
						env.IsSet["auth"] = cred
						credInUse = cred == 1
					} else {
						env.IsSet["user"] = 0
						if cred >= 1 {
							env.IsSet["user"] = 1
							env.String["user"] = ""
						}
						if cred == 2 {
							env.String["user"] = "alice"
							credInUse = true
						}
					}
					e := c.cliExplorer(env)
					outs := e.Explore(f, nil, nil)
					key := fmt.Sprintf("%s[dtls=%d,insecure=%s,cred=%d]", short, dtls, []string{"absent", "false", "true"}[insec], cred)
					allowed := !credInUse || dtls == 1 || insec == 2
					started := false
					for _, o := range outs {
						if hasEventPrefix(o, "START") {
							started = true
						}
					}
					switch {
					case started && !allowed:
						r.bad("R1", key, c.pos(f.Pos()), "the tool starts although credentials would be sent in plaintext (no --dtls and --insecure not true)")
					case !started && allowed && !(cred == 1 && !isGw):
						r.bad("R1", key, c.pos(f.Pos()), fmt.Sprintf("the tool refuses to start although nothing is sent in plaintext without consent (%d paths)", len(outs)))
					default:
						r.ok("R1", key, c.pos(f.Pos()), fmt.Sprintf("started=%v, allowed=%v", started, allowed))
					}
					// R2: config fields
					if started && dtls == 1 && insec == 0 {
						for _, o := range outs {
							if !hasEventPrefix(o, "START") {
								continue
							}
							k2 := fmt.Sprintf("%s[cred=%d]:config-fields", short, cred)
							okc := true
							d := ""
							if isGw {
								u, a := o.Cells["f:gateway.GatewayConfig.UseDTLS"], o.Cells["f:gateway.GatewayConfig.AuthEnabled"]
								if !u.known || u.i != dtls || !a.known || a.i != cred {
									okc, d = false, fmt.Sprintf("GatewayConfig.UseDTLS=%s AuthEnabled=%s for --dtls=%d --auth=%d", u, a, dtls, cred)
								}
							} else {
								u, us := o.Cells["f:client.ClientConfig.UseDTLS"], o.Cells["f:client.ClientConfig.User"]
								wantUser := "\"\""
								if cred == 2 {
									wantUser = "\"alice\""
								}
								if cred == 0 {
									if us.String() != "\"\"" && us.String() != "nil" && us.known && us.String() != "0" {
										okc, d = false, "a user is configured although --user was not given: "+us.String()
									}
								} else if us.String() != wantUser {
									okc, d = false, fmt.Sprintf("ClientConfig.User=%s for --user %s", us, wantUser)
								}
								if !u.known || u.i != dtls {
									okc, d = false, fmt.Sprintf("ClientConfig.UseDTLS=%s for --dtls=%d", u, dtls)
								}
							}
							r.cond(okc, "R2", k2, c.pos(f.Pos()), "configuration carries the flag values", d)
							break
						}
					}
				}
			}
		}
	}
	// R3: client library
	c.checkAuthAfterConnect(r)
	// R4: the credentials the guards and the application configured are the ones the library uses: nothing in the
	// library packages writes the credential / transport fields of a client configuration
	nW := 0
	for _, f := range c.allRepoFuncs() {
		if strings.Contains(fnPkgPath(f), "/cmd/") {
			continue
		}
		allInstrs(f, func(i ssa.Instruction) {
			st, ok := i.(*ssa.Store)
			if !ok {
				return
			}
			fa, ok := st.Addr.(*ssa.FieldAddr)
			if !ok || !typeIs(derefType(fa.X.Type()), pkClient, "ClientConfig") {
				return
			}
			fn := fieldName(fa.X.Type(), fa.Field)
			if fn != "User" && fn != "Password" && fn != "UseDTLS" {
				return
			}
			if isFreshObject(fa.X) {
				return
			}
			nW++
			r.fn(f)
			r.bad("R4", fnKey(f)+":writes-ClientConfig."+fn, c.instrPos(i), "the client library overwrites the configured "+fn+": whether AUTH is sent (and over what transport) is then no longer what the application - and the CLI tools' plaintext guard, which looks at the flags - configured; a client configured without a user may send AUTH")
		})
	}
	if nW == 0 {
		r.ok("R4", "client-config-credentials-read-only", "-", "no store to ClientConfig.User / Password / UseDTLS outside the command-line tools' construction of the configuration")
	}
}

func (c *Ctx) checkAuthAfterConnect(r *Report) {
	m, err := c.newClientModel()
	if err != nil {
		r.undecided("R3", "client-model", "-", err.Error())
		return
	}
	// the connect routine: function that creates a packets1.Connect
	var connect *ssa.Function
	for _, f := range c.repoFuncs("client") {
		allInstrs(f, func(i ssa.Instruction) {
			if call, ok := i.(*ssa.Call); ok && calleeName(&call.Call) == pkPackets1+".NewConnect" {
				connect = f
			}
		})
	}
	if connect == nil {
		r.undecided("R3", "connect-routine", "-", "no function building a CONNECT found")
		return
	}
	r.fn(connect)
	// who builds / sends AUTH and CONNECT
	for _, f := range c.repoFuncs("client") {
		allInstrs(f, func(i ssa.Instruction) {
			if call, ok := i.(*ssa.Call); ok {
				n := calleeName(&call.Call)
				if (n == pkPackets1+".NewAuthPlain" || n == pkPackets1+".NewConnect") && f != connect {
					r.bad("R3", fnKey(f)+":builds-connect-or-auth", c.instrPos(i), "CONNECT/AUTH built outside the connect routine")
				}
				if n == pkPackets1+".NewAuthPlain" && f == connect {
					// guarded by cfg.User != ""
					okc := false
					for _, g := range guardsOf(i.Block()) {
						x, y, op, isCmp := cmpGuard(g)
						if isCmp && op == token.NEQ {
							if s, ok := constString(y); ok && s == "" {
								os := c.origins(x)
								if len(os) == 1 && len(os[0].Path) >= 1 && os[0].Path[len(os[0].Path)-1] == "User" {
									okc = true
								}
							}
						}
					}
					r.cond(okc, "R3", fnKey(f)+":auth-iff-user", c.instrPos(i), "the AUTH packet is built only when cfg.User is non-empty", "an AUTH packet is built without the guard cfg.User != \"\"")
					// "iff": with a user configured the AUTH always exists - its constructor returns a fresh packet on
					// every path (the connect routine reads a nil AUTH as 'no credentials configured')
					if g := staticCallee(&call.Call); g != nil && g.Blocks != nil {
						r.fn(g)
						nilRet := ""
						for _, b := range g.Blocks {
							ret, ok := b.Instrs[len(b.Instrs)-1].(*ssa.Return)
							if !ok || len(ret.Results) != 1 {
								continue
							}
							for _, o := range c.deepOrigins(ret.Results[0], 2) {
								if o.Kind != "alloc" {
									nilRet = c.instrPos(ret) + " (" + o.String() + ")"
								}
							}
						}
						r.cond(nilRet == "", "R3", fnKey(g)+":always-returns-a-packet", c.pos(g.Pos()), "every return of the AUTH constructor is a freshly allocated packet", "the AUTH constructor can return something else than a fresh packet ("+nilRet+"): for those credentials the connect routine takes the client for one without a user and sends CONNECT, and every retransmission of it, without AUTH")
					}
				}
			}
		})
	}
	// per-iteration order: explore with user empty / non-empty
	for _, user := range []string{"", "alice"} {
		e := m.clientExplorer()
		base := e.CellOf
		e.CellOf = func(v ssa.Value, fr *frame) (string, bool) { return base(v, fr) }
		e.MaxPaths = 100000
		cells := map[string]aval{"f:client.ClientConfig.User": kstr("\"" + user + "\""), "f:client.ClientConfig.RetryCount": kint(1)}
		outs := e.Explore(connect, cells, nil)
		for _, o := range outs {
			dbg("connect[user=%q]: %s => %s", user, strings.Join(eventsWithPrefix(o, "sn:"), " ; "), retStr(o))
		}
		key := fmt.Sprintf("connect-loop[user=%q]", user)
		okc := len(outs) > 0
		detail := ""
		nConn := 0
		for _, o := range outs {
			sn := eventsWithPrefix(o, "sn:")
			for k, ev := range sn {
				isConn := strings.Contains(ev, "packets1.Connect")
				isAuth := strings.Contains(ev, "packets1.Auth")
				if isConn {
					nConn++
					nextIsAuth := k+1 < len(sn) && strings.Contains(sn[k+1], "packets1.Auth")
					last := k == len(sn)-1
					sendFailed := last && len(o.Ret) > 0 && o.Ret[len(o.Ret)-1] == "nonnil"
					if user != "" && !nextIsAuth && !sendFailed {
						okc, detail = false, "a CONNECT is sent without the AUTH right after it: "+strings.Join(sn, " ; ")
					}
					if user == "" && nextIsAuth {
						okc, detail = false, "AUTH sent although no user is configured"
					}
				}
				if isAuth && (k == 0 || !strings.Contains(sn[k-1], "packets1.Connect")) {
					okc, detail = false, "an AUTH is sent that does not follow a CONNECT: "+strings.Join(sn, " ; ")
				}
				if isAuth && user == "" {
					okc, detail = false, "AUTH sent although no user is configured"
				}
			}
		}
		if nConn == 0 {
			okc, detail = false, "no CONNECT send found"
		}
		if okc {
			r.ok("R3", key, c.pos(connect.Pos()), fmt.Sprintf("%d paths (two loop iterations each): every CONNECT is followed by AUTH iff a user is configured", len(outs)))
		} else {
			r.bad("R3", key, c.pos(connect.Pos()), detail)
		}
	}
}

// checkOptionListSemantics: R7 of C30. "Later options override earlier ones,
// entry by entry, and entries without a client ID apply to every client" is
// what ParsePredefinedTopicOptions + Add compute when (a) every option that
// parses is handed to Add exactly once before the next option is looked at -
// no option is skipped on any condition - with the client ID, name and ID that
// were parsed from that very option, (b) Add assigns t[client][id] = name
// unconditionally (creating the client's map when absent), (c) a two-field
// option gets the client ID "*".
func (c *Ctx) checkOptionListSemantics(r *Report, rule string) {
	parse := c.SSA[pkTopics].Func("ParsePredefinedTopicOptions")
	add := c.topicsMethod("Add")
	if parse == nil || add == nil {
		r.undecided(rule, "ParsePredefinedTopicOptions", "-", "ParsePredefinedTopicOptions / Add not found")
		return
	}
	r.fn(parse)
	r.fn(add)
	// (a) loop shape
	var addCalls []ssa.CallInstruction
	var loopHead *ssa.BasicBlock
	allInstrs(parse, func(i ssa.Instruction) {
		if ci, ok := i.(ssa.CallInstruction); ok && staticCallee(ci.Common()) == add {
			addCalls = append(addCalls, ci)
		}
	})
	key := "ParsePredefinedTopicOptions:every-option-added"
	if len(addCalls) != 1 || !inCycle(addCalls[0].Block()) {
		r.bad(rule, key, c.pos(parse.Pos()), fmt.Sprintf("expected exactly one Add call inside the loop over the options, found %d", len(addCalls)))
	} else {
		ac := addCalls[0]
		// the loop head: the block of the cycle that dominates the Add call's block and has a back edge
		for b := ac.Block(); b != nil; b = b.Idom() {
			for _, p := range b.Preds {
				if b.Dominates(p) && inCycle(b) {
					loopHead = b
				}
			}
			if loopHead != nil {
				break
			}
		}
		if loopHead == nil {
			r.undecided(rule, key, c.instrPos(ac), "cannot identify the loop over the options")
		} else {
			// from the first instruction of every loop-body successor of the head, no path returns to the head avoiding Add
			skip := false
			for _, s := range loopHead.Succs {
				if !inCycle(s) || !loopHead.Dominates(s) || len(s.Instrs) == 0 {
					continue
				}
				if s.Instrs[0] == ssa.Instruction(ac) {
					continue
				}
				if found, _ := pathExists(parse, s.Instrs[0], func(j ssa.Instruction) bool { return j.Block() == loopHead && j == loopHead.Instrs[0] },
					func(j ssa.Instruction) bool { return j == ssa.Instruction(ac) }); found {
					skip = true
				}
			}
			// arguments: results of one call (the per-option parser) in the same iteration
			argsOK := true
			var src ssa.Value
			for _, a := range ac.Common().Args[1:] {
				v := stripConv(a)
				ex, ok := v.(*ssa.Extract)
				if !ok {
					argsOK = false
					continue
				}
				if src == nil {
					src = ex.Tuple
				} else if src != ex.Tuple {
					argsOK = false
				}
			}
			switch {
			case skip:
				r.bad(rule, key, c.instrPos(ac), "an iteration over the options can go on to the next option without calling Add: an option is silently dropped on some condition, so it no longer overrides the file's entry (or an earlier option) for its client and topic ID")
			case !argsOK:
				r.bad(rule, key, c.instrPos(ac), "the arguments of Add are not the (client ID, name, ID) parsed from the current option by one parser call")
			default:
				r.ok(rule, key, c.instrPos(ac), "every option that parses is added, with the triple parsed from it, before the next one is read")
			}
		}
	}
	// (b) Add: unconditional assignment
	var inner *ssa.MapUpdate
	allInstrs(add, func(i ssa.Instruction) {
		if mu, ok := i.(*ssa.MapUpdate); ok {
			if l, ok := mu.Map.(*ssa.Lookup); ok && l.X == ssa.Value(add.Params[0]) && l.Index == ssa.Value(add.Params[1]) {
				inner = mu
			}
		}
	})
	kb := "Add:unconditional-assignment"
	if inner == nil {
		r.bad(rule, kb, c.pos(add.Pos()), "Add does not assign t[clientID][topicID]")
	} else {
		okv := len(add.Params) == 4 && inner.Key == ssa.Value(add.Params[3]) && inner.Value == ssa.Value(add.Params[2])
		skip, _ := pathExists(add, nil, func(j ssa.Instruction) bool { _, ok := j.(*ssa.Return); return ok }, func(j ssa.Instruction) bool { return j == ssa.Instruction(inner) })
		r.cond(okv && !skip, rule, kb, c.instrPos(inner), "t[clientID][topicID] = topicName on every path", "Add does not assign t[clientID][topicID] = topicName on every path: a later option (or the options over the file) does not override the earlier entry")
	}
	// (c) two fields => "*"
	star := false
	parsers := append(closuresIn(parse), parse)
	for _, g := range staticCalleesOf(parse) {
		if fnPkgPath(g) == pkTopics && g.Blocks != nil {
			parsers = append(parsers, g) // the per-option parser as a package-level function
		}
	}
	for _, f := range parsers {
		allInstrs(f, func(i ssa.Instruction) {
			for _, op := range i.Operands(nil) {
				if op != nil && *op != nil {
					if s, ok := constString(*op); ok && s == "*" {
						star = true
					}
				}
			}
		})
	}
	r.cond(star, rule, "ParsePredefinedTopicOptions:no-client-id-means-all", c.pos(parse.Pos()), "an option without a client ID is filed under \"*\"", "an option without a client ID is not filed under \"*\"")
}

// checkParsedIDWidth (C30-R8): "the mapping is the file's, overridden entry by entry by the options": an option names
// the entry it overrides by a topic ID. The number parsed from the option text must be refused when it does not fit
// the 16-bit ID - a parse with a wider bit size followed by a narrowing conversion silently files the entry under
// another ID (65537 -> 1) and overrides an entry no option names. Every conversion to a narrower integer type in
// package topics whose operand comes from strconv.ParseUint/ParseInt needs a constant bitSize <= the target width.
func (c *Ctx) checkParsedIDWidth(r *Report, rule string) {
	n := 0
	for _, f := range c.repoFuncs("topics") {
		allInstrs(f, func(i ssa.Instruction) {
			cv, ok := i.(*ssa.Convert)
			if !ok {
				return
			}
			tb, ok1 := cv.Type().Underlying().(*types.Basic)
			sb, ok2 := cv.X.Type().Underlying().(*types.Basic)
			if !ok1 || !ok2 || tb.Info()&types.IsInteger == 0 || sb.Info()&types.IsInteger == 0 {
				return
			}
			width := func(b *types.Basic) int64 {
				switch b.Kind() {
				case types.Uint8, types.Int8:
					return 8
				case types.Uint16, types.Int16:
					return 16
				case types.Uint32, types.Int32:
					return 32
				}
				return 64
			}
			if width(tb) >= width(sb) {
				return
			}
			os_ := c.deepOrigins(cv.X, 3)
			parsed := false
			bad := ""
			for _, o := range os_ {
				if o.Kind != "call" || !(o.Callee == "strconv.ParseUint" || o.Callee == "strconv.ParseInt") {
					continue
				}
				parsed = true
				if len(o.Args) != 3 {
					bad = "bit size not found"
					continue
				}
				k, isC := constInt(o.Args[2])
				if !isC || k == 0 || k > width(tb) {
					bad = fmt.Sprintf("%s(..., bitSize %s) converted to a %d-bit integer", o.Callee, exprStr(o.Args[2]), width(tb))
				}
			}
			if os.Getenv("BISQ_DEBUG") != "" {
				for _, o := range os_ {
					fmt.Println("C30-R8 origin", c.instrPos(i), o.String(), o.Kind, o.Callee)
				}
			}
			if !parsed {
				return
			}
			n++
			r.fn(f)
			key := fmt.Sprintf("%s:parsed-number-fits-%s", fnKey(f), tb.Name())
			r.cond(bad == "", rule, key, c.instrPos(i), "the parse refuses every value the conversion would truncate", "a number parsed from configuration text is narrowed without a range check ("+bad+"): a topic ID above 65535 in a --predefined-topic option is not refused but wraps around and overrides the entry of ANOTHER topic ID, one the option list does not name")
		})
	}
	if n == 0 {
		r.undecided(rule, "topics:parsed-number-conversions", "-", "no narrowing conversion of a parsed number found in package topics")
	}
}
