package main

import (
	"fmt"
	"go/token"

	"golang.org/x/tools/go/ssa"
)

// checkGroupContexts (C28-R8, C13-R7): a goroutine of an errgroup must end
// when the GROUP's context is cancelled - that is what errgroup does when one
// member returns an error. A member that only observes the parent context (or
// an unrelated one) keeps running after the group failed, and everything that
// joins the group (Wait, and every API call that falls back to Wait) blocks
// for ever. For every function that calls errgroup.WithContext and every
// closure it hands to that group's Go: each context captured by the closure
// must derive from the group context, unless its cancel function is called by
// a member of the same group that itself waits for the group context (the
// gateway's connection context, cancelled by the shutdown goroutine after the
// DISCONNECT was sent).
func (c *Ctx) checkGroupContexts(r *Report, rule, rel string) {
	n := 0
	for _, f := range c.repoFuncs(rel) {
		var wc *ssa.Call
		allInstrs(f, func(i ssa.Instruction) {
			if call, ok := i.(*ssa.Call); ok && calleeName(&call.Call) == "golang.org/x/sync/errgroup.WithContext" {
				wc = call
			}
		})
		if wc == nil {
			continue
		}
		var gctx ssa.Value
		if refs := wc.Referrers(); refs != nil {
			for _, rf := range *refs {
				if ex, ok := rf.(*ssa.Extract); ok && ex.Index == 1 {
					gctx = ex
				}
			}
		}
		if gctx == nil {
			r.undecided(rule, fnKey(f)+":group-context", c.instrPos(wc), "the context returned by errgroup.WithContext is discarded")
			continue
		}
		// values that denote the group context: the extract, the local variable cell it is stored in
		isGctx := func(v ssa.Value) bool { return c.derivesFromCtx(v, gctx, 0) }
		// members
		var members []*ssa.Function
		allInstrs(f, func(i ssa.Instruction) {
			// the closure literal itself (its captured variables are what the rule is about), not what it forwards to
			if ci, ok := i.(ssa.CallInstruction); ok && calleeName(ci.Common()) == "(*golang.org/x/sync/errgroup.Group).Go" && len(ci.Common().Args) > 1 {
				if mc, ok := ci.Common().Args[1].(*ssa.MakeClosure); ok {
					if cl, ok := mc.Fn.(*ssa.Function); ok {
						members = append(members, cl)
					}
				}
			}
		})
		// contexts cancelled by a member that waits for the group context
		cancelledByMember := map[ssa.Value]bool{}
		for _, m := range members {
			waits := false
			allInstrs(m, func(i ssa.Instruction) {
				if u, ok := i.(*ssa.UnOp); ok && u.Op == token.ARROW && c.isContextDone(u.X) {
					if call := u.X.(*ssa.Call); c.bindingIs(m, call.Call.Value, isGctx) {
						waits = true
					}
				}
			})
			// a member whose body was moved into a method: func() error { return h.onShutdown(groupCtx, cancel) }
			if g := forwardTarget(m); g != m && !waits {
				argOf := map[*ssa.Parameter]ssa.Value{}
				allInstrs(m, func(i ssa.Instruction) {
					if call, ok := i.(*ssa.Call); ok && staticCallee(&call.Call) == g {
						for k, a := range call.Call.Args {
							if k < len(g.Params) {
								argOf[g.Params[k]] = a
							}
						}
					}
				})
				allInstrs(g, func(i ssa.Instruction) {
					if u, ok := i.(*ssa.UnOp); ok && u.Op == token.ARROW && c.isContextDone(u.X) {
						if p, ok := u.X.(*ssa.Call).Call.Value.(*ssa.Parameter); ok && argOf[p] != nil && c.bindingIs(m, argOf[p], isGctx) {
							waits = true
						}
					}
				})
				if waits {
					allInstrs(g, func(i ssa.Instruction) {
						ci, ok := i.(ssa.CallInstruction)
						if !ok {
							return
						}
						p, ok := ci.Common().Value.(*ssa.Parameter)
						if !ok || argOf[p] == nil {
							return
						}
						if b := c.bindingOf(m, argOf[p]); b != nil {
							if ex, ok := c.storedValue(b).(*ssa.Extract); ok && ex.Index == 1 {
								if call, ok := ex.Tuple.(*ssa.Call); ok && calleeName(&call.Call) == "context.WithCancel" {
									cancelledByMember[call] = true
								}
							}
						}
					})
				}
			}
			if !waits {
				continue
			}
			allInstrs(m, func(i ssa.Instruction) {
				ci, ok := i.(ssa.CallInstruction)
				if !ok {
					return
				}
				// call of a captured cancel function: find the WithCancel it belongs to
				if b := c.bindingOf(m, ci.Common().Value); b != nil {
					if ex, ok := c.storedValue(b).(*ssa.Extract); ok && ex.Index == 1 {
						if call, ok := ex.Tuple.(*ssa.Call); ok && calleeName(&call.Call) == "context.WithCancel" {
							cancelledByMember[call] = true
						}
					}
				}
			})
		}
		for k, m := range members {
			for bi, fv := range m.FreeVars {
				if !typeIs(derefType(fv.Type()), "context", "Context") {
					continue
				}
				n++
				r.fn(m)
				key := fmt.Sprintf("%s:member#%d:context(%s)", fnKey(f), k+1, fv.Name())
				var binding ssa.Value
				allInstrs(f, func(i ssa.Instruction) {
					if mc, ok := i.(*ssa.MakeClosure); ok && mc.Fn == ssa.Value(m) && bi < len(mc.Bindings) {
						binding = mc.Bindings[bi]
					}
				})
				if binding == nil {
					r.undecided(rule, key, c.pos(m.Pos()), "cannot find the closure's binding")
					continue
				}
				val := c.storedValue(binding)
				switch {
				case isGctx(val):
					r.ok(rule, key, c.pos(m.Pos()), "the member observes the group context")
				default:
					// derived from a WithCancel whose cancel a waiting member calls?
					okc := false
					if ex, ok := val.(*ssa.Extract); ok && ex.Index == 0 {
						if call, ok := ex.Tuple.(*ssa.Call); ok && cancelledByMember[call] {
							okc = true
						}
					}
					if okc {
						r.ok(rule, key, c.pos(m.Pos()), "not the group context, but cancelled by a member that waits for the group context")
					} else {
						r.bad(rule, key, c.pos(m.Pos()), "a goroutine of the errgroup observes "+exprStr(val)+" instead of the group's context: when another member fails, errgroup cancels only the group context, this goroutine keeps running and Wait (and every API call that falls back on it) never returns")
					}
				}
			}
		}
	}
	if n == 0 {
		r.undecided(rule, rel+":group-members", "-", "no errgroup member capturing a context found")
	}
}

// storedValue: for a captured variable cell (Alloc), the single value stored into it; otherwise v itself.
func (c *Ctx) storedValue(v ssa.Value) ssa.Value {
	a, ok := v.(*ssa.Alloc)
	if !ok || a.Referrers() == nil {
		return v
	}
	var val ssa.Value
	n := 0
	for _, rf := range *a.Referrers() {
		if st, ok := rf.(*ssa.Store); ok && st.Addr == ssa.Value(a) {
			val = st.Val
			n++
		}
	}
	if n == 1 {
		return val
	}
	return v
}

// derivesFromCtx: v is target or derives from it through WithCancel/WithTimeout/WithValue, variable cells or interface conversions.
func (c *Ctx) derivesFromCtx(v, target ssa.Value, d int) bool {
	if v == target {
		return true
	}
	if d > 8 {
		return false
	}
	switch x := v.(type) {
	case *ssa.Alloc:
		sv := c.storedValue(x)
		return sv != v && c.derivesFromCtx(sv, target, d+1)
	case *ssa.UnOp:
		if x.Op == token.MUL {
			return c.derivesFromCtx(x.X, target, d+1)
		}
	case *ssa.MakeInterface:
		return c.derivesFromCtx(x.X, target, d+1)
	case *ssa.ChangeInterface:
		return c.derivesFromCtx(x.X, target, d+1)
	case *ssa.Extract:
		if call, ok := x.Tuple.(*ssa.Call); ok && x.Index == 0 {
			switch calleeName(&call.Call) {
			case "context.WithCancel", "context.WithTimeout", "context.WithDeadline":
				return c.derivesFromCtx(call.Call.Args[0], target, d+1)
			}
		}
	case *ssa.Call:
		if calleeName(&x.Call) == "context.WithValue" {
			return c.derivesFromCtx(x.Call.Args[0], target, d+1)
		}
	}
	return false
}

// bindingOf: v, used inside closure m, is (a load of) a free variable: the value bound to it where the closure is made.
func (c *Ctx) bindingOf(m *ssa.Function, v ssa.Value) ssa.Value {
	if u, ok := v.(*ssa.UnOp); ok && u.Op == token.MUL {
		v = u.X
	}
	fv, ok := v.(*ssa.FreeVar)
	if !ok || m.Parent() == nil {
		return nil
	}
	idx := -1
	for i, x := range m.FreeVars {
		if x == fv {
			idx = i
		}
	}
	var b ssa.Value
	allInstrs(m.Parent(), func(i ssa.Instruction) {
		if mc, ok := i.(*ssa.MakeClosure); ok && mc.Fn == ssa.Value(m) && idx >= 0 && idx < len(mc.Bindings) {
			b = mc.Bindings[idx]
		}
	})
	return b
}

func (c *Ctx) bindingIs(m *ssa.Function, v ssa.Value, pred func(ssa.Value) bool) bool {
	b := c.bindingOf(m, v)
	return b != nil && pred(c.storedValue(b))
}
