package main

import (
	"fmt"
	"go/constant"
	"go/token"
	"go/types"
	"sort"
	"strings"

	"golang.org/x/tools/go/ssa"
)

// Finite-domain path exploration (DESIGN A4).
//
// A function is executed abstractly for ONE concrete valuation of a few tracked
// cells (session state, dynamic type of the dispatched packet, a handful of
// packet flags, configuration booleans). Branch conditions that only depend on
// tracked cells and constants are evaluated; every other branch is explored
// both ways. Calls to same-repo functions are inlined (bounded depth), calls
// that the property cares about are recorded as events. The result is the set
// of possible (event sequence, return classification, final cell values).

type aval struct {
	known bool
	isStr bool
	i     int64
	s     string
}

func (a aval) String() string {
	if !a.known {
		return "?"
	}
	if a.isStr {
		return a.s
	}
	return fmt.Sprint(a.i)
}

func unk() aval             { return aval{} }
func kint(i int64) aval     { return aval{known: true, i: i} }
func kstr(s string) aval    { return aval{known: true, isStr: true, s: s} }
func kbool(b bool) aval {
	if b {
		return kint(1)
	}
	return kint(0)
}

type pstate struct {
	cells  map[string]aval
	events []string
	mem    map[ssa.Value]aval
	steps  int
}

func (s *pstate) clone() *pstate {
	n := &pstate{cells: make(map[string]aval, len(s.cells)), mem: make(map[ssa.Value]aval, len(s.mem)), steps: s.steps}
	for k, v := range s.cells {
		n.cells[k] = v
	}
	for k, v := range s.mem {
		n.mem[k] = v
	}
	n.events = append([]string{}, s.events...)
	return n
}

type frame struct {
	fn     *ssa.Function
	vals   map[ssa.Value]aval
	tuples map[ssa.Value][]aval
	params map[*ssa.Parameter]aval
	visits map[*ssa.BasicBlock]int
	depth  int
	parent *frame
}

func (f *frame) clone() *frame {
	n := &frame{fn: f.fn, vals: make(map[ssa.Value]aval, len(f.vals)), tuples: make(map[ssa.Value][]aval, len(f.tuples)),
		params: f.params, visits: make(map[*ssa.BasicBlock]int, len(f.visits)), depth: f.depth, parent: f.parent}
	for k, v := range f.vals {
		n.vals[k] = v
	}
	for k, v := range f.tuples {
		n.tuples[k] = v
	}
	for k, v := range f.visits {
		n.visits[k] = v
	}
	return n
}

type Outcome struct {
	Events []string
	Ret    []string // classification of each result
	Cells  map[string]aval
}

func (o Outcome) key() string {
	var cs []string
	for k, v := range o.Cells {
		cs = append(cs, k+"="+v.String())
	}
	sort.Strings(cs)
	return strings.Join(o.Events, " ; ") + " => " + strings.Join(o.Ret, ",") + " | " + strings.Join(cs, ",")
}

type explorer struct {
	c *Ctx
	// CellOf maps a value to a tracked cell name (loads of fields, getter
	// calls, dynamic types).
	CellOf func(v ssa.Value, fr *frame) (string, bool)
	// CellStore: a store/call instruction that writes a tracked cell; returns the
	// cell and the value expression.
	CellStore func(i ssa.Instruction, fr *frame) (string, ssa.Value, bool)
	// BlockHook: called when a block is entered (with the predecessor); may end the path with the given results
	BlockHook func(b, prev *ssa.BasicBlock, st *pstate, fr *frame) ([]aval, bool)
	// Event describes an instruction the property cares about; ok=false: none.
	// If stop is true the callee is not inlined.
	Event func(i ssa.Instruction, e *explorer, st *pstate, fr *frame) (desc string, ok bool, noInline bool)
	// Inline decides whether a static callee is explored.
	Inline func(g *ssa.Function) bool
	// CallValue may give the abstract result of a call that is not inlined.
	CallValue func(call *ssa.Call, e *explorer, st *pstate, fr *frame) ([]aval, bool)
	// StoreEvent may describe a store; skip=true: the store does not update cells.
	StoreEvent func(s *ssa.Store, e *explorer, st *pstate, fr *frame) (desc string, ok bool, skip bool)
	// ResolveInvoke may name the unique implementation of an interface call.
	ResolveInvoke func(cc *ssa.CallCommon, e *explorer, st *pstate, fr *frame) *ssa.Function
	// ValueHook may give the abstract value of any SSA value (map lookups, ...).
	ValueHook func(v ssa.Value, e *explorer, st *pstate, fr *frame) (aval, bool)
	MaxDepth   int
	MaxPaths   int
	paths      int
	Truncated bool
	outcomes  map[string]Outcome
}

func (e *explorer) Explore(f *ssa.Function, cells map[string]aval, params map[int]aval) []Outcome {
	e.outcomes = map[string]Outcome{}
	e.paths = 0
	e.Truncated = false
	if e.MaxDepth == 0 {
		e.MaxDepth = 5
	}
	if e.MaxPaths == 0 {
		e.MaxPaths = 50000
	}
	st := &pstate{cells: map[string]aval{}, mem: map[ssa.Value]aval{}}
	for k, v := range cells {
		st.cells[k] = v
	}
	fr := newFrame(f, nil)
	for i, v := range params {
		if i < len(f.Params) {
			fr.params[f.Params[i]] = v
		}
	}
	e.execBlock(st, fr, f.Blocks[0], nil, 0, func(st *pstate, fr *frame, rets []aval, retInstr *ssa.Return) {
		o := Outcome{Events: st.events, Cells: st.cells}
		for k, r := range rets {
			o.Ret = append(o.Ret, e.classifyRet(r, retInstr, k))
		}
		e.outcomes[o.key()] = o
	})
	var out []Outcome
	var keys []string
	for k := range e.outcomes {
		keys = append(keys, k)
	}
	sort.Strings(keys)
	for _, k := range keys {
		out = append(out, e.outcomes[k])
	}
	return out
}

func newFrame(f *ssa.Function, parent *frame) *frame {
	d := 0
	if parent != nil {
		d = parent.depth + 1
	}
	return &frame{fn: f, vals: map[ssa.Value]aval{}, tuples: map[ssa.Value][]aval{}, params: map[*ssa.Parameter]aval{},
		visits: map[*ssa.BasicBlock]int{}, depth: d, parent: parent}
}

func (e *explorer) classifyRet(r aval, ret *ssa.Return, idx int) string {
	if r.known {
		return r.String()
	}
	return "?"
}

type contFn func(st *pstate, fr *frame, rets []aval, ret *ssa.Return)

func (e *explorer) execBlock(st *pstate, fr *frame, b, prev *ssa.BasicBlock, idx int, k contFn) {
	if e.Truncated {
		return
	}
	if idx == 0 {
		if e.BlockHook != nil {
			if rets, stop := e.BlockHook(b, prev, st, fr); stop {
				e.paths++
				k(st, fr, rets, nil)
				return
			}
		}
		fr.visits[b]++
		if fr.visits[b] > 2 {
			return // loop bound: each block at most twice per activation path
		}
		if fr.visits[b] > 1 {
			// a new loop iteration: values (and assumed branch decisions) computed by this
			// block in the previous iteration no longer hold
			for _, in := range b.Instrs {
				if v, ok := in.(ssa.Value); ok {
					if _, isPhi := v.(*ssa.Phi); isPhi {
						continue
					}
					delete(fr.vals, v)
					delete(fr.tuples, v)
				}
			}
		}
	}
	for i := idx; i < len(b.Instrs); i++ {
		in := b.Instrs[i]
		st.steps++
		if st.steps > 200000 {
			e.Truncated = true
			return
		}
		switch x := in.(type) {
		case *ssa.Phi:
			if prev != nil {
				for pi, p := range b.Preds {
					if p == prev {
						fr.vals[x] = e.eval(x.Edges[pi], st, fr)
						break
					}
				}
			}
		case *ssa.If:
			cv := e.eval(x.Cond, st, fr)
			if cv.known && !cv.isStr {
				if cv.i != 0 {
					e.execBlock(st, fr, b.Succs[0], b, 0, k)
				} else {
					e.execBlock(st, fr, b.Succs[1], b, 0, k)
				}
				return
			}
			st2, fr2 := st.clone(), fr.clone()
			e.assume(x.Cond, true, st, fr)
			e.execBlock(st, fr, b.Succs[0], b, 0, k)
			e.assume(x.Cond, false, st2, fr2)
			e.execBlock(st2, fr2, b.Succs[1], b, 0, k)
			return
		case *ssa.Jump:
			e.execBlock(st, fr, b.Succs[0], b, 0, k)
			return
		case *ssa.Return:
			e.paths++
			if e.paths > e.MaxPaths {
				e.Truncated = true
				return
			}
			var rets []aval
			for _, r := range x.Results {
				rets = append(rets, e.evalRet(r, st, fr))
			}
			k(st, fr, rets, x)
			return
		case *ssa.Panic:
			e.paths++
			st.events = append(st.events, "PANIC")
			k(st, fr, []aval{kstr("panic")}, nil)
			return
		case *ssa.Store:
			if e.StoreEvent != nil {
				if desc, ok, skip := e.StoreEvent(x, e, st, fr); ok {
					st.events = append(st.events, desc)
					if skip {
						continue
					}
				}
			}
			if e.CellStore != nil {
				if cell, val, ok := e.CellStore(x, fr); ok {
					v := e.eval(val, st, fr)
					// loads of this cell that were executed before the store keep the value they read (SSA values
					// are immutable): freeze every such load that is still evaluated lazily through the cell
					if e.CellOf != nil {
						sb := x.Block()
						for _, lb := range fr.fn.Blocks {
							if lb != sb && !lb.Dominates(sb) {
								continue
							}
							for _, li := range lb.Instrs {
								if li == in {
									break
								}
								lv, isVal := li.(ssa.Value)
								if !isVal {
									continue
								}
								if _, isLoad := li.(*ssa.UnOp); !isLoad {
									continue
								}
								if _, have := fr.vals[lv]; have {
									continue
								}
								if cl, isCell := e.CellOf(lv, fr); isCell && cl == cell {
									if old, haveOld := st.cells[cell]; haveOld {
										fr.vals[lv] = old
									} else {
										fr.vals[lv] = unk()
									}
								}
							}
						}
					}
					st.cells[cell] = v
					st.events = append(st.events, fmt.Sprintf("set %s=%s", cell, v))
					continue
				}
			}
			if a, ok := x.Addr.(*ssa.Alloc); ok {
				st.mem[a] = e.eval(x.Val, st, fr)
			}
		case ssa.CallInstruction:
			cc := x.Common()
			noInline := false
			if e.Event != nil {
				if desc, ok, ni := e.Event(x, e, st, fr); ok {
					st.events = append(st.events, desc)
					noInline = ni
				} else {
					noInline = ni
				}
			}
			if e.CellStore != nil {
				if cell, val, ok := e.CellStore(x, fr); ok {
					v := e.eval(val, st, fr)
					st.cells[cell] = v
					st.events = append(st.events, fmt.Sprintf("set %s=%s", cell, v))
					noInline = true
				}
			}
			if _, isGo := x.(*ssa.Go); isGo {
				continue
			}
			if _, isDefer := x.(*ssa.Defer); isDefer {
				continue
			}
			call, _ := x.(*ssa.Call)
			g := staticCallee(cc)
			actuals := cc.Args
			if g == nil && cc.IsInvoke() && e.ResolveInvoke != nil && !noInline {
				if h := e.ResolveInvoke(cc, e, st, fr); h != nil {
					g = h
					actuals = append([]ssa.Value{cc.Value}, cc.Args...)
				}
			}
			if !noInline && g != nil && g.Blocks != nil && fr.depth < e.MaxDepth && e.Inline != nil && e.Inline(g) && !e.recursing(fr, g) {
				nfr := newFrame(g, fr)
				for pi, p := range g.Params {
					if pi < len(actuals) {
						nfr.params[p] = e.eval(actuals[pi], st, fr)
					}
				}
				rest := i + 1
				e.execBlock(st, nfr, g.Blocks[0], nil, 0, func(st2 *pstate, _ *frame, rets []aval, _ *ssa.Return) {
					cfr := fr.clone()
					if call != nil {
						if len(rets) == 1 {
							cfr.vals[call] = rets[0]
						} else if len(rets) > 1 {
							cfr.tuples[call] = rets
						}
					}
					e.execRest(st2.clone(), cfr, b, rest, k)
				})
				return
			}
			if call != nil && e.CallValue != nil {
				if vs, ok := e.CallValue(call, e, st, fr); ok {
					if len(vs) == 1 {
						fr.vals[call] = vs[0]
					} else {
						fr.tuples[call] = vs
					}
				}
			}
		}
	}
}

func (e *explorer) execRest(st *pstate, fr *frame, b *ssa.BasicBlock, idx int, k contFn) {
	// continue the block after an inlined call without counting a new visit
	if idx >= len(b.Instrs) {
		return
	}
	fr.visits[b]-- // execBlock(idx>0) does not increment, keep balance
	fr.visits[b]++
	e.execBlock(st, fr, b, nil, idx, k)
}

func (e *explorer) recursing(fr *frame, g *ssa.Function) bool {
	for f := fr; f != nil; f = f.parent {
		if f.fn == g {
			return true
		}
	}
	return false
}

// assume refines the state with a branch decision on an unknown condition.
func (e *explorer) assume(cond ssa.Value, truth bool, st *pstate, fr *frame) {
	for {
		if u, ok := cond.(*ssa.UnOp); ok && u.Op == token.NOT {
			cond = u.X
			truth = !truth
			continue
		}
		break
	}
	fr.vals[cond] = kbool(truth)
	// x == nil / x != nil on a call result: remember nil-ness
	if b, ok := cond.(*ssa.BinOp); ok && (b.Op == token.EQL || b.Op == token.NEQ) {
		isNil := truth == (b.Op == token.EQL)
		var other ssa.Value
		if isNilConst(b.Y) {
			other = b.X
		} else if isNilConst(b.X) {
			other = b.Y
		}
		if other != nil {
			if isNil {
				fr.vals[other] = kstr("nil")
			} else if _, have := fr.vals[other]; !have {
				fr.vals[other] = kstr("nonnil")
			}
		}
		// x == const on a tracked cell
		if e.CellOf != nil {
			if cell, ok := e.CellOf(b.X, fr); ok {
				if cv := e.eval(b.Y, st, fr); cv.known && truth == (b.Op == token.EQL) {
					st.cells[cell] = cv
				}
			}
		}
	}
}

func (e *explorer) evalRet(v ssa.Value, st *pstate, fr *frame) aval {
	a := e.eval(v, st, fr)
	if a.known {
		return a
	}
	// classify error-like results
	switch x := v.(type) {
	case *ssa.Call:
		n := calleeName(&x.Call)
		if n == "fmt.Errorf" || n == "errors.New" {
			return kstr("error")
		}
		return kstr("result:" + shortName(n))
	case *ssa.UnOp:
		if g, ok := x.X.(*ssa.Global); ok && x.Op == token.MUL {
			return kstr("global:" + g.Name())
		}
	case *ssa.MakeInterface:
		return e.evalRet(x.X, st, fr)
	case *ssa.Phi:
		return kstr("phi")
	}
	return a
}

func shortName(n string) string {
	n = strings.ReplaceAll(n, modPath+"/", "")
	n = strings.ReplaceAll(n, pahoPkts, "mqtt")
	return n
}

func (e *explorer) eval(v ssa.Value, st *pstate, fr *frame) aval {
	if a, ok := fr.vals[v]; ok {
		return a
	}
	if e.ValueHook != nil {
		if a, ok := e.ValueHook(v, e, st, fr); ok {
			return a
		}
	}
	if e.CellOf != nil {
		if cell, ok := e.CellOf(v, fr); ok {
			if a, have := st.cells[cell]; have {
				return a
			}
			return unk()
		}
	}
	switch x := v.(type) {
	case *ssa.Const:
		if x.Value == nil {
			return kstr("nil")
		}
		switch x.Value.Kind() {
		case constant.Bool:
			return kbool(constant.BoolVal(x.Value))
		case constant.Int:
			if i, ok := constant.Int64Val(x.Value); ok {
				return kint(i)
			}
		case constant.String:
			return kstr("\"" + constant.StringVal(x.Value) + "\"")
		}
		return unk()
	case *ssa.Parameter:
		if a, ok := fr.params[x]; ok {
			return a
		}
		return unk()
	case *ssa.Convert:
		a := e.eval(x.X, st, fr)
		if a.known && !a.isStr {
			if bt, ok := x.Type().Underlying().(*types.Basic); ok {
				switch bt.Kind() {
				case types.Uint8:
					a.i &= 0xff
				case types.Uint16:
					a.i &= 0xffff
				}
			}
		}
		return a
	case *ssa.ChangeType:
		return e.eval(x.X, st, fr)
	case *ssa.MakeInterface:
		a := e.eval(x.X, st, fr)
		if !a.known {
			if _, isPtr := x.X.Type().(*types.Pointer); isPtr {
				return kstr("obj:" + typeStr(x.X.Type()))
			}
		}
		return a
	case *ssa.ChangeInterface:
		return e.eval(x.X, st, fr)
	case *ssa.UnOp:
		switch x.Op {
		case token.NOT:
			a := e.eval(x.X, st, fr)
			if a.known && !a.isStr {
				return kbool(a.i == 0)
			}
			return unk()
		case token.MUL:
			if a, ok := x.X.(*ssa.Alloc); ok {
				if v, ok := st.mem[a]; ok {
					return v
				}
				// no store on this path: zero value of a local whose address does not escape
				if !allocEscapes(a) {
					switch derefType(a.Type()).Underlying().(type) {
					case *types.Interface, *types.Pointer, *types.Slice, *types.Map:
						return kstr("nil")
					case *types.Basic:
						if b := derefType(a.Type()).Underlying().(*types.Basic); b.Info()&(types.IsInteger|types.IsBoolean) != 0 {
							return kint(0)
						}
					}
				}
			}
			if g, ok := x.X.(*ssa.Global); ok {
				return kstr("global:" + g.Name())
			}
			return unk()
		case token.SUB:
			a := e.eval(x.X, st, fr)
			if a.known && !a.isStr {
				return kint(-a.i)
			}
		}
		return unk()
	case *ssa.BinOp:
		a, b := e.eval(x.X, st, fr), e.eval(x.Y, st, fr)
		if !a.known || !b.known {
			return unk()
		}
		if a.isStr || b.isStr {
			if a.isStr && b.isStr {
				// nil / nonnil / named globals comparisons
				switch x.Op {
				case token.EQL, token.NEQ:
					eq, ok := strEq(a.s, b.s)
					if !ok {
						return unk()
					}
					return kbool(eq == (x.Op == token.EQL))
				}
			}
			return unk()
		}
		switch x.Op {
		case token.EQL:
			return kbool(a.i == b.i)
		case token.NEQ:
			return kbool(a.i != b.i)
		case token.LSS:
			return kbool(a.i < b.i)
		case token.LEQ:
			return kbool(a.i <= b.i)
		case token.GTR:
			return kbool(a.i > b.i)
		case token.GEQ:
			return kbool(a.i >= b.i)
		case token.ADD:
			return kint(wrapTo(x.Type(), a.i + b.i))
		case token.SUB:
			return kint(wrapTo(x.Type(), a.i - b.i))
		case token.MUL:
			return kint(wrapTo(x.Type(), a.i * b.i))
		case token.AND:
			return kint(a.i & b.i)
		case token.OR:
			return kint(a.i | b.i)
		case token.SHL:
			return kint(wrapTo(x.Type(), a.i << uint(b.i)))
		case token.SHR:
			return kint(a.i >> uint(b.i))
		}
		return unk()
	case *ssa.Extract:
		if t, ok := fr.tuples[x.Tuple]; ok && x.Index < len(t) {
			return t[x.Index]
		}
		if ta, ok := x.Tuple.(*ssa.TypeAssert); ok {
			// comma-ok assertion on a tracked dynamic type
			if e.CellOf != nil {
				if cell, ok := e.CellOf(ta.X, fr); ok && strings.HasPrefix(cell, "type:") {
					if tv, have := st.cells[cell]; have && tv.known {
						if _, isIface := ta.AssertedType.Underlying().(*types.Interface); !isIface {
							match := tv.s == typeStr(ta.AssertedType)
							if x.Index == 1 {
								return kbool(match)
							}
							if match {
								return kstr("obj:" + tv.s)
							}
							return kstr("nil")
						}
					}
				}
			}
		}
		return unk()
	case *ssa.Call:
		switch calleeName(&x.Call) {
		case "fmt.Errorf", "errors.New":
			return kstr("error")
		}
		// packet constructors return a fresh, non-nil object
		if g := staticCallee(&x.Call); g != nil && fnPkgPath(g) == pkPackets1 && strings.HasPrefix(g.Name(), "New") {
			if _, isPtr := x.Type().(*types.Pointer); isPtr {
				return kstr("obj:" + typeStr(x.Type()))
			}
		}
		return unk()
	case *ssa.Phi:
		return unk() // set on block entry when the edge is known
	case *ssa.Global:
		return kstr("global:" + x.Name())
	}
	return unk()
}

// wrapTo applies the wrap-around of fixed-width unsigned types.
func wrapTo(t types.Type, v int64) int64 {
	if b, ok := t.Underlying().(*types.Basic); ok {
		switch b.Kind() {
		case types.Uint8:
			return v & 0xff
		case types.Uint16:
			return v & 0xffff
		case types.Uint32:
			return v & 0xffffffff
		}
	}
	return v
}

// allocEscapes: the cell's address is used for anything but loads, stores and
// field addressing.
func allocEscapes(a *ssa.Alloc) bool {
	refs := a.Referrers()
	if refs == nil {
		return false
	}
	for _, r := range *refs {
		switch x := r.(type) {
		case *ssa.Store:
			if x.Val == ssa.Value(a) {
				return true
			}
		case *ssa.UnOp, *ssa.DebugRef:
		default:
			return true
		}
	}
	return false
}

// strEq compares symbolic string values; ok=false when undetermined.
func strEq(a, b string) (eq bool, ok bool) {
	if a == b {
		if a == "nonnil" || a == "error" || strings.HasPrefix(a, "result:") {
			return false, false
		}
		return true, true
	}
	// nil vs anything definitely non-nil
	nonnil := func(s string) bool {
		return s == "nonnil" || s == "error" || strings.HasPrefix(s, "global:") || strings.HasPrefix(s, "obj:") || strings.HasPrefix(s, "\"")
	}
	if (a == "nil" && nonnil(b)) || (b == "nil" && nonnil(a)) {
		return false, true
	}
	if strings.HasPrefix(a, "global:") && strings.HasPrefix(b, "global:") {
		return false, true
	}
	// a freshly built error value is never identical to a sentinel variable
	if (a == "error" && strings.HasPrefix(b, "global:")) || (b == "error" && strings.HasPrefix(a, "global:")) {
		return false, true
	}
	if strings.HasPrefix(a, "\"") && strings.HasPrefix(b, "\"") {
		return false, true
	}
	return false, false
}
