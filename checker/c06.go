package main

import (
	"fmt"
	"go/token"
	"sort"
	"strings"

	"golang.org/x/tools/go/ssa"
)

func init() {
	register("C06", func(r *Report) {
		r.Explanation = "Decides whether independence of the two message-ID spaces is enforced by construction, in the gateway and in the client library: (R1) for every transaction store, the origins of the keys used by its Store sites are classified (ID chosen by the peer that initiates the exchange / ID chosen locally or by the other side); two classes sharing one key space are an obligation; (R2) a completion callback that deletes its key unconditionally (instead of compare-and-delete) lets a finished or superseded exchange delete its successor; (R3) every lookup-then-assert on a stored transaction uses the comma-ok form, so a foreign occupant degrades to a dropped acknowledgement, never a crash; (R4) every Store site is classified per key origin as occupancy-checked (dominated by a failed Get of that very key) or overwriting; the search for a free ID must probe the candidate it then uses. Today's shared key spaces, unconditional deletes and overwriting stores are known findings (design level); any new one is a violation. Not decided: the outcome of a particular interleaving."
		r.floor("R1", 2)
		r.floor("R2", 8)
		r.floor("R3", 10)
		r.floor("R4", 6)
		r.floor("R6", 8)
		r.floor("R8", 4)
		r.floor("R7", 1)
	}, checkC06)
}

// keyClass classifies where a message-ID key comes from.
func (c *Ctx) keyClass(o Origin, rel string) string {
	if o.Kind == "loopcounter" {
		return "free-id-search"
	}
	switch {
	case o.Kind == "call" && o.Callee == "(*"+pkUtil+".IDSequence).Next":
		return "own-sequence"
	case (o.Kind == "param" || o.Kind == "freevar") && len(o.Path) >= 1:
		t := typeStr(o.RootType())
		last := o.Path[len(o.Path)-1]
		if strings.HasPrefix(t, "*packets1.") && last == "messageID" {
			return "id-of-received-" + strings.TrimPrefix(t, "*packets1.")
		}
		if strings.HasPrefix(t, "*mqtt.") && last == "MessageID" {
			return "id-of-received-mqtt-" + strings.TrimPrefix(t, "*mqtt.")
		}
	case o.Kind == "param" && len(o.Path) == 0:
		return "parameter"
	case o.Kind == "binop" || strings.HasPrefix(o.Kind, "arith"):
		return "computed"
	case o.Kind == "const":
		return "constant"
	}
	return o.Kind
}

type storeSite struct {
	Fn    *ssa.Function
	Call  ssa.CallInstruction
	Key   ssa.Value
	Store string // field holding the store
}

func (c *Ctx) storeSites(rel string) []storeSite {
	var out []storeSite
	for _, f := range c.repoFuncs(rel) {
		allInstrs(f, func(i ssa.Instruction) {
			ci, ok := i.(ssa.CallInstruction)
			if !ok || calleeName(ci.Common()) != "(*"+pkTrans+".TransactionStore).Store" {
				return
			}
			sf := "?"
			if os := c.origins(ci.Common().Args[0]); len(os) == 1 {
				sf = typeStr(derefType(os[0].RootType())) + "." + os[0].PathStr()
			}
			out = append(out, storeSite{f, ci, ci.Common().Args[1], sf})
		})
	}
	return out
}

// phiLeaves returns the leaf values of a (nested) phi with their edge guards.
func phiLeaves(v ssa.Value) []valueWithGuards {
	var out []valueWithGuards
	seen := map[ssa.Value]bool{}
	var rec func(v ssa.Value, gs []Guard, d int)
	rec = func(v ssa.Value, gs []Guard, d int) {
		if d > 6 || seen[v] {
			return
		}
		if p, ok := v.(*ssa.Phi); ok && !(d > 0 && inCycle(p.Block()) && isLoopCounter(p)) {
			seen[v] = true
			for i, e := range p.Edges {
				eg := append(append([]Guard{}, gs...), guardsOfEdge(p.Block().Preds[i], p.Block())...)
				rec(e, eg, d+1)
			}
			return
		}
		// the key is handed back by an unexported helper of the same package (a free-ID search moved into its own
		// function): look at what the helper returns, under the guards of each of its return statements
		if ex, ok := v.(*ssa.Extract); ok {
			if call, ok := ex.Tuple.(*ssa.Call); ok {
				if g := staticCallee(&call.Call); g != nil && g.Blocks != nil && g.Object() != nil && !g.Object().Exported() &&
					fnPkgPath(g) == fnPkgPath(call.Parent()) && countInstrs(g) <= 80 && !takesLock(g) && !seen[v] {
					seen[v] = true
					n := 0
					for _, b := range g.Blocks {
						ret, ok := b.Instrs[len(b.Instrs)-1].(*ssa.Return)
						if !ok || ex.Index >= len(ret.Results) {
							continue
						}
						// a return that reports "not found" (a false / non-nil companion result) hands back no key
						skip := false
						for k, rv := range ret.Results {
							if k == ex.Index {
								continue
							}
							if bv, isB := constBool(rv); isB && !bv {
								skip = true
							}
						}
						if skip {
							continue
						}
						n++
						rec(ret.Results[ex.Index], append(append([]Guard{}, gs...), guardsOf(b)...), d+1)
					}
					if n > 0 {
						return
					}
				}
			}
		}
		out = append(out, valueWithGuards{v, gs})
	}
	rec(v, nil, 0)
	return out
}

// checkFreeIDSearch: a Store whose key comes from a search loop over candidate
// IDs must be dominated by a failed Get of that very candidate (shared with C02).
func (c *Ctx) checkFreeIDSearch(r *Report, rule, rel string) {
	n := 0
	for _, s := range c.storeSites(rel) {
		for _, leaf := range phiLeaves(s.Key) {
			isSearch := false
			for _, o := range c.origins(leaf.V) {
				if o.Kind == "loopcounter" {
					isSearch = true
				}
			}
			if !isSearch {
				continue
			}
			n++
			gs := append(append([]Guard{}, leaf.Gs...), guardsOf(s.Call.Block())...)
			key := fnKey(s.Fn) + ":free-message-id-search"
			if occupancyChecked(gs, leaf.V) {
				r.ok(rule, key, c.instrPos(s.Call), "the candidate message ID is used only after a failed Get of that very candidate")
			} else {
				r.bad(rule, key, c.instrPos(s.Call), "the search for a free message ID does not probe the candidate it then uses: an ID that is in use by another exchange is taken and that exchange is overwritten")
			}
		}
	}
	if n == 0 {
		r.okTrivial(rule, rel+":free-message-id-search", "-", "no search loop for a free message ID")
	}
}

// supersedeSafe: every site that stores a transaction built by ctor into a
// per-type slot first fails/completes the current occupant of that slot.
func (c *Ctx) supersedeSafe(rel string, ctor *ssa.Function) bool {
	n := 0
	safe := true
	for _, g := range c.repoFuncs(rel) {
		allInstrs(g, func(j ssa.Instruction) {
			cj, ok := j.(ssa.CallInstruction)
			if !ok || calleeName(cj.Common()) != "(*"+pkTrans+".TransactionStore).StoreByType" {
				return
			}
			ts := c.concreteTypesOf(cj.Common().Args[2])
			if len(ts) != 1 || ts[0] != typeStr(ctor.Signature.Results().At(0).Type()) {
				return
			}
			n++
			// an earlier Fail/Success on the value of GetByType(<same type constant>)
			found := false
			allInstrs(g, func(k ssa.Instruction) {
				ck, ok := k.(ssa.CallInstruction)
				if !ok || !ck.Common().IsInvoke() || (ck.Common().Method.Name() != "Fail" && ck.Common().Method.Name() != "Success") {
					return
				}
				ex, ok := ck.Common().Value.(*ssa.Extract)
				if !ok {
					return
				}
				call, ok := ex.Tuple.(*ssa.Call)
				if !ok || calleeName(&call.Call) != "(*"+pkTrans+".TransactionStore).GetByType" {
					return
				}
				if !sameExpr(call.Call.Args[1], cj.Common().Args[1]) {
					return
				}
				if reach, _ := pathExists(g, k, func(x ssa.Instruction) bool { return x == j }, nil); reach {
					found = true
				}
			})
			if !found {
				safe = false
			}
		})
	}
	return n > 0 && safe
}

// isLoopCounter: phi(const, phi +/- 1).
func isLoopCounter(p *ssa.Phi) bool {
	hasConst, hasStep := false, false
	for _, e := range p.Edges {
		if _, ok := constInt(e); ok {
			hasConst = true
			continue
		}
		if b, ok := e.(*ssa.BinOp); ok && (b.Op == token.ADD || b.Op == token.SUB) && b.X == ssa.Value(p) {
			if k, ok := constInt(b.Y); ok && k == 1 {
				hasStep = true
				continue
			}
		}
		return false
	}
	return hasConst && hasStep
}

type valueWithGuards struct {
	V  ssa.Value
	Gs []Guard
}

// occupancyChecked: some guard is the failed comma-ok of Get(<same key>).
func occupancyChecked(gs []Guard, key ssa.Value) bool {
	for _, g := range gs {
		if g.Truth {
			continue
		}
		ex, ok := g.Cond.(*ssa.Extract)
		if !ok || ex.Index != 1 {
			continue
		}
		call, ok := ex.Tuple.(*ssa.Call)
		if !ok || calleeName(&call.Call) != "(*"+pkTrans+".TransactionStore).Get" {
			continue
		}
		k := call.Call.Args[1]
		if k == key || sameExpr(k, key) || sameCallExpr(k, key) {
			return true
		}
	}
	return false
}

// sameCallExpr: two calls of the same getter on the same receiver expression.
func sameCallExpr(a, b ssa.Value) bool {
	ca, ok1 := a.(*ssa.Call)
	cb, ok2 := b.(*ssa.Call)
	if !ok1 || !ok2 {
		return false
	}
	fa, fb := staticCallee(&ca.Call), staticCallee(&cb.Call)
	if fa == nil || fa != fb || len(ca.Call.Args) != len(cb.Call.Args) {
		return false
	}
	if countInstrs(fa) > 12 {
		return false
	}
	for i := range ca.Call.Args {
		if ca.Call.Args[i] != cb.Call.Args[i] && !sameExpr(ca.Call.Args[i], cb.Call.Args[i]) {
			return false
		}
	}
	return true
}

func checkC06(c *Ctx, r *Report) {
	for _, rel := range []string{"gateway", "client"} {
		sites := c.storeSites(rel)
		// R1: classes per store
		classes := map[string]map[string]bool{}
		for _, s := range sites {
			r.fn(s.Fn)
			r.CallSites++
			for _, leaf := range phiLeaves(s.Key) {
				for _, o := range c.origins(leaf.V) {
					cl := c.keyClass(o, rel)
					// parameter: classify the arguments at the call sites
					if cl == "parameter" {
						p := o.Root.(*ssa.Parameter)
						idx := paramIndex(p.Parent(), p)
						for _, g := range c.repoFuncs(rel) {
							allInstrs(g, func(j ssa.Instruction) {
								cj, ok := j.(ssa.CallInstruction)
								if !ok || staticCallee(cj.Common()) != p.Parent() {
									return
								}
								for _, o2 := range c.origins(cj.Common().Args[idx]) {
									if classes[s.Store] == nil {
										classes[s.Store] = map[string]bool{}
									}
									classes[s.Store][c.keyClass(o2, rel)] = true
								}
							})
						}
						continue
					}
					if classes[s.Store] == nil {
						classes[s.Store] = map[string]bool{}
					}
					classes[s.Store][cl] = true
				}
			}
		}
		for st, cls := range classes {
			names := sortedKeys(cls)
			local, peerA, peerB := []string{}, []string{}, []string{}
			for _, n := range names {
				switch {
				case n == "own-sequence" || n == "computed" || n == "constant":
					local = append(local, n)
				case strings.HasPrefix(n, "id-of-received-mqtt-"):
					peerB = append(peerB, n)
				case strings.HasPrefix(n, "id-of-received-"):
					peerA = append(peerA, n)
				default:
					local = append(local, n)
				}
			}
			groups := 0
			for _, g := range [][]string{local, peerA, peerB} {
				if len(g) > 0 {
					groups++
				}
			}
			key := rel + ":transaction-store(" + c.stableStoreKey(st) + "):key-space"
			if groups > 1 {
				r.bad("R1", key, "-", fmt.Sprintf("one uint16 key space is shared by exchanges whose IDs are chosen independently: locally chosen %v, chosen by the MQTT-SN peer %v, chosen by the broker %v", local, peerA, peerB))
			} else {
				r.ok("R1", key, "-", fmt.Sprintf("single key class %v", names))
			}
		}
		if len(classes) == 0 {
			r.undecided("R1", rel+":stores", "-", "no transaction Store site found")
		}
		// R4: per site / origin occupancy check
		for _, s := range sites {
			for _, leaf := range phiLeaves(s.Key) {
				var cls []string
				for _, o := range c.origins(leaf.V) {
					cls = append(cls, c.keyClass(o, rel))
				}
				sort.Strings(cls)
				gs := append(append([]Guard{}, leaf.Gs...), guardsOf(s.Call.Block())...)
				var stored []string
				for _, t := range c.concreteTypesOf(s.Call.Common().Args[2]) {
					if ro := c.txRoleOf(t); ro != "nil" {
						stored = append(stored, ro) // a nil member of the phi is not a kind of exchange
					}
				}
				sort.Strings(stored)
				key := fmt.Sprintf("%s:Store[%s][key<-%s]", rel, strings.Join(stored, "|"), strings.Join(cls, "|"))
				if occupancyChecked(gs, leaf.V) {
					r.ok("R4", key, c.instrPos(s.Call), "stored only after a failed Get of the same key")
				} else {
					r.bad("R4", key, c.instrPos(s.Call), "the transaction is stored without checking that the key is free (overwrites whatever exchange currently uses this message ID); a free-ID search must probe the candidate it uses")
				}
			}
		}
		// R5: completion callbacks delete the key the transaction is stored under
		c.checkFinallyKeys(r, "R5", rel)
		// R2: completion callbacks
		for _, cl := range c.repoFuncs(rel) {
			if cl.Parent() == nil {
				continue
			}
			allInstrs(cl, func(i ssa.Instruction) {
				ci, ok := i.(ssa.CallInstruction)
				if !ok {
					return
				}
				n := calleeName(ci.Common())
				if n != "(*"+pkTrans+".TransactionStore).Delete" && n != "(*"+pkTrans+".TransactionStore).DeleteByType" {
					return
				}
				host := cl.Parent()
				for host.Parent() != nil {
					host = host.Parent()
				}
				// the callback's constructor: the function itself when it returns the transaction, otherwise (a shared
				// set-up method the constructors call) each constructor that calls it - one obligation per constructor
				ctors := []*ssa.Function{host}
				if host.Signature.Results().Len() != 1 || structOf(host.Signature.Results().At(0).Type()) == nil {
					ctors = nil
					for _, g := range c.repoFuncs(rel) {
						if g.Signature.Results().Len() != 1 || structOf(g.Signature.Results().At(0).Type()) == nil {
							continue
						}
						calls := false
						allInstrs(g, func(j ssa.Instruction) {
							if cj, ok := j.(ssa.CallInstruction); ok && staticCallee(cj.Common()) == host {
								calls = true
							}
						})
						if calls {
							ctors = append(ctors, g)
						}
					}
					if len(ctors) == 0 {
						r.undecided("R2", fnKey(host)+":unconditional-delete", c.instrPos(i), "a completion callback that deletes from the store is built by a function that is neither a transaction constructor nor called by one")
						return
					}
				}
				for _, ctor := range ctors {
				r.fn(ctor)
				// what completes the transaction on its own (a timer: retry budget / time limit) is part of the finding:
				// an unconditional delete in the callback of a transaction that only ever completes from the receive
				// loop cannot fire late; once a timer drives it, it can
				base := "no-timer"
				for _, cf := range []*ssa.Function{ctor, host} {
					allInstrs(cf, func(j ssa.Instruction) {
						if cj, ok := j.(ssa.CallInstruction); ok {
							switch calleeName(cj.Common()) {
							case pkTrans + ".NewRetryTransaction":
								base = "retry-timer"
							case pkTrans + ".NewTimedTransaction":
								base = "time-limit"
							}
						}
					})
				}
				if rt := ctor.Signature.Results(); rt.Len() == 1 {
					if st := structOf(rt.At(0).Type()); st != nil {
						for k := 0; k < st.NumFields(); k++ {
							if typeIs(derefType(st.Field(k).Type()), "time", "Timer") && base == "no-timer" {
								base = "own-timer"
							}
						}
					}
				}
				key := rel + ":completion-callback-of(" + c.txRoleOf(typeStr(ctor.Signature.Results().At(0).Type())) + "," + base + "):unconditional-delete"
				if ctor.Signature.Results().Len() != 1 {
					key = fnKey(ctor) + ":unconditional-delete"
				}
				// conditional on the stored value being this transaction?
				cond := false
				for _, g := range guardsOf(i.Block()) {
					x, y, op, isCmp := cmpGuard(g)
					if isCmp && op == token.EQL {
						for _, v := range []ssa.Value{x, y} {
							if ex, ok := v.(*ssa.Extract); ok {
								if call, ok := ex.Tuple.(*ssa.Call); ok && strings.HasPrefix(calleeName(&call.Call), "(*"+pkTrans+".TransactionStore).Get") {
									cond = true
								}
							}
						}
					}
				}
				if !cond && strings.HasSuffix(n, "DeleteByType") && c.supersedeSafe(rel, ctor) {
					r.ok("R2", key, c.instrPos(i), "per-type slot: every StoreByType of this transaction first completes the previous occupant (which runs its delete before the new one is stored)")
					continue
				}
				if cond {
					r.ok("R2", key, c.instrPos(i), "compare-and-delete")
				} else {
					r.bad("R2", key, c.instrPos(i), "the completion callback deletes its key unconditionally: when the exchange was superseded by another one under the same key, the late completion of the old one removes the new one")
				}
				}
			})
		}
		// R3: comma-ok assertions on stored transactions
		for _, f := range c.repoFuncs(rel) {
			allInstrs(f, func(i ssa.Instruction) {
				ta, ok := i.(*ssa.TypeAssert)
				if !ok {
					return
				}
				ex, ok := ta.X.(*ssa.Extract)
				if !ok {
					return
				}
				call, ok := ex.Tuple.(*ssa.Call)
				if !ok || !strings.HasPrefix(calleeName(&call.Call), "(*"+pkTrans+".TransactionStore).Get") {
					return
				}
				r.fn(f)
				key := fmt.Sprintf("%s:assert(%s)", fnKey(f), typeStr(ta.AssertedType))
				if ta.CommaOk {
					r.ok("R3", key, c.instrPos(i), "comma-ok assertion on the looked-up transaction")
				} else {
					r.bad("R3", key, c.instrPos(i), "unchecked type assertion on a looked-up transaction: a colliding exchange of another kind crashes the process")
				}
			})
		}
	}
	c.checkStoredExchangeCompletable(r, "R6")
	// R8: the store is a container: none of its methods completes (Fail/Success) a transaction it holds or replaces.
	// Completion runs the transaction's finally callback, which deletes by key - the key under which the NEW
	// transaction was just stored
	nS := 0
	for _, f := range c.repoFuncs("transactions") {
		if f.Signature.Recv() == nil || !typeIs(f.Signature.Recv().Type(), pkTrans, "TransactionStore") {
			continue
		}
		nS++
		bad := ""
		seenF := map[*ssa.Function]bool{}
		var scan func(g *ssa.Function, d int)
		scan = func(g *ssa.Function, d int) {
			if seenF[g] || d > 3 || g.Blocks == nil {
				return
			}
			seenF[g] = true
			allInstrs(g, func(i ssa.Instruction) {
				ci, ok := i.(ssa.CallInstruction)
				if !ok {
					return
				}
				cc := ci.Common()
				if cc.IsInvoke() && (cc.Method.Name() == "Fail" || cc.Method.Name() == "Success") {
					bad = c.instrPos(i)
				}
				if h := staticCallee(cc); h != nil && fnPkgPath(h) == pkTrans {
					if h.Name() == "Fail" || h.Name() == "Success" {
						bad = c.instrPos(i)
					}
					scan(h, d+1)
				}
			})
			for _, cl := range closuresIn(g) {
				scan(cl, d+1)
			}
		}
		scan(f, 0)
		r.fn(f)
		r.cond(bad == "", "R8", fnKey(f)+":store-does-not-complete", c.pos(f.Pos()), "does not complete any transaction",
			"a method of the transaction store completes a transaction ("+bad+"): completion runs that transaction's finally callback, which deletes the store entry under its key - the entry that now belongs to the exchange that replaced it (or, under the store's lock, deadlocks)")
	}
	if nS == 0 {
		r.undecided("R8", "TransactionStore", "-", "no method of TransactionStore found")
	}
	importRules(c, r, "C17", map[string]string{"R3": "R7"})
}

// checkStoredExchangeCompletable: R6 of C06. A transaction the gateway stores
// when it relays a client request occupies the request's message ID until it
// completes. It may therefore only be stored for exchanges whose reply from
// the broker is routed to it: otherwise it sits under that ID until its timer
// fires and, meanwhile, replaces or shadows an exchange the other side started
// under the same ID. For every (request type, QoS) for which the MQTT-SN
// dispatcher stores a transaction, the MQTT dispatcher's case for the broker's
// reply to that request must interact with a transaction (complete or advance it).
func (c *Ctx) checkStoredExchangeCompletable(r *Report, rule string) {
	m, err := c.newGwModel()
	if err != nil {
		r.undecided(rule, "gateway-model", "-", err.Error())
		return
	}
	type req struct {
		name  string
		cells map[string]aval
		reply string // MQTT reply type of the broker, "" = the request has no reply
	}
	var reqs []req
	for q := int64(0); q <= 3; q++ {
		reply := ""
		switch q {
		case 1:
			reply = "*mqtt.PubackPacket"
		case 2:
			reply = "*mqtt.PubrecPacket"
		}
		reqs = append(reqs, req{fmt.Sprintf("PUBLISH(QoS=%d)", q), map[string]aval{"type:sn": kstr("*packets1.Publish"), "f:packets1.Publish.QOS": kint(q),
			"f:packets1.Publish.TopicIDType": kint(2)}, reply})
	}
	for q := int64(0); q <= 2; q++ {
		reqs = append(reqs, req{fmt.Sprintf("SUBSCRIBE(QoS=%d)", q), map[string]aval{"type:sn": kstr("*packets1.Subscribe"), "f:packets1.Subscribe.QOS": kint(q),
			"f:packets1.Subscribe.TopicIDType": kint(2)}, "*mqtt.SubackPacket"})
	}
	reqs = append(reqs, req{"UNSUBSCRIBE", map[string]aval{"type:sn": kstr("*packets1.Unsubscribe"), "f:packets1.Unsubscribe.TopicIDType": kint(2)}, "*mqtt.UnsubackPacket"})
	reqs = append(reqs, req{"PUBREL", map[string]aval{"type:sn": kstr("*packets1.Pubrel")}, "*mqtt.PubcompPacket"})
	for _, rq := range reqs {
		cells := map[string]aval{"state": kint(stActive)}
		for k, v := range rq.cells {
			cells[k] = v
		}
		outs, _ := m.run(m.snDisp, cells)
		stores := false
		for _, o := range outs {
			if hasEventPrefix(o, "store.Store") {
				stores = true
			}
		}
		key := "gateway:" + rq.name
		pos := c.pos(m.snDisp.Pos())
		if len(outs) == 0 {
			r.undecided(rule, key, pos, "no outcome explored")
			continue
		}
		if !stores {
			r.ok(rule, key, pos, "relayed without storing a transaction")
			continue
		}
		if rq.reply == "" {
			r.bad(rule, key, pos, "a transaction is stored under the request's message ID although the broker never replies to this request: it occupies the ID until its retries run out and shadows an exchange the broker starts under the same ID")
			continue
		}
		outs2, _ := m.run(m.mqDisp, map[string]aval{"state": kint(stActive), "type:mq": kstr(rq.reply)})
		touches := false
		for _, o := range outs2 {
			if hasEventPrefix(o, "tx.") || hasEventPrefix(o, "store.Delete") {
				touches = true
			}
		}
		if touches {
			r.ok(rule, key, pos, "stored; the broker's "+rq.reply+" is routed to a transaction")
		} else {
			r.bad(rule, key, pos, "a transaction is stored under the request's message ID, but the broker's reply ("+rq.reply+") is relayed without consulting the transaction store: the stored transaction never completes, occupies the ID until its retries run out and replaces an exchange the broker started under the same ID")
		}
	}
}

// stableStoreKey: "pkg.Type.field" of a struct field holding a transaction store -> rename-stable form.
func (c *Ctx) stableStoreKey(st string) string {
	i := strings.LastIndex(st, ".")
	if i < 0 {
		return st
	}
	return c.stableFieldKey(st[:i], st[i+1:])
}
