package main

import (
	"go/token"
	"fmt"
	"go/types"
	"strings"

	"golang.org/x/tools/go/ssa"
)

// Field translation checks (DESIGN A1): for an outgoing packet object built
// in function f, examine every store to each interesting field.

type valueCase struct {
	O      Origin
	Guards []Guard // origin (phi-edge) guards + guards of the storing block
	Store  ssa.Instruction
}

type fieldSpec struct {
	Path     []string
	Optional bool // field may stay at its zero value
	// Accept judges one (origin, guards) case of a stored value.
	Accept func(vc valueCase) (bool, string)
}

// fieldWrites returns all value cases written to obj.<path> in obj's function,
// including writes through setter methods called on the object (a setter is a
// repo method whose body stores a parameter into a receiver field).
func (c *Ctx) fieldWrites(obj ssa.Value, path []string) []valueCase {
	var out []valueCase
	// object built by a repository constructor: the constructor's stores,
	// expressed in terms of the call's arguments
	if call, ok := obj.(*ssa.Call); ok {
		if g := staticCallee(&call.Call); g != nil && g.Blocks != nil && strings.HasPrefix(fnPkgPath(g), modPath) {
			t := &tracer{c: c, visited: map[ssa.Value]bool{}, inline: true}
			for _, o := range dedupOrigins(t.trace(call, path)) {
				if o.Kind == "call" && o.Val == ssa.Value(call) {
					continue // constructor not understood
				}
				out = append(out, valueCase{o, append([]Guard{}, o.Guards...), call})
			}
		}
	}
	stores := c.storesTo(obj, path)
	for _, s := range stores {
		// "assign, then override under a condition": this store is the value that reaches the sender only on the
		// paths that do not run a later store to the same field; when the later store sits under exactly one
		// more branch condition than this one, that condition's negation is a fact about this store's value
		var killed []Guard
		for _, s2 := range stores {
			if s2.Instr == s.Instr || len(s2.Rest) != len(s.Rest) {
				continue
			}
			b1, b2 := s.Instr.Block(), s2.Instr.Block()
			after := false
			if b1 == b2 {
				after = instrIndex(s2.Instr).i > instrIndex(s.Instr).i
			} else {
				after = b1.Dominates(b2)
			}
			if !after {
				continue
			}
			g1, g2 := guardsOf(b1), guardsOf(b2)
			var extra []Guard
			for _, g := range g2 {
				have := false
				for _, h := range g1 {
					if h.Cond == g.Cond && h.Truth == g.Truth {
						have = true
					}
				}
				if !have {
					extra = append(extra, g)
				}
			}
			if len(extra) == 1 {
				killed = append(killed, Guard{Cond: extra[0].Cond, Truth: !extra[0].Truth})
			}
		}
		for _, o := range c.origins(s.Val) {
			o2 := o
			if len(s.Rest) > 0 {
				o2.Path = append(append([]string{}, o.Path...), s.Rest...)
			}
			gs := append(append([]Guard{}, o.Guards...), guardsOf(s.Instr.Block())...)
			gs = append(gs, killed...)
			out = append(out, valueCase{o2, gs, s.Instr})
		}
	}
	// setter calls: obj (or &obj.Embedded) passed as receiver
	var visit func(recv ssa.Value, prefix []string, depth int)
	visit = func(recv ssa.Value, prefix []string, depth int) {
		refs := recv.Referrers()
		if refs == nil || depth > 4 {
			return
		}
		for _, rf := range *refs {
			switch i := rf.(type) {
			case *ssa.FieldAddr:
				if i.X == recv {
					visit(i, append(append([]string{}, prefix...), fieldName(recv.Type(), i.Field)), depth+1)
				}
			case ssa.CallInstruction:
				cc := i.Common()
				g := staticCallee(cc)
				if g == nil || g.Blocks == nil || len(cc.Args) == 0 || cc.Args[0] != recv || !strings.HasPrefix(fnPkgPath(g), modPath) {
					continue
				}
				// stores in g to receiver fields
				for _, w := range c.setterWrites(g) {
					full := append(append([]string{}, prefix...), w.Path...)
					if !sameStrings(full, path) {
						continue
					}
					if w.ParamIdx >= 0 && w.ParamIdx < len(cc.Args) {
						for _, o := range c.origins(cc.Args[w.ParamIdx]) {
							o2 := o
							o2.Path = append(append([]string{}, o.Path...), w.SrcPath...)
							gs := append(append([]Guard{}, o.Guards...), guardsOf(i.Block())...)
							out = append(out, valueCase{o2, gs, i})
						}
					} else if w.Const != nil {
						out = append(out, valueCase{Origin{Kind: "const", Val: w.Const}, guardsOf(i.Block()), i})
					} else {
						out = append(out, valueCase{Origin{Kind: "other", Val: w.Val}, guardsOf(i.Block()), i})
					}
				}
			}
		}
	}
	visit(obj, nil, 0)
	return out
}

type setterWrite struct {
	Path     []string // receiver field path written
	ParamIdx int      // parameter index whose value (plus SrcPath) is stored, or -1
	SrcPath  []string
	Const    *ssa.Const
	Val      ssa.Value
}

// setterWrites summarises stores to receiver fields in method g (only
// unconditional-or-not, flow-insensitive).
func (c *Ctx) setterWrites(g *ssa.Function) []setterWrite {
	var out []setterWrite
	if len(g.Params) == 0 {
		return nil
	}
	recv := g.Params[0]
	allInstrs(g, func(i ssa.Instruction) {
		s, ok := i.(*ssa.Store)
		if !ok {
			return
		}
		// address must be a FieldAddr chain rooted at recv
		var path []string
		a := s.Addr
		for {
			fa, ok := a.(*ssa.FieldAddr)
			if !ok {
				break
			}
			path = append([]string{fieldName(fa.X.Type(), fa.Field)}, path...)
			a = fa.X
		}
		if a != recv || len(path) == 0 {
			return
		}
		os := c.origins(s.Val)
		for _, o := range os {
			switch o.Kind {
			case "param":
				out = append(out, setterWrite{Path: path, ParamIdx: paramIndex(g, o.Root.(*ssa.Parameter)), SrcPath: o.Path})
			case "const":
				out = append(out, setterWrite{Path: path, ParamIdx: -1, Const: o.Val.(*ssa.Const)})
			default:
				// value = <interface parameter>.Getter(): resolve the getter through its
				// (unique) implementation shape in the repository
				if call, ok := o.Val.(*ssa.Call); ok && o.Kind == "call" && call.Call.IsInvoke() {
					if prm, ok := call.Call.Value.(*ssa.Parameter); ok {
						if gp := c.ifaceGetterPath(&call.Call); gp != nil {
							out = append(out, setterWrite{Path: path, ParamIdx: paramIndex(g, prm), SrcPath: gp})
							continue
						}
					}
				}
				out = append(out, setterWrite{Path: path, ParamIdx: -1, Val: o.Val})
			}
		}
	})
	return out
}

// ifaceGetterPath: for an interface invoke of a no-argument method, the field
// path all repository implementations of that method return (nil if they
// differ or are not plain getters).
func (c *Ctx) ifaceGetterPath(cc *ssa.CallCommon) []string {
	iface, ok := cc.Value.Type().Underlying().(*types.Interface)
	if !ok || len(cc.Args) != 0 {
		return nil
	}
	var res []string
	n := 0
	for _, f := range c.allRepoFuncs() {
		if f.Name() != cc.Method.Name() || f.Signature.Recv() == nil || f.Parent() != nil {
			continue
		}
		if !types.Implements(f.Signature.Recv().Type(), iface) && !c.embeddedIn(f.Signature.Recv().Type(), iface) {
			continue
		}
		// plain getter?
		var p []string
		okg := true
		allInstrs(f, func(i ssa.Instruction) {
			ret, isRet := i.(*ssa.Return)
			if !isRet || len(ret.Results) != 1 {
				return
			}
			os := c.origins(ret.Results[0])
			if len(os) != 1 || os[0].Kind != "param" || os[0].Root != ssa.Value(f.Params[0]) {
				okg = false
				return
			}
			p = os[0].Path
		})
		if !okg || p == nil {
			return nil
		}
		n++
		// prefix with the embedding field name when the receiver is an embedded property type
		full := p
		if rn := namedOf(f.Signature.Recv().Type()); rn != nil {
			full = append([]string{rn.Obj().Name()}, p...)
		}
		if res != nil && !sameStrings(res, full) {
			return nil
		}
		res = full
	}
	if n == 0 {
		return nil
	}
	return res
}

// embeddedIn: some repository struct embedding recv implements iface through it.
func (c *Ctx) embeddedIn(recv types.Type, iface *types.Interface) bool {
	return true
}

// checkFields applies specs to the object and reports per field.
func (c *Ctx) checkFields(r *Report, rule string, f *ssa.Function, obj ssa.Value, objName string, send ssa.Instruction, specs []fieldSpec) {
	for _, sp := range specs {
		fieldKey := fmt.Sprintf("%s:%s.%s", fnKey(f), objName, strings.Join(sp.Path, "."))
		ws := c.fieldWrites(obj, sp.Path)
		if len(ws) == 0 {
			if sp.Optional {
				r.okTrivial(rule, fieldKey, c.pos(obj.Pos()), "field left at its zero value (allowed)")
			} else {
				r.bad(rule, fieldKey, c.pos(obj.Pos()), "outgoing field is never set from the incoming packet")
			}
			continue
		}
		allOK := true
		var how []string
		// a value produced by an unexported helper of the same package is judged by what the helper returns
		// (one case per return statement), not rejected as "comes from a call"
		var expanded []valueCase
		for _, w := range ws {
			if ok, _ := sp.Accept(w); ok {
				expanded = append(expanded, w)
				continue
			}
			if sub := c.expandHelperCall(w, f, 0); sub != nil {
				expanded = append(expanded, sub...)
			} else {
				expanded = append(expanded, w)
			}
		}
		ws = expanded
		for _, w := range ws {
			ok, why := sp.Accept(w)
			if !ok {
				allOK = false
				r.bad(rule, fieldKey, c.instrPos(w.Store), fmt.Sprintf("value stored derives from %s under [%s]: %s", w.O, guardsStr(w.Guards), why))
			} else {
				how = append(how, fmt.Sprintf("%s [%s]", w.O, why))
			}
		}
		// completeness: the send must not be reachable from the creation of the
		// object without passing a store of this field.
		if send != nil && !sp.Optional {
			storeSet := map[ssa.Instruction]bool{}
			for _, w := range ws {
				storeSet[w.Store] = true
			}
			var from ssa.Instruction
			if oi, ok := obj.(ssa.Instruction); ok {
				from = oi
			}
			if from != nil {
				if reach, _ := pathExists(f, from, func(i ssa.Instruction) bool { return i == send }, func(i ssa.Instruction) bool { return storeSet[i] }); reach {
					allOK = false
					r.bad(rule, fieldKey, c.instrPos(send), "a path reaches the send without setting this field (zero value would be forwarded)")
				}
			}
		}
		if allOK {
			r.ok(rule, fieldKey, c.instrPos(ws[0].Store), "all stores: "+strings.Join(how, "; "))
		}
	}
}

// acceptField: the value is exactly <incoming packet of type>.<path>.
func acceptField(pkgpath, tname string, path ...string) func(vc valueCase) (bool, string) {
	return func(vc valueCase) (bool, string) {
		if originIsField(vc.O, pkgpath, tname, path...) {
			return true, "= incoming " + tname + "." + strings.Join(path, ".")
		}
		return false, "expected incoming " + tname + "." + strings.Join(path, ".") + " and nothing else"
	}
}

// expandHelperCall: vc's origin is result #k of a call to an unexported,
// lock-free function g of the same package as f. Returns one value case per
// (return statement of g, origin of its k-th result), carrying the guards of
// that return statement; return statements that the caller's own guards
// exclude (the caller goes on only when another result of the call is nil /
// true, and this return hands back a fresh error / false there) are dropped.
func (c *Ctx) expandHelperCall(vc valueCase, f *ssa.Function, depth int) []valueCase {
	o := vc.O
	if o.Kind != "call" || depth > 2 {
		return nil
	}
	call, ok := o.Val.(*ssa.Call)
	if !ok {
		return nil
	}
	g := staticCallee(&call.Call)
	if g == nil || g.Blocks == nil || g.Object() == nil || g.Object().Exported() || fnPkgPath(g) != fnPkgPath(f) || countInstrs(g) > 120 || takesLock(g) {
		return nil
	}
	// what the caller requires of the call's other results on this path
	type req struct {
		idx   int
		isNil bool // result must be nil (true) / non-nil (false); for booleans: must be false / true
	}
	var reqs []req
	for _, gd := range vc.Guards {
		cond, truth := gd.Cond, gd.Truth
		if ex, ok := cond.(*ssa.Extract); ok && ex.Tuple == ssa.Value(call) {
			reqs = append(reqs, req{ex.Index, !truth}) // boolean result: required true => "non-nil"
			continue
		}
		x, y, op, isCmp := cmpGuard(gd)
		if !isCmp || !isNilConst(y) {
			continue
		}
		if ex, ok := x.(*ssa.Extract); ok && ex.Tuple == ssa.Value(call) {
			reqs = append(reqs, req{ex.Index, op == token.EQL})
		}
	}
	var out []valueCase
	for _, b := range g.Blocks {
		ret, ok := b.Instrs[len(b.Instrs)-1].(*ssa.Return)
		if !ok || o.ResIdx >= len(ret.Results) {
			continue
		}
		excluded := false
		for _, rq := range reqs {
			if rq.idx >= len(ret.Results) || rq.idx == o.ResIdx {
				continue
			}
			rv := ret.Results[rq.idx]
			switch {
			case isNilConst(rv):
				if !rq.isNil {
					excluded = true
				}
			default:
				if bv, isB := constBool(rv); isB {
					if bv == rq.isNil { // required true (isNil=false) but returns false, or the reverse
						excluded = true
					}
				} else if _, isCall := rv.(*ssa.Call); isCall || isMakeInterfaceOfAlloc(rv) {
					// a freshly built error value
					if rq.isNil {
						excluded = true
					}
				}
			}
		}
		if excluded {
			continue
		}
		t := &tracer{c: c, visited: map[ssa.Value]bool{}, inline: true}
		for _, ro := range dedupOrigins(t.trace(ret.Results[o.ResIdx], append([]string{}, o.Path...))) {
			gs := append(append([]Guard{}, ro.Guards...), guardsOf(b)...)
			nv := valueCase{ro, gs, vc.Store}
			nv.O.ViaCall = append(append([]string{}, ro.ViaCall...), fnKey(g))
			if ro.Kind == "call" {
				if sub := c.expandHelperCall(nv, g, depth+1); sub != nil {
					out = append(out, sub...)
					continue
				}
			}
			out = append(out, nv)
		}
	}
	return out
}

func isMakeInterfaceOfAlloc(v ssa.Value) bool {
	mi, ok := v.(*ssa.MakeInterface)
	if !ok {
		return false
	}
	switch mi.X.(type) {
	case *ssa.Alloc, *ssa.Call:
		return true
	}
	return false
}
