package main

import (
	"go/types"
	"strconv"
	"os"
	"fmt"
	"go/token"
	"strings"

	"golang.org/x/tools/go/ssa"
)

func init() {
	register("C03", func(r *Report) {
		r.Explanation = "Decides per dispatcher case, for all inputs: (R1) on the extracted automaton each of SUBSCRIBE, UNSUBSCRIBE, PUBREL, PINGREQ, plain DISCONNECT from an active client reaches the MQTT sender exactly once with the corresponding MQTT packet type, and each of PUBREC, PUBCOMP, UNSUBACK, SUBACK, PINGRESP from the broker reaches the MQTT-SN sender exactly once with the corresponding type (PINGRESP only while active); the message ID of every translated packet originates from the incoming packet's message ID; (R2) the SUBSCRIBE/UNSUBSCRIBE filter is the packet's string name for type 0, GetTopicName(<client id>, TopicID) on ok for type 1, DecodeShortTopic(TopicID) for type 2 and nothing is forwarded for the reserved type; the requested QoS is the packet's; (R3) the SUBACK to the client is 'accepted' exactly on the edge where the broker's first return code is <= 2, carries that return code as granted QoS and the topic ID the subscribe case assigned (0 for wildcard/short names: the wildcard test is strings.Contains for '+' or '#'); (R4) a transaction's completion callback deletes exactly the key it was stored under. Not decided: timing/ordering between different exchanges."
		r.floor("R1", 14)
		r.floor("R2", 3)
		r.floor("R3", 4)
		r.floor("R4", 4)
	}, checkC03)
}

// resolvedTopicAcceptor judges the origin of a topic name resolved from an
// incoming packet of type tname (Publish / Subscribe / Unsubscribe).
func (c *Ctx) resolvedTopicAcceptor(fn *ssa.Function, tname string, titZero string) func(vc valueCase) (bool, string) {
	titIs := c.isFieldOf(pkPackets1, tname, "TopicIDType")
	dom4 := c.titDomain(tname)
	return func(vc valueCase) (bool, string) {
		vs := feasibleValues(vc.Guards, titIs, dom4)
		o := vc.O
		if len(vs) == 0 {
			return true, fmt.Sprintf("infeasible: the decoder only yields TopicIDType in %v for %s", dom4, tname)
		}
		if titZero == "name" && originIsField(o, pkPackets1, tname, "TopicName") {
			if !subsetOf(vs, 0) || len(vs) == 0 {
				return false, fmt.Sprintf("the packet's string name used for TopicIDType %v (must be 0 only)", vs)
			}
			return true, "string topic name, TopicIDType 0"
		}
		if o.Kind != "call" {
			return false, "topic must come from the packet's name, the registered-topics map, GetTopicName or DecodeShortTopic (found " + o.String() + ")"
		}
		switch {
		case titZero == "registered" && o.Callee == "(*sync.Map).Load" && o.ResIdx == 0:
			if !c.isHandlerSyncMap(o.Args[0], fn) {
				return false, "Load on something that is not the handler's registered-topics map"
			}
			if !c.valueIsField(o.Args[1], pkPackets1, tname, "TopicID") {
				return false, "registered-topics lookup key is not the incoming TopicID"
			}
			if !guardedByOK(vc.Guards, o.Val, 1) {
				return false, "registered-topics lookup result used without its ok result being true"
			}
			if !subsetOf(vs, 0) || len(vs) == 0 {
				return false, fmt.Sprintf("registered-topics lookup used for TopicIDType %v (must be 0 only)", vs)
			}
			return true, "registered lookup, ok, TopicIDType 0"
		case o.Callee == "("+pkTopics+".PredefinedTopics).GetTopicName" && o.ResIdx == 0:
			if !c.valueIsField(o.Args[2], pkPackets1, tname, "TopicID") {
				return false, "GetTopicName topic ID argument is not the incoming TopicID"
			}
			if !c.valueIsHandlerStringField(o.Args[1], fn) {
				return false, "GetTopicName client ID argument is not a field of the handler"
			}
			if !guardedByOK(vc.Guards, o.Val, 1) {
				return false, "GetTopicName result used without its ok result being true"
			}
			if !subsetOf(vs, 1) || len(vs) == 0 {
				return false, fmt.Sprintf("predefined lookup used for TopicIDType %v (must be 1 only)", vs)
			}
			return true, "GetTopicName, ok, TopicIDType 1"
		case o.Callee == pkPackets+".DecodeShortTopic":
			if !c.valueIsField(o.Args[0], pkPackets1, tname, "TopicID") {
				return false, "DecodeShortTopic argument is not the incoming TopicID"
			}
			if !subsetOf(vs, 2) || len(vs) == 0 {
				return false, fmt.Sprintf("short-topic decoding used for TopicIDType %v (must be 2 only)", vs)
			}
			return true, "DecodeShortTopic, TopicIDType 2"
		}
		return false, "unexpected producer " + o.Callee
	}
}

func checkC03(c *Ctx, r *Report) {
	m, err := c.newGwModel()
	if err != nil {
		r.undecided("R0", "gateway-model", "-", err.Error())
		return
	}
	r.fn(m.snDisp)
	r.fn(m.mqDisp)
	// R1: SN -> MQTT table
	snTable := []struct {
		trig  string
		cells map[string]aval
		want  string
	}{
		{"*packets1.Pubrel", nil, "*mqtt.PubrelPacket"},
		{"*packets1.Pingreq", nil, "*mqtt.PingreqPacket"},
		{"*packets1.Disconnect", map[string]aval{"f:packets1.Disconnect.Duration": kint(0)}, "*mqtt.DisconnectPacket"},
		{"*packets1.Subscribe", map[string]aval{"f:packets1.Subscribe.TopicIDType": kint(0)}, "*mqtt.SubscribePacket"},
		{"*packets1.Subscribe", map[string]aval{"f:packets1.Subscribe.TopicIDType": kint(1)}, "*mqtt.SubscribePacket"},
		{"*packets1.Subscribe", map[string]aval{"f:packets1.Subscribe.TopicIDType": kint(2)}, "*mqtt.SubscribePacket"},
		{"*packets1.Unsubscribe", map[string]aval{"f:packets1.Unsubscribe.TopicIDType": kint(0)}, "*mqtt.UnsubscribePacket"},
		{"*packets1.Unsubscribe", map[string]aval{"f:packets1.Unsubscribe.TopicIDType": kint(1)}, "*mqtt.UnsubscribePacket"},
		{"*packets1.Unsubscribe", map[string]aval{"f:packets1.Unsubscribe.TopicIDType": kint(2)}, "*mqtt.UnsubscribePacket"},
		{"*packets1.Subscribe", map[string]aval{"f:packets1.Subscribe.TopicIDType": kint(3)}, ""},
		{"*packets1.Unsubscribe", map[string]aval{"f:packets1.Unsubscribe.TopicIDType": kint(3)}, ""},
	}
	for _, t := range snTable {
		cells := map[string]aval{"state": kint(stActive), "type:sn": kstr(t.trig)}
		for k, v := range t.cells {
			cells[k] = v
		}
		outs, _ := m.run(m.snDisp, cells)
		key := fmt.Sprintf("Active/%s/%s", t.trig, cellsKey(cells))
		okc := len(outs) > 0
		detail := ""
		forwarded := false
		for _, o := range outs {
			mq := eventsWithPrefix(o, "mq:")
			if t.want == "" {
				if len(mq) > 0 {
					okc, detail = false, "a packet that cannot be translated is forwarded: "+strings.Join(mq, " ; ")
				}
				continue
			}
			if len(mq) == 0 {
				if os.Getenv("BISQ_DEBUG") != "" {
					fmt.Println("C03-R1 local:", key, strings.Join(o.Events, " ; "), "=>", o.Ret)
				}
				if !retIsError(o) {
					// allowed only for early refusals that answer the client (e.g. SUBACK invalid topic id): exactly one
					// reply, and it carries a non-accepted return code. An acknowledgement the broker never sent
					// (UNSUBACK, PINGRESP, SUBACK accepted) is not a translation.
					sn := eventsWithPrefix(o, "sn:")
					if len(sn) == 0 {
						okc, detail = false, "the packet is swallowed: nothing forwarded, nothing answered, no error: "+strings.Join(o.Events, " ; ")
					} else if len(sn) != 1 || !c.isRefusalEvent(sn[0]) {
						okc, detail = false, "the packet is not forwarded to the broker but answered by the gateway itself with something else than a refusal (an acknowledgement the broker never sent): "+strings.Join(o.Events, " ; ")
					}
				}
				continue
			}
			forwarded = true
			if len(mq) != 1 || mq[0] != "mq:"+t.want {
				okc, detail = false, fmt.Sprintf("expected exactly one %s to the broker, got %v", t.want, mq)
			}
		}
		if t.want == "" && !okc {
			// the reserved type never reaches the dispatcher if the decoder rejects it
			tn := strings.TrimPrefix(t.trig, "*packets1.")
			if !containsInt(c.titDomain(tn), 3) {
				okc = true
				outs = nil
				detail = ""
				r.ok("R1", key+":decoder", c.pos(m.snDisp.Pos()), "TopicIDType 3 is rejected by "+tn+".Unpack: the case is unreachable")
				continue
			}
		}
		if t.want != "" && !forwarded {
			okc, detail = false, "no path forwards the packet to the broker"
		}
		if okc {
			r.ok("R1", key, c.pos(m.snDisp.Pos()), firstOutcome(outs))
		} else {
			r.bad("R1", key, c.pos(m.snDisp.Pos()), detail)
		}
	}
	// MQTT -> SN
	mqTable := []struct{ trig, tx, want string }{
		{"*mqtt.PubrecPacket", "none", "Pubrec"},
		{"*mqtt.PubcompPacket", "none", "Pubcomp"},
		{"*mqtt.UnsubackPacket", "none", "Unsuback"},
		{"*mqtt.SubackPacket", c.gwSubscribeTx(), "Suback"},
		{"*mqtt.PingrespPacket", "none", "Pingresp"},
	}
	for _, t := range mqTable {
		cells := map[string]aval{"state": kint(stActive), "type:mq": kstr(t.trig), "type:tx": kstr(t.tx)}
		outs, _ := m.run(m.mqDisp, cells)
		key := "Active/" + t.trig
		okc := len(outs) > 0
		detail := ""
		sent := false
		for _, o := range outs {
			sn := eventsWithPrefix(o, "sn:")
			if len(sn) == 0 {
				if !retIsError(o) {
					okc, detail = false, "broker packet swallowed without error: "+strings.Join(o.Events, " ; ")
				}
				continue
			}
			sent = true
			if len(sn) != 1 || !strings.HasPrefix(sn[0], "sn:*packets1."+t.want+"{") {
				okc, detail = false, fmt.Sprintf("expected exactly one %s to the client, got %v", t.want, sn)
			}
		}
		if !sent {
			okc, detail = false, "no path passes the packet to the client"
		}
		if okc {
			r.ok("R1", key, c.pos(m.mqDisp.Pos()), firstOutcome(outs))
		} else {
			r.bad("R1", key, c.pos(m.mqDisp.Pos()), detail)
		}
	}
	// message IDs
	type idRule struct {
		outPkg, outType string
		outPath         []string
		inPkg, inType   string
		inPath          []string
	}
	idRules := []idRule{
		{pahoPkts, "PubrelPacket", []string{"MessageID"}, pkPackets1, "Pubrel", []string{"MessageIDProperty", "messageID"}},
		{pahoPkts, "SubscribePacket", []string{"MessageID"}, pkPackets1, "Subscribe", []string{"MessageIDProperty", "messageID"}},
		{pahoPkts, "UnsubscribePacket", []string{"MessageID"}, pkPackets1, "Unsubscribe", []string{"MessageIDProperty", "messageID"}},
		{pkPackets1, "Pubrec", []string{"MessageIDProperty", "messageID"}, pahoPkts, "PubrecPacket", []string{"MessageID"}},
		{pkPackets1, "Pubcomp", []string{"MessageIDProperty", "messageID"}, pahoPkts, "PubcompPacket", []string{"MessageID"}},
		{pkPackets1, "Unsuback", []string{"MessageIDProperty", "messageID"}, pahoPkts, "UnsubackPacket", []string{"MessageID"}},
		{pkPackets1, "Suback", []string{"MessageIDProperty", "messageID"}, pahoPkts, "SubackPacket", []string{"MessageID"}},
	}
	senders := map[*ssa.Function]bool{}
	for s := range m.snSenders {
		senders[s] = true
	}
	for s := range m.mqSenders {
		senders[s] = true
	}
	for _, ir := range idRules {
		found := false
		for _, tr := range c.findSentObjects("gateway", senders, ir.outPkg, ir.outType) {
			// only translations of the listed incoming type
			hasIn := false
			for _, p := range tr.Fn.Params {
				if typeIs(p.Type(), ir.inPkg, ir.inType) {
					hasIn = true
				}
			}
			if !hasIn && !c.functionAsserts(tr.Fn, ir.inPkg, ir.inType) {
				continue
			}
			found = true
			r.fn(tr.Fn)
			c.checkFields(r, "R1", tr.Fn, tr.Obj, ir.outType, tr.Send.Call.(ssa.Instruction), []fieldSpec{{Path: ir.outPath, Accept: acceptField(ir.inPkg, ir.inType, ir.inPath...)}})
		}
		if !found {
			r.undecided("R1", ir.outType+".MessageID", "-", "no translation "+ir.inType+" -> "+ir.outType+" found")
		}
	}
	// R2: filters and QoS of SUBSCRIBE / UNSUBSCRIBE
	for _, tn := range []string{"Subscribe", "Unsubscribe"} {
		found := false
		for _, tr := range c.findSentObjects("gateway", m.mqSenders, pahoPkts, tn+"Packet") {
			found = true
			specs := []fieldSpec{{Path: []string{"Topics"}, Accept: c.resolvedTopicAcceptor(tr.Fn, tn, "name")}}
			if tn == "Subscribe" {
				specs = append(specs, fieldSpec{Path: []string{"Qoss"}, Accept: acceptField(pkPackets1, "Subscribe", "QOS")})
			}
			c.checkFields(r, "R2", tr.Fn, tr.Obj, "mq"+tn, tr.Send.Call.(ssa.Instruction), specs)
		}
		if !found {
			r.undecided("R2", tn, "-", "no function building an MQTT "+tn+" found")
		}
	}
	// R3: SUBACK mapping
	c.checkSubackMapping(r, m)
	// R4: completion callbacks delete their own key
	c.checkFinallyKeys(r, "R4", "gateway")
}

// functionAsserts: f type-asserts some value to *pkg.name (dispatcher cases).
func (c *Ctx) functionAsserts(f *ssa.Function, pkgpath, tname string) bool {
	found := false
	allInstrs(f, func(i ssa.Instruction) {
		if ta, ok := i.(*ssa.TypeAssert); ok && typeIs(ta.AssertedType, pkgpath, tname) {
			found = true
		}
	})
	return found
}

func (c *Ctx) checkSubackMapping(r *Report, m *gwModel) {
	n := 0
	for _, f := range c.repoFuncs("gateway") {
		hasIn := false
		for _, p := range f.Params {
			if typeIs(p.Type(), pahoPkts, "SubackPacket") {
				hasIn = true
			}
		}
		if !hasIn {
			continue
		}
		allInstrs(f, func(i ssa.Instruction) {
			call, ok := i.(*ssa.Call)
			if !ok || calleeName(&call.Call) != pkPackets1+".NewSuback" {
				return
			}
			n++
			r.fn(f)
			var isRC0 func(v ssa.Value) bool
			isRC0 = func(v ssa.Value) bool {
				// a parameter of an unexported helper of the package: what every call site passes
				if p, ok := stripConv(v).(*ssa.Parameter); ok && p.Parent() != f && p.Parent().Object() != nil && !p.Parent().Object().Exported() {
					idx := paramIndex(p.Parent(), p)
					nSites, all := 0, true
					for _, g := range c.repoFuncs("gateway") {
						allInstrs(g, func(j ssa.Instruction) {
							cj, ok := j.(ssa.CallInstruction)
							if !ok || staticCallee(cj.Common()) != p.Parent() || idx < 0 || idx >= len(cj.Common().Args) {
								return
							}
							nSites++
							if g == p.Parent() || !isRC0(cj.Common().Args[idx]) {
								all = false
							}
						})
					}
					return nSites > 0 && all
				}
				for _, o := range c.origins(v) {
					if o.Kind == "index" && len(o.Args) == 2 {
						if k, ok := constInt(o.Args[1]); ok && k == 0 && c.valueIsField(o.Args[0], pahoPkts, "SubackPacket", "ReturnCodes") {
							return true
						}
					}
				}
				return false
			}
			acceptedEdge := func(gs []Guard) (bool, bool) { // (known, accepted)
				for _, g := range gs {
					x, y, op, isCmp := cmpGuard(g)
					if !isCmp {
						continue
					}
					k, okk := constInt(y)
					if !okk || !isRC0(x) {
						continue
					}
					switch {
					case op == token.LEQ && k == 2, op == token.LSS && k == 3:
						return true, true
					case op == token.GTR && k == 2, op == token.GEQ && k == 3:
						return true, false
					}
				}
				return false, false
			}
			// return code argument
			key := fnKey(f) + ":SUBACK.ReturnCode"
			okc := true
			detail := ""
			for _, o := range c.origins(call.Call.Args[1]) {
				gs := append(append([]Guard{}, o.Guards...), guardsOf(call.Block())...)
				known, acc := acceptedEdge(gs)
				k, isConst := constInt(o.Val)
				switch {
				case o.Kind != "const" || !isConst:
					okc, detail = false, "return code is not a constant chosen by the broker's return code: "+o.String()
				case !known:
					okc, detail = false, "return code "+fmt.Sprint(k)+" is not chosen on an edge of the test 'broker return code <= 2'"
				case acc && k != 0:
					okc, detail = false, "a granted subscription (return code <= 2) is reported to the client as rejected"
				case !acc && k == 0:
					okc, detail = false, "a refused subscription (return code > 2) is reported to the client as accepted"
				}
			}
			if okc {
				r.ok("R3", key, c.instrPos(i), "accepted exactly on the edge broker return code <= 2")
			} else {
				r.bad("R3", key, c.instrPos(i), detail)
			}
			// granted QoS
			key = fnKey(f) + ":SUBACK.QOS"
			okc, detail = true, ""
			for _, o := range c.origins(call.Call.Args[2]) {
				gs := append(append([]Guard{}, o.Guards...), guardsOf(call.Block())...)
				known, acc := acceptedEdge(gs)
				switch {
				case o.Kind == "index" && isRC0(o.Val):
					if !known || !acc {
						okc, detail = false, "the broker's return code is used as QoS although it may be a failure code"
					}
				case o.Kind == "const" || o.Kind == "zero":
					if known && acc {
						okc, detail = false, "granted QoS is a constant on the accepted edge"
					}
				default:
					okc, detail = false, "granted QoS does not come from the broker's return code: "+o.String()
				}
			}
			if okc {
				r.ok("R3", key, c.instrPos(i), "granted QoS = the broker's return code (0 on the rejected edge)")
			} else {
				r.bad("R3", key, c.instrPos(i), detail)
			}
			// topic ID: transaction field set at construction (lawfulness: C04-R2)
			key = fnKey(f) + ":SUBACK.TopicID"
			os := c.origins(call.Call.Args[0])
			okT := len(os) == 1 && (os[0].Kind == "param" || os[0].Kind == "freevar") && len(os[0].Path) == 1 && strings.HasPrefix(typeStr(os[0].RootType()), "*gateway.")
			r.cond(okT, "R3", key, c.instrPos(i), "topic ID = the ID the subscribe case stored in the transaction", "SUBACK topic ID is not the one assigned when the SUBSCRIBE was handled")
		})
	}
	if n == 0 {
		r.undecided("R3", "SUBACK", "-", "no function building a SUBACK from an MQTT SUBACK found")
	}
	// topic ID assigned by the subscribe case: 0 unless (string name without wildcard -> fresh) or predefined -> the packet's ID
	c.checkWildcardTest(r)
}

// checkWildcardTest: the helper guarding topic-ID allocation for SUBSCRIBE is
// "contains '+' or contains '#'".
func (c *Ctx) checkWildcardTest(r *Report) {
	alloc := c.allocatorWrapper()
	n := 0
	for _, f := range c.repoFuncs("gateway") {
		hasIn := false
		for _, p := range f.Params {
			if typeIs(p.Type(), pkPackets1, "Subscribe") {
				hasIn = true
			}
		}
		if !hasIn || alloc == nil {
			continue
		}
		// the allocator call must be guarded by !<wildcard test>(name)
		allInstrs(f, func(i ssa.Instruction) {
			ci, ok := i.(ssa.CallInstruction)
			if !ok || staticCallee(ci.Common()) != alloc {
				return
			}
			n++
			var test *ssa.Function
			for _, g := range guardsOf(i.Block()) {
				if call, ok := g.Cond.(*ssa.Call); ok && !g.Truth {
					if h := staticCallee(&call.Call); h != nil && fnPkgPath(h) == pkGateway && h.Signature.Results().Len() == 1 {
						if c.valueIsField(call.Call.Args[len(call.Call.Args)-1], pkPackets1, "Subscribe", "TopicName") {
							test = h
						}
					}
				}
			}
			key := fnKey(f) + ":wildcard-test"
			if test == nil {
				r.bad("R3", key, c.instrPos(i), "a topic ID is allocated for a SUBSCRIBE without first testing the filter for wildcards (SUBACK must carry topic ID 0 for wildcard filters)")
				return
			}
			r.fn(test)
			// explore the test with strings.Contains(x, "+") / (x, "#") as cells
			okAll := true
			detail := ""
			for mask := 0; mask < 4; mask++ {
				plus, hash := int64(mask&1), int64(mask>>1&1)
				e := &explorer{c: c, MaxDepth: 2}
				e.Inline = func(*ssa.Function) bool { return false }
				foreign := ""
				e.CallValue = func(call *ssa.Call, ex *explorer, st *pstate, fr *frame) ([]aval, bool) {
					if calleeName(&call.Call) == "strings.Contains" {
						if s, ok := constString(call.Call.Args[1]); ok && call.Call.Args[0] == ssa.Value(test.Params[len(test.Params)-1]) {
							switch s {
							case "+":
								return []aval{kint(plus)}, true
							case "#":
								return []aval{kint(hash)}, true
							}
						}
					}
					foreign = shortName(calleeName(&call.Call))
					return nil, false
				}
				outs := e.Explore(test, nil, nil)
				want := fmt.Sprint(plus | hash)
				for _, o := range outs {
					if len(o.Ret) != 1 || o.Ret[0] != want {
						okAll = false
						detail = fmt.Sprintf("for a filter with '+':%d '#':%d the test returns %v (uses %s), expected %s", plus, hash, o.Ret, foreign, want)
					}
				}
				if len(outs) == 0 {
					okAll = false
					detail = "test not explorable"
				}
			}
			if okAll {
				r.ok("R3", key, c.instrPos(i), fnKey(test)+" == contains '+' or contains '#'")
			} else {
				r.bad("R3", key, c.instrPos(i), "the wildcard test deciding whether a SUBSCRIBE gets a topic ID is not 'contains + or #': "+detail)
			}
		})
	}
	if n == 0 {
		r.undecided("R3", "subscribe-topic-id", "-", "no topic-ID allocation found in the SUBSCRIBE handling")
	}
}

// checkFinallyKeys: for every transaction constructor of the package whose
// completion callback deletes a key from a transaction store, the deleted key
// is the constructor parameter that every caller also uses as the store key.
func (c *Ctx) checkFinallyKeys(r *Report, rule, rel string) {
	n := 0
	for _, cl := range c.repoFuncs(rel) {
		if cl.Parent() == nil {
			continue
		}
		allInstrs(cl, func(i ssa.Instruction) {
			ci, ok := i.(ssa.CallInstruction)
			if !ok {
				return
			}
			name := calleeName(ci.Common())
			if name != "(*"+pkTrans+".TransactionStore).Delete" && name != "(*"+pkTrans+".TransactionStore).DeleteByType" {
				return
			}
			ctor := cl.Parent()
			for ctor.Parent() != nil {
				ctor = ctor.Parent()
			}
			n++
			r.fn(ctor)
			key := fnKey(ctor) + ":finally-deletes-own-key"
			byType := strings.HasSuffix(name, "ByType")
			karg := ci.Common().Args[1]
			if byType {
				// constant packet type: the same constant must be used by StoreByType at the call sites
				k, ok := constInt(karg)
				if !ok {
					r.bad(rule, key, c.instrPos(i), "DeleteByType with a non-constant packet type")
					return
				}
				okAll, cnt := true, 0
				for _, g := range c.repoFuncs(rel) {
					allInstrs(g, func(j ssa.Instruction) {
						cj, ok := j.(ssa.CallInstruction)
						if !ok || calleeName(cj.Common()) != "(*"+pkTrans+".TransactionStore).StoreByType" {
							return
						}
						ts := c.concreteTypesOf(cj.Common().Args[2])
						if len(ts) != 1 || ts[0] != typeStr(ctor.Signature.Results().At(0).Type()) {
							return
						}
						cnt++
						if kk, ok := constInt(cj.Common().Args[1]); !ok || kk != k {
							okAll = false
						}
					})
				}
				r.cond(okAll && cnt > 0, rule, key, c.instrPos(i), fmt.Sprintf("deletes packet type %d, the type all %d StoreByType sites use", k, cnt), "the completion callback deletes another packet-type slot than the one the transaction is stored under")
				return
			}
			os := c.origins(karg)
			if len(os) != 1 || os[0].Kind != "param" || len(os[0].Path) != 0 {
				r.bad(rule, key, c.instrPos(i), "the key deleted on completion is not a constructor parameter: "+exprStr(karg))
				return
			}
			p := os[0].Root.(*ssa.Parameter)
			if p.Parent() != ctor {
				r.bad(rule, key, c.instrPos(i), "the key deleted on completion belongs to another function")
				return
			}
			pidx := paramIndex(ctor, p)
			// a shared set-up method that the constructors call with their own key parameter: verify each constructor
			type cp struct {
				ctor *ssa.Function
				pidx int
			}
			pairs := []cp{{ctor, pidx}}
			if ctor.Signature.Results().Len() != 1 || structOf(ctor.Signature.Results().At(0).Type()) == nil {
				pairs = nil
				for _, g := range c.repoFuncs(rel) {
					if g.Signature.Results().Len() != 1 || structOf(g.Signature.Results().At(0).Type()) == nil {
						continue
					}
					allInstrs(g, func(j ssa.Instruction) {
						cj, ok := j.(ssa.CallInstruction)
						if !ok || staticCallee(cj.Common()) != ctor || pidx >= len(cj.Common().Args) {
							return
						}
						if gp, ok := cj.Common().Args[pidx].(*ssa.Parameter); ok && gp.Parent() == g {
							pairs = append(pairs, cp{g, paramIndex(g, gp)})
						} else {
							pairs = append(pairs, cp{g, -1})
						}
					})
				}
				if len(pairs) == 0 {
					r.bad(rule, key, c.instrPos(i), "the function that builds the completion callback is neither a transaction constructor nor called by one")
					return
				}
			}
			for _, pr := range pairs {
			ctor, pidx := pr.ctor, pr.pidx
			key := fnKey(ctor) + ":finally-deletes-own-key"
			if pidx < 0 {
				r.bad(rule, key, c.instrPos(i), "the key deleted on completion is not the constructor's own key parameter")
				continue
			}
			r.fn(ctor)
			// every call site: result stored under the same value passed for p
			okAll, cnt := true, 0
			detail := ""
			for _, g := range c.repoFuncs(rel) {
				allInstrs(g, func(j ssa.Instruction) {
					call, ok := j.(*ssa.Call)
					if !ok || staticCallee(&call.Call) != ctor {
						return
					}
					cnt++
					passed := call.Call.Args[pidx]
					// find Store(key, <this transaction>)
					stored := false
					allInstrs(g, func(s ssa.Instruction) {
						cs, ok := s.(ssa.CallInstruction)
						if !ok || calleeName(cs.Common()) != "(*"+pkTrans+".TransactionStore).Store" {
							return
						}
						if !flowsTo(call, cs.Common().Args[2]) {
							return
						}
						stored = true
						if cs.Common().Args[1] != passed && !sameExpr(cs.Common().Args[1], passed) && !sameCallExpr(cs.Common().Args[1], passed) {
							okAll = false
							detail = fmt.Sprintf("%s stores the transaction under %s but its completion deletes %s", fnKey(g), exprStr(cs.Common().Args[1]), exprStr(passed))
						}
					})
					if !stored {
						okAll = false
						detail = fnKey(g) + " creates the transaction but never stores it"
					}
				})
			}
			if okAll && cnt > 0 {
				r.ok(rule, key, c.instrPos(i), fmt.Sprintf("deletes parameter %s, which all %d callers use as the store key", p.Name(), cnt))
			} else {
				r.bad(rule, key, c.instrPos(i), "the completion callback does not delete the key the transaction is stored under: "+detail)
			}
			}
		})
	}
	if n == 0 {
		r.undecided(rule, "finally-callbacks", "-", "no completion callback deleting from a transaction store found in "+rel)
	}
}

func containsInt(xs []int64, v int64) bool {
	for _, x := range xs {
		if x == v {
			return true
		}
	}
	return false
}

// titDomain: the TopicIDType values the decoder of packets1.<tname> can yield.
func (c *Ctx) titDomain(tname string) []int64 {
	cm := c.newCodecModel()
	t := "*packets1." + tname
	var out []int64
	for v := int64(0); v <= 3; v++ {
		accepted := false
		for _, n := range []int64{5, 6, 8, 12} {
			cells := map[string]aval{"f:packets1." + tname + ".TopicIDType": kint(v)}
			d := cm.decode(t, codecVariant{Name: "", Cells: cells}, n, nil)
			if d.Paths > 0 {
				accepted = true
			}
		}
		if accepted {
			out = append(out, v)
		}
	}
	return out
}

// isRefusalEvent: the sent-packet event "sn:*packets1.X{NewX(a,b,c)}" is a reply whose constructor has a
// ReturnCode parameter and the argument at that position is a constant other than 0 (accepted).
func (c *Ctx) isRefusalEvent(ev string) bool {
	i := strings.Index(ev, "{New")
	j := strings.LastIndex(ev, ")}")
	if i < 0 || j < i {
		return false
	}
	call := ev[i+1 : j]
	k := strings.Index(call, "(")
	if k < 0 {
		return false
	}
	fn := c.SSA[pkPackets1].Func(call[:k])
	if fn == nil {
		return false
	}
	args := strings.Split(call[k+1:], ",")
	ps := fn.Signature.Params()
	for n := 0; n < ps.Len() && n < len(args); n++ {
		if nt, ok := ps.At(n).Type().(*types.Named); ok && nt.Obj().Name() == "ReturnCode" {
			a := strings.TrimSpace(args[n])
			if v, err := strconv.ParseInt(a, 10, 64); err == nil && v != 0 {
				return true
			}
		}
	}
	return false
}
