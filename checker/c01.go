package main

import (
	"fmt"
	"strings"

	"golang.org/x/tools/go/ssa"
)

func init() {
	register("C01", func(r *Report) {
		r.Explanation = "Decides, for every function of package gateway that builds an MQTT PUBLISH and hands it to the MQTT sender: (R1) each outgoing field (Payload, Retain, Dup, MessageID, Qos) originates from exactly the corresponding field of the incoming MQTT-SN PUBLISH on every path, QoS 3 mapping to 0 and no other value changed (guards evaluated over the 2-bit domain); (R2) every possible origin of TopicName is the registered-topics lookup on its ok edge keyed by the packet's TopicID under TopicIDType 0, GetTopicName(<handler field>, TopicID) on its ok edge under type 1, or DecodeShortTopic(TopicID) under type 2 - so the reserved type 3 or a failed lookup can never reach the send; (R3) the translation sends once (single send site, not in a loop, every return either returns the sender's result or is unreachable from the send) and the dispatcher returns the translation's result. Not decided: paho's encoder; atomicity of one sync.Map load against concurrent registration."
		r.assume("paho PublishPacket.Write encodes the struct fields faithfully")
		r.assume("sync.Map.Load is atomic with respect to concurrent Store")
		r.floor("R1", 5)
		r.floor("R2", 1)
		r.floor("R3", 2)
	}, checkC01)
}

type pubTranslation struct {
	Fn   *ssa.Function
	Obj  ssa.Value
	Send sendSite
}

// findMqttObjects: objects of paho type tname created in a gateway function
// and handed to an MQTT sender in the same function.
func (c *Ctx) findSentObjects(rel string, senders map[*ssa.Function]bool, pkgpath, tname string) []pubTranslation {
	var out []pubTranslation
	sites := c.sendSites(rel, senders)
	for _, f := range c.repoFuncs(rel) {
		for _, obj := range objectsOfType(f, pkgpath, tname) {
			for _, s := range sites {
				if s.Fn == f && flowsTo(obj, s.Arg) {
					out = append(out, pubTranslation{f, obj, s})
				}
			}
		}
	}
	return out
}

func checkC01(c *Ctx, r *Report) {
	mqS := c.mqttSenders("gateway")
	if len(mqS) == 0 {
		r.undecided("R0", "mqtt-sender", "-", "no MQTT sender role function found in package gateway")
		return
	}
	for f := range mqS {
		r.fn(f)
	}
	trs := c.findSentObjects("gateway", mqS, pahoPkts, "PublishPacket")
	// keep those built from an incoming *packets1.Publish (translation of a client PUBLISH)
	var mine []pubTranslation
	for _, t := range trs {
		hasIn := false
		for _, p := range t.Fn.Params {
			if typeIs(p.Type(), pkPackets1, "Publish") {
				hasIn = true
			}
		}
		if hasIn {
			mine = append(mine, t)
		}
	}
	if len(mine) == 0 {
		r.undecided("R0", "client-publish-translation", "-", "no function translating *packets1.Publish to an MQTT PUBLISH was found")
		return
	}
	qosIs := c.isFieldOf(pkPackets1, "Publish", "QOS")
	titIs := c.isFieldOf(pkPackets1, "Publish", "TopicIDType")
	dom4 := []int64{0, 1, 2, 3}
	for _, t := range mine {
		r.fn(t.Fn)
		r.CallSites++
		send := t.Send.Call.(ssa.Instruction)
		specs := []fieldSpec{
			{Path: []string{"Payload"}, Accept: acceptField(pkPackets1, "Publish", "Data")},
			{Path: []string{"FixedHeader", "Retain"}, Accept: acceptField(pkPackets1, "Publish", "Retain")},
			{Path: []string{"FixedHeader", "Dup"}, Accept: acceptField(pkPackets1, "Publish", "DUPProperty", "dup")},
			{Path: []string{"MessageID"}, Accept: acceptField(pkPackets1, "Publish", "MessageIDProperty", "messageID")},
			{Path: []string{"FixedHeader", "Qos"}, Accept: func(vc valueCase) (bool, string) {
				vs := feasibleValues(vc.Guards, qosIs, dom4)
				if vc.O.Kind == "const" {
					k, ok := constInt(vc.O.Val)
					if !ok {
						return false, "non-integer constant"
					}
					for _, v := range vs {
						exp := v
						if v == 3 {
							exp = 0
						}
						if exp != k {
							return false, fmt.Sprintf("constant %d stored while incoming QoS may be %d", k, v)
						}
					}
					return true, fmt.Sprintf("const %d for incoming QoS in %v", k, vs)
				}
				if originIsField(vc.O, pkPackets1, "Publish", "QOS") {
					if subsetOf(vs, 0, 1, 2) {
						return true, fmt.Sprintf("= incoming QOS for QoS in %v", vs)
					}
					return false, fmt.Sprintf("incoming QOS copied while it may be 3 (values %v)", vs)
				}
				return false, "expected incoming Publish.QOS (0-2) or constant 0 (QoS 3)"
			}},
		}
		c.checkFields(r, "R1", t.Fn, t.Obj, "mqPublish", send, specs)

		// R2: topic name
		topicSpec := []fieldSpec{{Path: []string{"TopicName"}, Accept: func(vc valueCase) (bool, string) {
			vs := feasibleValues(vc.Guards, titIs, dom4)
			o := vc.O
			if o.Kind != "call" {
				return false, "topic name must come from the registered-topics map, GetTopicName or DecodeShortTopic"
			}
			switch {
			case o.Callee == "(*sync.Map).Load" && o.ResIdx == 0:
				if !c.isHandlerSyncMap(o.Args[0], t.Fn) {
					return false, "Load on something that is not the handler's registered-topics map"
				}
				if !c.valueIsField(o.Args[1], pkPackets1, "Publish", "TopicID") {
					return false, "registered-topics lookup key is not the incoming TopicID"
				}
				if !guardedByOK(vc.Guards, o.Val, 1) {
					return false, "registered-topics lookup result used without its ok result being true"
				}
				if !subsetOf(vs, 0) || len(vs) == 0 {
					return false, fmt.Sprintf("registered-topics lookup used for TopicIDType %v (must be 0 only)", vs)
				}
				return true, "registered lookup, ok, TopicIDType 0"
			case o.Callee == "("+pkTopics+".PredefinedTopics).GetTopicName" && o.ResIdx == 0:
				if !c.valueIsField(o.Args[2], pkPackets1, "Publish", "TopicID") {
					return false, "GetTopicName topic ID argument is not the incoming TopicID"
				}
				if !c.valueIsHandlerStringField(o.Args[1], t.Fn) {
					return false, "GetTopicName client ID argument is not a field of the handler"
				}
				if !guardedByOK(vc.Guards, o.Val, 1) {
					return false, "GetTopicName result used without its ok result being true"
				}
				if !subsetOf(vs, 1) || len(vs) == 0 {
					return false, fmt.Sprintf("predefined lookup used for TopicIDType %v (must be 1 only)", vs)
				}
				return true, "GetTopicName, ok, TopicIDType 1"
			case o.Callee == pkPackets+".DecodeShortTopic":
				if !c.valueIsField(o.Args[0], pkPackets1, "Publish", "TopicID") {
					return false, "DecodeShortTopic argument is not the incoming TopicID"
				}
				if !subsetOf(vs, 2) || len(vs) == 0 {
					return false, fmt.Sprintf("short-topic decoding used for TopicIDType %v (must be 2 only)", vs)
				}
				return true, "DecodeShortTopic, TopicIDType 2"
			}
			return false, "unexpected producer " + o.Callee
		}}}
		c.checkFields(r, "R2", t.Fn, t.Obj, "mqPublish", send, topicSpec)

		// R3: exactly one forward
		c.checkSingleSend(r, "R3", t.Fn, send, mqS)
	}
	// R5: what "registered in this session" means: who may write the
	// registered-topics map and under which guard (shared with C02/C04)
	c.checkRegisteredMapWriters(r, "R5")
	// R3b: callers of the translation return its result
	for _, t := range mine {
		n := 0
		for _, f := range c.repoFuncs("gateway") {
			allInstrs(f, func(i ssa.Instruction) {
				ci, ok := i.(ssa.CallInstruction)
				if !ok || staticCallee(ci.Common()) != t.Fn {
					return
				}
				n++
				key := fnKey(f) + ":call " + fnKey(t.Fn)
				v, isVal := i.(ssa.Value)
				if !isVal {
					r.bad("R3", key, c.instrPos(i), "translation invoked with go/defer")
					return
				}
				if returnsValueDirectly(v) && !inCycle(i.Block()) {
					r.ok("R3", key, c.instrPos(i), "dispatcher returns the translation's result, call not in a loop")
				} else {
					r.bad("R3", key, c.instrPos(i), "result of the PUBLISH translation is not returned directly (error dropped or translation repeated)")
				}
			})
		}
		if n == 0 {
			r.undecided("R3", fnKey(t.Fn)+":callers", c.pos(t.Fn.Pos()), "translation function has no static caller")
		}
	}
}

// returnsValueDirectly: every use of v is a Return (possibly through phi).
func returnsValueDirectly(v ssa.Value) bool {
	refs := v.Referrers()
	if refs == nil || len(*refs) == 0 {
		return false
	}
	for _, rf := range *refs {
		switch x := rf.(type) {
		case *ssa.Return:
		case *ssa.Phi:
			if !returnsValueDirectly(x) {
				return false
			}
		case *ssa.DebugRef:
		default:
			return false
		}
	}
	return true
}

// checkSingleSend: the given send is the only send of a sender role in f, is
// not in a loop, and every return of f either returns the send's result or
// cannot be reached after the send.
func (c *Ctx) checkSingleSend(r *Report, rule string, f *ssa.Function, send ssa.Instruction, senders map[*ssa.Function]bool) {
	key := fnKey(f) + ":single-send"
	n := 0
	allInstrs(f, func(i ssa.Instruction) {
		if ci, ok := i.(ssa.CallInstruction); ok {
			if g := staticCallee(ci.Common()); g != nil && senders[g] {
				n++
			}
		}
	})
	if n != 1 {
		r.bad(rule, key, c.instrPos(send), fmt.Sprintf("%d sends to the sender role in one translation (expected exactly 1)", n))
		return
	}
	if inCycle(send.Block()) {
		r.bad(rule, key, c.instrPos(send), "send is inside a loop")
		return
	}
	sv := send.(ssa.Value)
	bad := ""
	for _, b := range f.Blocks {
		ret, ok := b.Instrs[len(b.Instrs)-1].(*ssa.Return)
		if !ok {
			continue
		}
		returnsSend := false
		for _, res := range ret.Results {
			if flowsTo(sv, res) {
				returnsSend = true
			}
		}
		reach, _ := pathExists(f, send, func(i ssa.Instruction) bool { return i == ret }, nil)
		if reach && !returnsSend {
			bad = "a return reachable after the send does not return the send's result (" + c.instrPos(ret) + ")"
		}
		if !reach && returnsSend {
			bad = "inconsistent return"
		}
	}
	// a return that reports success (constant nil error) must have passed the send: "accepted" means "forwarded"
	for _, b := range f.Blocks {
		ret, ok := b.Instrs[len(b.Instrs)-1].(*ssa.Return)
		if !ok || len(ret.Results) == 0 {
			continue
		}
		last := retVal(ret, len(ret.Results)-1)
		if !isNilConst(last) {
			continue
		}
		if skip, _ := pathExists(f, nil, func(i ssa.Instruction) bool { return i == ssa.Instruction(ret) }, func(i ssa.Instruction) bool { return i == send }); skip {
			bad = "a path returns nil (the packet is accepted, the session goes on) without handing anything to the sender (" + c.instrPos(ret) + "): the packet is silently dropped"
		}
	}
	if bad != "" {
		r.bad(rule, key, c.instrPos(send), bad)
		return
	}
	r.ok(rule, key, c.instrPos(send), "one send site, outside loops; every return after it returns its result; error returns do not pass it; no nil return without the send")
}

// valueIsField: v's single origin is <incoming T>.<path>.
func (c *Ctx) valueIsField(v ssa.Value, pkgpath, tname string, path ...string) bool {
	os := c.origins(v)
	if len(os) != 1 {
		return false
	}
	return originIsField(os[0], pkgpath, tname, path...)
}

// isHandlerSyncMap: v is the address of a sync.Map field of fn's receiver.
func (c *Ctx) isHandlerSyncMap(v ssa.Value, fn *ssa.Function) bool {
	fa, ok := v.(*ssa.FieldAddr)
	if !ok {
		return false
	}
	if !typeIs(fa.Type(), "sync", "Map") {
		return false
	}
	os := c.origins(fa.X)
	return len(os) == 1 && (os[0].Kind == "param" || os[0].Kind == "freevar") && len(os[0].Path) == 0
}

func (c *Ctx) valueIsHandlerStringField(v ssa.Value, fn *ssa.Function) bool {
	os := c.origins(v)
	if len(os) != 1 {
		return false
	}
	o := os[0]
	if o.Kind != "param" && o.Kind != "freevar" {
		return false
	}
	return len(o.Path) == 1 && strings.HasPrefix(typeStr(o.RootType()), "*gateway.")
}
