package main

import (
	"go/token"
	"go/types"
	"sort"
	"strings"

	"golang.org/x/tools/go/ssa"
)

// Lockset analysis (DESIGN A5). Locks are identified by (struct type, field)
// of the mutex (instance-insensitive). For each instruction the set of locks
// that are held on every path reaching it is computed (forward must-analysis,
// defer Unlock keeps the lock until return), plus the locks held at every call
// site of the enclosing function (entry lockset, fixpoint over static calls).

type lockInfo struct {
	c      *Ctx
	held   map[ssa.Instruction]map[string]bool
	entry  map[*ssa.Function]map[string]bool
	funcs  []*ssa.Function
	inFunc map[*ssa.Function]bool
}

func lockName(recv ssa.Value) string {
	// receiver of Lock(): address of a mutex: FieldAddr chain
	switch x := recv.(type) {
	case *ssa.FieldAddr:
		return typeStr(derefType(x.X.Type())) + "." + fieldName(x.X.Type(), x.Field)
	case *ssa.UnOp:
		if x.Op == token.MUL {
			return lockName(x.X)
		}
	}
	return "?" + exprStr(recv)
}

// lockOp classifies a call: +1 lock, -1 unlock; write=true for exclusive.
func lockOp(cc *ssa.CallCommon) (name string, op int, write bool) {
	g := staticCallee(cc)
	if g == nil || len(cc.Args) == 0 {
		return "", 0, false
	}
	n := g.String()
	switch n {
	case "(*sync.Mutex).Lock", "(*sync.RWMutex).Lock":
		return lockName(cc.Args[0]), 1, true
	case "(*sync.RWMutex).RLock":
		return lockName(cc.Args[0]), 1, false
	case "(*sync.Mutex).Unlock", "(*sync.RWMutex).Unlock":
		return lockName(cc.Args[0]), -1, true
	case "(*sync.RWMutex).RUnlock":
		return lockName(cc.Args[0]), -1, false
	}
	// embedded mutex promoted through wrapper (ts.Lock() on *TransactionStore)
	if g.Synthetic != "" && len(g.Params) > 0 {
		switch g.Name() {
		case "Lock", "RLock", "Unlock", "RUnlock":
			if st := structOf(cc.Args[0].Type()); st != nil {
				for i := 0; i < st.NumFields(); i++ {
					f := st.Field(i)
					if f.Embedded() && (typeIs(f.Type(), "sync", "Mutex") || typeIs(f.Type(), "sync", "RWMutex")) {
						nm := typeStr(derefType(cc.Args[0].Type())) + "." + f.Name()
						switch g.Name() {
						case "Lock":
							return nm, 1, true
						case "RLock":
							return nm, 1, false
						case "Unlock":
							return nm, -1, true
						case "RUnlock":
							return nm, -1, false
						}
					}
				}
			}
		}
	}
	return "", 0, false
}

func (c *Ctx) newLockInfo() *lockInfo {
	li := &lockInfo{c: c, held: map[ssa.Instruction]map[string]bool{}, entry: map[*ssa.Function]map[string]bool{}, inFunc: map[*ssa.Function]bool{}}
	li.funcs = c.allRepoFuncs()
	for _, f := range li.funcs {
		li.inFunc[f] = true
	}
	for _, f := range li.funcs {
		li.local(f)
	}
	li.entries()
	return li
}

func copySet(m map[string]bool) map[string]bool {
	n := make(map[string]bool, len(m))
	for k, v := range m {
		if v {
			n[k] = true
		}
	}
	return n
}

func intersect(a, b map[string]bool) map[string]bool {
	n := map[string]bool{}
	for k := range a {
		if b[k] {
			n[k] = true
		}
	}
	return n
}

func setEq(a, b map[string]bool) bool {
	if len(a) != len(b) {
		return false
	}
	for k := range a {
		if !b[k] {
			return false
		}
	}
	return true
}

// local computes the must-held lockset before each instruction of f.
func (li *lockInfo) local(f *ssa.Function) {
	in := map[*ssa.BasicBlock]map[string]bool{}
	out := map[*ssa.BasicBlock]map[string]bool{}
	have := map[*ssa.BasicBlock]bool{}
	work := []*ssa.BasicBlock{f.Blocks[0]}
	in[f.Blocks[0]] = map[string]bool{}
	have[f.Blocks[0]] = true
	iter := 0
	for len(work) > 0 && iter < 10000 {
		iter++
		b := work[0]
		work = work[1:]
		cur := copySet(in[b])
		for _, i := range b.Instrs {
			li.held[i] = copySet(cur)
			ci, ok := i.(ssa.CallInstruction)
			if !ok {
				continue
			}
			if _, isDefer := i.(*ssa.Defer); isDefer {
				continue // deferred unlock: lock stays held until return
			}
			if _, isGo := i.(*ssa.Go); isGo {
				continue
			}
			name, op, write := lockOp(ci.Common())
			if op > 0 {
				if write {
					cur[name] = true
				} else {
					cur[name+"(R)"] = true
				}
			} else if op < 0 {
				delete(cur, name)
				delete(cur, name+"(R)")
			}
		}
		if prev, ok := out[b]; ok && setEq(prev, cur) {
			continue
		}
		out[b] = cur
		for _, s := range b.Succs {
			if !have[s] {
				have[s] = true
				in[s] = copySet(cur)
				work = append(work, s)
			} else {
				n := intersect(in[s], cur)
				if !setEq(n, in[s]) {
					in[s] = n
					work = append(work, s)
				}
			}
		}
	}
}

// entries: locks held at every static call site of each function.
func (li *lockInfo) entries() {
	callers := map[*ssa.Function][]ssa.Instruction{}
	addressTaken := map[*ssa.Function]bool{}
	for _, f := range li.funcs {
		allInstrs(f, func(i ssa.Instruction) {
			if ci, ok := i.(ssa.CallInstruction); ok {
				_, isGo := i.(*ssa.Go)
				if g := staticCallee(ci.Common()); g != nil && li.inFunc[g] {
					if isGo {
						addressTaken[g] = true
					} else {
						callers[g] = append(callers[g], i)
					}
				}
				for _, a := range ci.Common().Args {
					markFnValue(a, addressTaken)
				}
			}
			if s, ok := i.(*ssa.Store); ok {
				markFnValue(s.Val, addressTaken)
			}
			if mc, ok := i.(*ssa.MakeClosure); ok {
				// closure only called directly? keep conservative: address taken unless it is the callee of a call in the same block
				if g, ok := mc.Fn.(*ssa.Function); ok {
					direct := false
					if refs := mc.Referrers(); refs != nil {
						for _, r := range *refs {
							if ci, ok := r.(ssa.CallInstruction); ok && ci.Common().Value == mc {
								if _, isGo := r.(*ssa.Go); !isGo {
									direct = true
									continue
								}
							}
							direct = false
							break
						}
					}
					if !direct {
						addressTaken[g] = true
					}
				}
			}
		})
	}
	// bound method wrappers: the target method is address taken
	for f := range li.c.AllFuncs {
		if strings.HasPrefix(f.Synthetic, "bound method wrapper") {
			if obj := f.Object(); obj != nil {
				if fn, ok := obj.(*types.Func); ok {
					if g := li.c.Prog.FuncValue(fn); g != nil {
						addressTaken[g] = true
					}
				}
			}
		}
	}
	all := map[string]bool{"\x00all": true}
	for _, f := range li.funcs {
		if len(callers[f]) == 0 || addressTaken[f] || isExportedAPI(f) {
			li.entry[f] = map[string]bool{}
		} else {
			li.entry[f] = all
		}
	}
	changed := true
	for n := 0; changed && n < 50; n++ {
		changed = false
		for _, f := range li.funcs {
			if len(callers[f]) == 0 || addressTaken[f] || isExportedAPI(f) {
				continue
			}
			var acc map[string]bool
			for _, cs := range callers[f] {
				h := li.heldAtRaw(cs)
				if acc == nil {
					acc = h
				} else if !acc["\x00all"] || !h["\x00all"] {
					if acc["\x00all"] {
						acc = h
					} else if !h["\x00all"] {
						acc = intersect(acc, h)
					}
				}
			}
			if acc == nil {
				acc = map[string]bool{}
			}
			if !setEq(acc, li.entry[f]) {
				li.entry[f] = acc
				changed = true
			}
		}
	}
	for f, e := range li.entry {
		if e["\x00all"] {
			li.entry[f] = map[string]bool{}
		}
	}
}

func markFnValue(v ssa.Value, set map[*ssa.Function]bool) {
	switch x := v.(type) {
	case *ssa.Function:
		set[x] = true
	case *ssa.MakeClosure:
		if g, ok := x.Fn.(*ssa.Function); ok {
			set[g] = true
		}
	}
}

func isExportedAPI(f *ssa.Function) bool {
	if f.Parent() != nil {
		return false
	}
	obj := f.Object()
	if obj == nil || !obj.Exported() {
		return false
	}
	if sig := f.Signature; sig.Recv() != nil {
		if n := namedOf(sig.Recv().Type()); n != nil && !n.Obj().Exported() {
			return false
		}
	}
	return true
}

func (li *lockInfo) heldAtRaw(i ssa.Instruction) map[string]bool {
	e := li.entry[i.Parent()]
	if e["\x00all"] {
		return e
	}
	n := copySet(li.held[i])
	for k := range e {
		n[k] = true
	}
	return n
}

// HeldAt: locks certainly held when i executes.
func (li *lockInfo) HeldAt(i ssa.Instruction) map[string]bool {
	n := copySet(li.held[i])
	for k := range li.entry[i.Parent()] {
		if k != "\x00all" {
			n[k] = true
		}
	}
	return n
}

type fieldAccess struct {
	Instr ssa.Instruction
	Fn    *ssa.Function
	Write bool
	Held  map[string]bool
	// access on an object freshly allocated in the same function (constructor)
	Fresh bool
}

// FieldAccesses lists loads/stores of struct field typ.field in the repo.
func (li *lockInfo) FieldAccesses(typ, field string) []fieldAccess {
	var out []fieldAccess
	for _, f := range li.funcs {
		allInstrs(f, func(i ssa.Instruction) {
			fa, ok := i.(*ssa.FieldAddr)
			if !ok {
				return
			}
			if typeStr(derefType(fa.X.Type())) != typ || fieldName(fa.X.Type(), fa.Field) != field {
				return
			}
			fresh := isFreshObject(fa.X)
			refs := fa.Referrers()
			if refs == nil {
				return
			}
			for _, r := range *refs {
				switch x := r.(type) {
				case *ssa.Store:
					if x.Addr == fa {
						out = append(out, fieldAccess{x, f, true, li.HeldAt(x), fresh})
					}
				case *ssa.UnOp:
					if x.Op == token.MUL {
						out = append(out, fieldAccess{x, f, false, li.HeldAt(x), fresh})
					}
				case *ssa.FieldAddr, *ssa.DebugRef:
				case ssa.CallInstruction:
					// address passed to a call (e.g. mutex methods, atomic ops): treated as read
					out = append(out, fieldAccess{x, f, false, li.HeldAt(x), fresh})
				default:
					if ri, ok := r.(ssa.Instruction); ok {
						out = append(out, fieldAccess{ri, f, false, li.HeldAt(ri), fresh})
					}
				}
			}
		})
	}
	sort.Slice(out, func(i, j int) bool { return out[i].Instr.Pos() < out[j].Instr.Pos() })
	return out
}

func isFreshObject(v ssa.Value) bool {
	switch x := v.(type) {
	case *ssa.Alloc:
		return true
	case *ssa.FieldAddr:
		return isFreshObject(x.X)
	case *ssa.Phi:
		return false
	case *ssa.UnOp:
		// t := new(T); t.f = ... where t is a local that a closure captures later: the variable lives in a cell,
		// every access loads the pointer from it. Fresh as long as (a) everything ever stored in the cell is a fresh
		// allocation of this function and (b) the access cannot come after the point where the cell (or the
		// pointer) becomes visible to other code: a closure binding the cell, a go/defer/call taking the pointer.
		if x.Op != token.MUL {
			return false
		}
		cell, ok := x.X.(*ssa.Alloc)
		if !ok || cell.Referrers() == nil {
			return false
		}
		var pubs []ssa.Instruction
		nStore := 0
		for _, rf := range *cell.Referrers() {
			switch y := rf.(type) {
			case *ssa.Store:
				if y.Addr != ssa.Value(cell) {
					return false
				}
				if _, isAlloc := y.Val.(*ssa.Alloc); !isAlloc {
					return false
				}
				nStore++
			case *ssa.MakeClosure:
				pubs = append(pubs, y)
			case *ssa.UnOp:
				if y.Referrers() == nil {
					continue
				}
				for _, u := range *y.Referrers() {
					switch z := u.(type) {
					case *ssa.FieldAddr, *ssa.DebugRef:
					case ssa.CallInstruction:
						// a method call on / call with the object: it may publish it - unless it is the embedded
						// mutex being locked (a sync method on a field address is a FieldAddr use, not this case)
						pubs = append(pubs, z)
					case *ssa.Store:
						if z.Val == ssa.Value(y) {
							pubs = append(pubs, z)
						}
					case *ssa.Return:
					default:
						pubs = append(pubs, u)
					}
				}
			case *ssa.DebugRef:
			default:
				return false
			}
		}
		if nStore == 0 {
			return false
		}
		f := x.Parent()
		for _, p := range pubs {
			if p == ssa.Instruction(x) {
				continue
			}
			if reach, _ := pathExists(f, p, func(j ssa.Instruction) bool { return j == ssa.Instruction(x) }, nil); reach {
				return false
			}
		}
		return true
	}
	return false
}

func heldStr(m map[string]bool) string {
	if len(m) == 0 {
		return "{}"
	}
	return "{" + strings.Join(sortedKeys(m), ",") + "}"
}
