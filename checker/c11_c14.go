package main

import (
	"fmt"
	"go/token"
	"go/types"
	"strings"

	"golang.org/x/tools/go/ssa"
)

func init() {
	register("C14", func(r *Report) {
		r.Explanation = "Decides structurally, for all histories and termination causes: (R1) on the extracted session automaton an MQTT DISCONNECT is handed to the MQTT sender only while handling a client DISCONNECT whose Duration is 0 (every state, every trigger type, every flag valuation of both dispatchers explored); (R2) every other place in package gateway that hands a packet to the MQTT sender (timer callbacks, retry callbacks, goroutines, the session function) can only pass types other than *DisconnectPacket (type-flow set of the argument, fail-closed on unknown); (R3) nothing but the MQTT sender writes to a connection in package gateway, so no hand-rolled DISCONNECT exists. Trusted: paho's encoder."
		r.floor("R1", 8)
		r.floor("R2", 3)
		r.floor("R3", 2)
	}, checkC14)
	register("C11", func(r *Report) {
		r.Explanation = "Decides: (R1) the MQTT-SN sender is the only writer of the client connection and, explored per session state, writes nothing and appends the packet to the buffer exactly when the state is Asleep; the session-end goroutine sends nothing to a sleeping client either (C13-R4 for the asleep state, re-run here); (R2) handling PINGREQ in state Asleep sets Awake first, hands every buffered element to the sender in index order, clears the buffer, sends PINGRESP last and returns to Asleep; every iteration of the flush loop reaches the send (no buffered packet is skipped); no other handler clears or replaces the buffer without flushing it; the state-changing CONNECT of a sleeping client also flushes; (R3) lockset of the buffer field across the two receive loops and timer callbacks. Not decided: delivered-once when a QoS>=1 retry timer fires while asleep (history)."
		r.floor("R1", 4)
		r.floor("R2", 3)
		r.floor("R3", 1)
	}, checkC11)
	register("C12", func(r *Report) {
		r.Explanation = "Decides the wiring clauses only: (R1) in states Active and Awake every client PINGREQ reaches the MQTT sender as a PINGREQ; (R2) on DISCONNECT(duration) with duration > keep-alive a broker pinger goroutine is started on every path, its stop function is the one returned by that very start call and is scheduled after exactly the announced duration; sleep cycles not covered by a pinger (duration <= keep-alive, later cycles) must forward the wake-up PINGREQ - a known finding today; (R3) the pinger waits keep-alive seconds (value handed to the broker in CONNECT) between MQTT PINGREQs and exits on its context. Not decided: the 1.5x keep-alive window itself (timed histories)."
		r.floor("R1", 2)
		r.floor("R2", 2)
		r.floor("R3", 1)
	}, checkC12)
}

// connWriteSites: calls of a Write method on a net.Conn-like receiver in pkg.
func (c *Ctx) connWriteSites(rel string) []ssa.CallInstruction {
	var out []ssa.CallInstruction
	for _, f := range c.repoFuncs(rel) {
		allInstrs(f, func(i ssa.Instruction) {
			ci, ok := i.(ssa.CallInstruction)
			if !ok {
				return
			}
			cc := ci.Common()
			name := ""
			var recv types.Type
			if cc.IsInvoke() {
				name = cc.Method.Name()
				recv = cc.Value.Type()
			} else if g := staticCallee(cc); g != nil && g.Signature.Recv() != nil {
				name = g.Name()
				recv = g.Signature.Recv().Type()
			}
			if name != "Write" || recv == nil {
				return
			}
			if typeIs(recv, "net", "Conn") || typeIs(recv, pkUtil, "ConnWithContext") {
				out = append(out, ci)
			}
		})
	}
	return out
}

func checkC14(c *Ctx, r *Report) {
	m, err := c.newGwModel()
	if err != nil {
		r.undecided("R0", "gateway-model", "-", err.Error())
		return
	}
	r.fn(m.snDisp)
	r.fn(m.mqDisp)
	runs := m.exploreSN(r, []int64{0, 1, 2, 3}, nil)
	r.CallSites += len(runs)
	seenPlain := false
	for _, run := range runs {
		plain := run.Trigger == "*packets1.Disconnect" && run.Cells["f:packets1.Disconnect.Duration"].i == 0
		key := fmt.Sprintf("%s/%s/%s", stateNames[run.State], run.Trigger, cellsKey(run.Cells))
		bad := false
		for _, o := range run.Outs {
			for _, ev := range o.Events {
				if !strings.HasPrefix(ev, "mq:") {
					continue
				}
				if strings.Contains(ev, "DisconnectPacket") || strings.Contains(ev, "?") {
					if plain && strings.Contains(ev, "DisconnectPacket") {
						seenPlain = true
						continue
					}
					bad = true
					r.bad("R1", key, c.pos(m.snDisp.Pos()), "an MQTT DISCONNECT (or a packet of unknown type) is sent to the broker on something else than a plain client DISCONNECT: "+strings.Join(o.Events, " ; "))
				}
			}
		}
		if !bad && run.Trigger == "*packets1.Disconnect" {
			r.ok("R1", key, c.pos(m.snDisp.Pos()), firstOutcome(run.Outs))
		}
	}
	if !seenPlain {
		r.undecided("R1", "plain-disconnect-forwarded", c.pos(m.snDisp.Pos()), "no path forwarding a plain client DISCONNECT to the broker was found")
	}
	// MQTT dispatcher: no DISCONNECT at all
	for _, st := range []int64{0, 1, 2, 3} {
		for _, trig := range m.mqHandled {
			cells := map[string]aval{"state": kint(st), "type:mq": kstr(trig)}
			outs, _ := m.run(m.mqDisp, cells)
			key := fmt.Sprintf("%s/%s", stateNames[st], trig)
			bad := false
			for _, o := range outs {
				for _, ev := range o.Events {
					if strings.HasPrefix(ev, "mq:") && (strings.Contains(ev, "DisconnectPacket") || strings.Contains(ev, "?")) {
						// unknown types are resolved by R2's type-flow below
						if strings.Contains(ev, "DisconnectPacket") {
							bad = true
							r.bad("R1", key, c.pos(m.mqDisp.Pos()), "broker packet makes the gateway send an MQTT DISCONNECT: "+strings.Join(o.Events, " ; "))
						}
					}
				}
			}
			if !bad {
				r.okTrivial("R1", key, c.pos(m.mqDisp.Pos()), "no MQTT DISCONNECT")
			}
		}
	}
	// R2: type-flow of every MQTT send site
	tf := c.newTypeFlow()
	covered := map[*ssa.Function]bool{}
	var mark func(f *ssa.Function, d int)
	mark = func(f *ssa.Function, d int) {
		if covered[f] || d > 8 || fnPkgPath(f) != pkGateway {
			return
		}
		covered[f] = true
		for _, g := range staticCalleesOf(f) {
			mark(g, d+1)
		}
	}
	mark(m.snDisp, 0)
	for _, s := range c.sendSites("gateway", m.mqSenders) {
		r.fn(s.Fn)
		ts := tf.Types(s.Arg)
		key := fnKey(s.Fn) + ":mqtt-send(" + exprStr(s.Arg) + ")"
		mayDisc := false
		unknown := ""
		for _, t := range ts {
			if t == "*mqtt.DisconnectPacket" {
				mayDisc = true
			}
			if strings.HasPrefix(t, "?") || strings.HasPrefix(t, "<") {
				unknown = t
			}
		}
		switch {
		case unknown != "":
			r.undecided("R2", key, c.instrPos(s.Call), "cannot bound the packet types reaching this MQTT send: "+strings.Join(ts, ", "))
		case mayDisc && !covered[s.Fn]:
			r.bad("R2", key, c.instrPos(s.Call), "an MQTT DISCONNECT can be sent from a function that is not part of the client-DISCONNECT handling: types "+strings.Join(ts, ", "))
		case mayDisc:
			// inside dispatcher code: must be guarded by the dispatched packet being a Disconnect with Duration 0 (R1 decides) -
			// provided the function is entered through the dispatcher only
			outside := ""
			seenF := map[*ssa.Function]bool{}
			var up func(f *ssa.Function, d int)
			up = func(f *ssa.Function, d int) {
				if seenF[f] || f == m.snDisp || d > 8 {
					return
				}
				seenF[f] = true
				for _, g := range c.repoFuncs("gateway") {
					calls := false
					allInstrs(g, func(i ssa.Instruction) {
						switch x := i.(type) {
						case ssa.CallInstruction:
							if staticCallee(x.Common()) == f {
								calls = true
							}
							for _, a := range x.Common().Args {
								if fv, ok := a.(*ssa.Function); ok && fv == f {
									calls = true
								}
								if mc, ok := a.(*ssa.MakeClosure); ok && mc.Fn == ssa.Value(f) {
									calls = true
								}
							}
						case *ssa.MakeClosure:
							if x.Fn == ssa.Value(f) {
								calls = true
							}
						}
					})
					if !calls {
						continue
					}
					if !covered[g] {
						outside = fnKey(g)
						continue
					}
					up(g, d+1)
				}
			}
			up(s.Fn, 0)
			// the dispatcher itself: called with a packet that was READ from the client, i.e. only from a function
			// that calls packets1.ReadPacket (the MQTT-SN receive loop) - not with a packet somebody fabricated
			for _, g := range c.repoFuncs("gateway") {
				calls := false
				allInstrs(g, func(i ssa.Instruction) {
					if ci, ok := i.(ssa.CallInstruction); ok && staticCallee(ci.Common()) == m.snDisp {
						calls = true
					}
				})
				if !calls {
					continue
				}
				reads := false
				allInstrs(g, func(i ssa.Instruction) {
					if ci, ok := i.(ssa.CallInstruction); ok && calleeName(ci.Common()) == pkPackets1+".ReadPacket" {
						reads = true
					}
				})
				if !reads {
					outside = fnKey(g) + " (which hands the MQTT-SN dispatcher a packet it did not read from the client)"
				}
			}
			// structurally (for every duration value, not only the explored ones): the send - or every call of the
			// helper that contains it - is dominated by the test Duration == 0 on the decoded DISCONNECT
			plain := func(site ssa.Instruction) bool {
				for _, g := range guardsOf(site.Block()) {
					x, y, op, isCmp := cmpGuard(g)
					if !isCmp || op != token.EQL {
						continue
					}
					if k, isC := constInt(y); isC && k == 0 && c.valueIsField(x, pkPackets1, "Disconnect", "Duration") {
						return true
					}
				}
				return false
			}
			guardedPlain := plain(s.Call.(ssa.Instruction))
			if !guardedPlain && s.Fn != m.snDisp {
				n, all := 0, true
				for _, g := range c.repoFuncs("gateway") {
					allInstrs(g, func(i ssa.Instruction) {
						if ci, ok := i.(ssa.CallInstruction); ok && staticCallee(ci.Common()) == s.Fn {
							n++
							if !plain(i) {
								all = false
							}
						}
					})
				}
				guardedPlain = n > 0 && all
			}
			if outside == "" && !guardedPlain {
				outside = "a path that is not guarded by Duration == 0 of the client's DISCONNECT (a DISCONNECT with a sleep duration, or another condition, reaches the send)"
			}
			if outside != "" {
				r.bad("R2", key, c.instrPos(s.Call), "the function sending the MQTT DISCONNECT is also entered from "+outside+", which is not part of the handling of a client DISCONNECT: the will is cancelled although the client sent no plain DISCONNECT")
			} else {
				r.ok("R2", key, c.instrPos(s.Call), "DISCONNECT send inside the SN dispatcher and entered through it only (guard decided by R1)")
			}
		default:
			r.ok("R2", key, c.instrPos(s.Call), "types: "+strings.Join(ts, ", "))
		}
	}
	// R3: only senders write to connections
	for _, w := range c.connWriteSites("gateway") {
		f := w.Parent()
		key := fnKey(f) + ":conn.Write"
		if m.mqSenders[f] || m.snSenders[f] {
			r.ok("R3", key, c.instrPos(w), "write inside a sender role function")
		} else {
			r.bad("R3", key, c.instrPos(w), "bytes are written to a connection outside the sender functions")
		}
	}
	c.checkConnEscapes(r, "R3", "gateway", m.mqSenders)
}

// bufferField finds the handler field holding the sleep buffer: a struct
// field of package gateway of type []packets.Packet.
func (c *Ctx) bufferField() (typ, field string) {
	p := c.ByPath[pkGateway]
	if p == nil {
		return "", ""
	}
	scope := p.Types.Scope()
	for _, n := range scope.Names() {
		tn, ok := scope.Lookup(n).(*types.TypeName)
		if !ok {
			continue
		}
		st, ok := tn.Type().Underlying().(*types.Struct)
		if !ok {
			continue
		}
		for i := 0; i < st.NumFields(); i++ {
			if sl, ok := st.Field(i).Type().(*types.Slice); ok && typeIs(sl.Elem(), pkPackets, "Packet") {
				return "gateway." + tn.Name(), st.Field(i).Name()
			}
		}
	}
	return "", ""
}

func checkC11(c *Ctx, r *Report) {
	m, err := c.newGwModel()
	if err != nil {
		r.undecided("R0", "gateway-model", "-", err.Error())
		return
	}
	btyp, bfield := c.bufferField()
	if btyp == "" {
		r.undecided("R0", "sleep-buffer", "-", "no []packets.Packet field found in package gateway")
		return
	}
	bufCell := "f:" + btyp + "." + bfield
	// R1: single writer + per-state behaviour of the SN sender
	for _, w := range c.connWriteSites("gateway") {
		f := w.Parent()
		key := fnKey(f) + ":conn.Write"
		if m.mqSenders[f] || m.snSenders[f] {
			r.ok("R1", key, c.instrPos(w), "write inside a sender role function")
		} else {
			r.bad("R1", key, c.instrPos(w), "a datagram is written to a connection outside the sender function (bypasses the sleep buffer)")
		}
	}
	c.checkConnEscapes(r, "R1", "gateway", m.mqSenders)
	// the session-end goroutine has its own path to the sender after changing the state: explored per state in C13-R4,
	// the asleep case ("sends it nothing") belongs here
	importRulesF(c, r, "C13", map[string]string{"R4": "R1"}, func(rule, key string) bool { return key == "shutdown/Asleep" })
	for s := range m.snSenders {
		r.fn(s)
		for _, st := range []int64{0, 1, 2, 3} {
			e := m.explorer()
			base := e.Event
			e.Event = func(i ssa.Instruction, ex *explorer, ps *pstate, fr *frame) (string, bool, bool) {
				if ci, ok := i.(ssa.CallInstruction); ok {
					cc := ci.Common()
					nm := ""
					if cc.IsInvoke() {
						nm = cc.Method.Name()
					} else if g := staticCallee(cc); g != nil {
						nm = g.Name()
					}
					if nm == "Write" {
						return "conn.Write", true, true
					}
				}
				return base(i, ex, ps, fr)
			}
			outs := e.Explore(s, map[string]aval{"state": kint(st)}, nil)
			key := fmt.Sprintf("%s:state=%s", fnKey(s), stateNames[st])
			okc := len(outs) > 0
			for _, o := range outs {
				wrote := hasEventPrefix(o, "conn.Write")
				buffered := hasEventPrefix(o, "set "+bufCell)
				if st == stAsleep {
					if wrote || !buffered {
						okc = false
						r.bad("R1", key, c.pos(s.Pos()), "while asleep the sender must only append to the buffer: "+strings.Join(o.Events, " ; "))
					}
				} else {
					if buffered {
						okc = false
						r.bad("R1", key, c.pos(s.Pos()), "packet buffered although the client is not asleep: "+strings.Join(o.Events, " ; "))
					}
					if !wrote && len(o.Ret) > 0 && o.Ret[len(o.Ret)-1] == "nil" {
						okc = false
						r.bad("R1", key, c.pos(s.Pos()), "sender reports success without writing the datagram: "+strings.Join(o.Events, " ; "))
					}
				}
			}
			if okc {
				r.ok("R1", key, c.pos(s.Pos()), fmt.Sprintf("%d outcomes, e.g. %s", len(outs), firstOutcome(outs)))
			}
		}
		// append preserves order: stored value is append(<buffer>, pkt)
		allInstrs(s, func(i ssa.Instruction) {
			st, ok := i.(*ssa.Store)
			if !ok {
				return
			}
			fa, ok := st.Addr.(*ssa.FieldAddr)
			if !ok || fieldCell(fa) != bufCell {
				return
			}
			key := fnKey(s) + ":buffer-append"
			call, ok := st.Val.(*ssa.Call)
			if ok {
				if b, isB := call.Call.Value.(*ssa.Builtin); isB && b.Name() == "append" {
					os := c.origins(call.Call.Args[0])
					if len(os) == 1 && os[0].PathStr() == bfield {
						r.ok("R1", key, c.instrPos(st), "packet appended at the end of the buffer")
						return
					}
				}
			}
			r.bad("R1", key, c.instrPos(st), "buffer is not extended by append(buffer, pkt): order of queued packets not preserved")
		})
	}
	// R2: wake-up
	authCells := m.authCells()
	for _, auth := range []int64{0, 1} {
		cells := map[string]aval{"state": kint(stAsleep), "type:sn": kstr("*packets1.Pingreq")}
		for _, ac := range authCells {
			cells[ac] = kint(auth)
		}
		outs, _ := m.run(m.snDisp, cells)
		key := fmt.Sprintf("Asleep/PINGREQ/auth=%d", auth)
		okc := len(outs) > 0
		sawSuccess := false
		for _, o := range outs {
			success := len(o.Ret) > 0 && o.Ret[len(o.Ret)-1] == "nil"
			if !success {
				continue
			}
			sawSuccess = true
			// expected order: set state=3 ... sn:<buffer elems>* ... set buffer=nil ... sn:Pingresp ... set state=2
			idxAwake, idxClear, idxResp, idxAsleep, lastSn := -1, -1, -1, -1, -1
			firstSn := -1
			for k, ev := range o.Events {
				switch {
				case ev == "set state=3" && idxAwake < 0:
					idxAwake = k
				case strings.HasPrefix(ev, "set "+bufCell+"="):
					idxClear = k
				case strings.HasPrefix(ev, "sn:") && strings.Contains(ev, "Pingresp"):
					idxResp = k
				case ev == "set state=2":
					idxAsleep = k
				}
				if strings.HasPrefix(ev, "sn:") {
					lastSn = k
					if firstSn < 0 {
						firstSn = k
					}
				}
				if strings.HasPrefix(ev, "mq:") {
					// forwarding the wake-up ping to the broker is allowed (keeps the broker keep-alive)
				}
			}
			switch {
			case idxAwake < 0 || (firstSn >= 0 && firstSn < idxAwake):
				okc = false
				r.bad("R2", key, c.pos(m.snDisp.Pos()), "state must be set to Awake before anything is sent (otherwise the flush is queued again): "+strings.Join(o.Events, " ; "))
			case idxResp < 0 || idxResp != lastSn:
				okc = false
				r.bad("R2", key, c.pos(m.snDisp.Pos()), "PINGRESP must be the last packet of the wake-up: "+strings.Join(o.Events, " ; "))
			case idxClear < 0 || idxClear > idxResp:
				okc = false
				r.bad("R2", key, c.pos(m.snDisp.Pos()), "buffer must be cleared after the flush and before PINGRESP: "+strings.Join(o.Events, " ; "))
			case idxAsleep < idxResp:
				okc = false
				r.bad("R2", key, c.pos(m.snDisp.Pos()), "after PINGRESP the client must be treated as asleep again: "+strings.Join(o.Events, " ; "))
			}
		}
		if !sawSuccess {
			okc = false
			r.undecided("R2", key, c.pos(m.snDisp.Pos()), "no successful wake-up path found")
		}
		if okc {
			r.ok("R2", key, c.pos(m.snDisp.Pos()), "Awake -> flush -> clear -> PINGRESP -> Asleep on every successful path")
		}
	}
	// R2b: flush loop hands buffer elements to the sender in index order; every
	// store that replaces the buffer by something else than append(...) is
	// preceded by the flush in the same function.
	c.checkBufferClears(r, m, btyp, bfield)
	// R2c: sleeping client's CONNECT flushes as well
	for _, st := range []int64{stAsleep, stAwake} {
		cells := map[string]aval{"state": kint(st), "type:sn": kstr("*packets1.Connect"), "f:packets1.Connect.ProtocolID": kint(1), "f:packets1.Connect.Duration": kint(60)}
		outs, _ := m.run(m.snDisp, cells)
		key := fmt.Sprintf("%s/CONNECT", stateNames[st])
		okc := len(outs) > 0
		for _, o := range outs {
			if len(o.Ret) > 0 && o.Ret[len(o.Ret)-1] == "nil" && hasEventPrefix(o, "set state=1") {
				if !hasEventPrefix(o, "set "+bufCell) {
					okc = false
					r.bad("R2", key, c.pos(m.snDisp.Pos()), "a sleeping client's CONNECT makes it active without delivering the buffered packets: "+strings.Join(o.Events, " ; "))
				}
			}
		}
		if okc {
			r.ok("R2", key, c.pos(m.snDisp.Pos()), "buffer flushed when the client becomes active")
		}
	}
	// R2d: the reply to DISCONNECT(duration) is sent, not queued: at the moment it is handed to the sender the
	// state is not Asleep (the client waits for this reply before it goes to sleep; a queued reply is delivered
	// one sleep period late and the client's Sleep() times out)
	for _, st := range []int64{stActive, stAwake, stAsleep} {
		cells := map[string]aval{"state": kint(st), "type:sn": kstr("*packets1.Disconnect"), "f:packets1.Disconnect.Duration": kint(30)}
		if kc := c.keepAliveCell(); kc != "" {
			cells[kc] = kint(10)
		}
		outs, _ := m.run(m.snDisp, cells)
		key := fmt.Sprintf("%s/DISCONNECT(duration):reply-not-queued", stateNames[st])
		okc := len(outs) > 0
		detail := ""
		for _, o := range outs {
			if !(len(o.Ret) > 0 && o.Ret[len(o.Ret)-1] == "nil") {
				continue
			}
			cur := st
			replied := false
			for _, ev := range o.Events {
				if strings.HasPrefix(ev, "set state=") {
					fmt.Sscanf(ev, "set state=%d", &cur)
				}
				if strings.HasPrefix(ev, "sn:") && strings.Contains(ev, "Disconnect") {
					replied = true
					if cur == stAsleep {
						okc, detail = false, "the DISCONNECT reply is handed to the sender while the state is Asleep, i.e. it is queued instead of sent: "+strings.Join(o.Events, " ; ")
					}
				}
			}
			if !replied {
				okc, detail = false, "a DISCONNECT with a sleep duration is accepted without the DISCONNECT reply: "+strings.Join(o.Events, " ; ")
			}
		}
		if len(outs) == 0 {
			r.undecided("R2", key, c.pos(m.snDisp.Pos()), "DISCONNECT(duration) case not explored")
		} else if okc {
			r.ok("R2", key, c.pos(m.snDisp.Pos()), firstOutcome(outs))
		} else {
			r.bad("R2", key, c.pos(m.snDisp.Pos()), detail)
		}
	}
	// R4: answers to the gateway's own sleep pings are not passed (queued) to a
	// sleeping client: a broker PINGRESP reaches the SN sender only in state Active.
	for _, st := range []int64{0, 1, 2, 3} {
		outs, _ := m.run(m.mqDisp, map[string]aval{"state": kint(st), "type:mq": kstr("*mqtt.PingrespPacket")})
		key := fmt.Sprintf("%s/broker-PINGRESP", stateNames[st])
		okc := len(outs) > 0
		for _, o := range outs {
			sent := hasEventPrefix(o, "sn:")
			if sent != (st == stActive) {
				okc = false
				r.bad("R4", key, c.pos(m.mqDisp.Pos()), "broker PINGRESP must be passed to the client exactly when it is active (answers to the sleep pinger must not be queued for a sleeping client): "+strings.Join(o.Events, " ; "))
			}
		}
		if okc {
			r.ok("R4", key, c.pos(m.mqDisp.Pos()), firstOutcome(outs))
		}
	}
	// R3: lockset of the buffer
	li := c.newLockInfo()
	acc := li.FieldAccesses(btyp, bfield)
	var common map[string]bool
	writers := 0
	for _, a := range acc {
		if a.Fresh {
			continue
		}
		r.fn(a.Fn)
		if a.Write {
			writers++
		}
		if common == nil {
			common = copySet(a.Held)
		} else {
			common = intersect(common, a.Held)
		}
	}
	key := "gateway:sleep-buffer(" + c.stableFieldKey(btyp, bfield) + "):lockset"
	if len(acc) == 0 {
		r.undecided("R3", key, "-", "no access to the buffer found")
	} else if len(common) == 0 && writers > 0 {
		var sites []string
		for _, a := range acc {
			sites = append(sites, fmt.Sprintf("%s %s held=%s", c.instrPos(a.Instr), map[bool]string{true: "write", false: "read"}[a.Write], heldStr(a.Held)))
		}
		r.bad("R3", key, c.instrPos(acc[0].Instr), "the sleep buffer is accessed from the MQTT receive loop (append in the sender), the MQTT-SN receive loop (flush/clear) and timer callbacks (retransmissions) without a common lock: "+strings.Join(sites, "; "))
	} else {
		r.ok("R3", key, c.instrPos(acc[0].Instr), "every access holds "+heldStr(common))
	}
}

// checkBufferClears: stores to the buffer field that are not appends must be
// preceded, in the same function, by a loop handing the elements to the sender.
func (c *Ctx) checkBufferClears(r *Report, m *gwModel, btyp, bfield string) {
	bufCell := "f:" + btyp + "." + bfield
	n := 0
	for _, f := range c.repoFuncs("gateway") {
		allInstrs(f, func(i ssa.Instruction) {
			st, ok := i.(*ssa.Store)
			if !ok {
				return
			}
			fa, ok := st.Addr.(*ssa.FieldAddr)
			if !ok || fieldCell(fa) != bufCell || isFreshObject(fa.X) {
				return
			}
			if call, ok := st.Val.(*ssa.Call); ok {
				if b, isB := call.Call.Value.(*ssa.Builtin); isB && b.Name() == "append" {
					return
				}
			}
			n++
			key := fnKey(f) + ":buffer-clear"
			// flush: a send whose argument is an element of the buffer, in a loop, from which this store is reachable only after the loop
			var flushSend ssa.Instruction
			var flushElem *ssa.IndexAddr
			ordered := false
			allInstrs(f, func(j ssa.Instruction) {
				ci, ok := j.(ssa.CallInstruction)
				if !ok {
					return
				}
				g := staticCallee(ci.Common())
				if g == nil || !m.snSenders[g] {
					return
				}
				arg := packetArg(g, ci.Common())
				if u, ok := arg.(*ssa.UnOp); ok && u.Op == token.MUL {
					if ia, ok := u.X.(*ssa.IndexAddr); ok {
						os := c.origins(ia.X)
						if len(os) == 1 && os[0].PathStr() == bfield && inCycle(j.Block()) {
							flushSend = j
							flushElem = ia
							ordered = indexCountsUp(ia.Index)
						}
					}
				}
			})
			if flushSend == nil {
				r.bad("R2", key, c.instrPos(st), "the buffer is replaced without handing its elements to the sender first (queued packets are dropped)")
				return
			}
			if !ordered {
				r.bad("R2", key, c.instrPos(st), "buffered packets are not flushed in index order")
				return
			}
			// every iteration hands its element to the sender: no path from the element access to the next
			// iteration (or out of the loop) that avoids the send
			if hdr := loopHeaderOfIndex(flushElem.Index); hdr != nil {
				skip, _ := pathExists(f, flushElem, func(x ssa.Instruction) bool {
					return x.Block() == hdr || !blockInLoopOf(x.Block(), hdr)
				}, func(x ssa.Instruction) bool { return x == flushSend })
				if skip {
					r.bad("R2", key, c.instrPos(flushSend), "an iteration of the flush loop can go on to the next buffered packet (or leave the loop normally) without handing the current one to the sender: a buffered packet is dropped, not delivered at wake-up")
					return
				}
			} else {
				r.undecided("R2", key, c.instrPos(flushSend), "loop header of the flush loop not found")
				return
			}
			// every path from entry to the store passes the loop header of the flush
			if reach, _ := pathExists(f, nil, func(x ssa.Instruction) bool { return x == st }, func(x ssa.Instruction) bool { return x.Block() == flushSend.Block() }); reach && !flushLoopDominates(flushSend, st) {
				r.bad("R2", key, c.instrPos(st), "a path clears the buffer without going through the flush loop")
				return
			}
			r.ok("R2", key, c.instrPos(st), "buffer cleared only after a loop that hands element [i], i counting up from 0, to the sender")
		})
	}
	if n == 0 {
		r.undecided("R2", "buffer-clear", "-", "the buffer is never cleared: flushed packets would be delivered again at every wake-up")
	}
}

// flushLoopDominates: the loop containing the flush send has a header that
// dominates the store (the store comes after the loop on every path).
func flushLoopDominates(send, st ssa.Instruction) bool {
	for b := send.Block(); b != nil; b = b.Idom() {
		if b.Dominates(st.Block()) {
			return true
		}
	}
	return false
}

// indexCountsUp: idx is a phi(const -1|0, idx+1) style loop counter.
func indexCountsUp(idx ssa.Value) bool {
	// range loops: t = phi [-1, t+1]; idx = t + 1  -- or -- phi [0, idx+1]
	seen := map[ssa.Value]bool{}
	var isCounter func(v ssa.Value, d int) bool
	isCounter = func(v ssa.Value, d int) bool {
		if seen[v] || d > 4 {
			return false
		}
		seen[v] = true
		switch x := v.(type) {
		case *ssa.Phi:
			hasInit, hasInc := false, false
			for _, e := range x.Edges {
				if k, ok := constInt(e); ok && (k == 0 || k == -1) {
					hasInit = true
					continue
				}
				if b, ok := e.(*ssa.BinOp); ok && b.Op == token.ADD {
					if k, ok := constInt(b.Y); ok && k == 1 && (b.X == x || isViaPhi(b.X, x)) {
						hasInc = true
						continue
					}
				}
				return false
			}
			return hasInit && hasInc
		case *ssa.BinOp:
			if x.Op == token.ADD {
				if k, ok := constInt(x.Y); ok && k == 1 {
					return isCounter(x.X, d+1)
				}
			}
		}
		return false
	}
	return isCounter(idx, 0)
}

func isViaPhi(v, phi ssa.Value) bool { return v == phi }

func checkC12(c *Ctx, r *Report) {
	m, err := c.newGwModel()
	if err != nil {
		r.undecided("R0", "gateway-model", "-", err.Error())
		return
	}
	r.fn(m.snDisp)
	pos := c.pos(m.snDisp.Pos())
	// R1: PINGREQ forwarded in Active / Awake
	for _, st := range []int64{stActive, stAwake} {
		outs, _ := m.run(m.snDisp, map[string]aval{"state": kint(st), "type:sn": kstr("*packets1.Pingreq")})
		key := stateNames[st] + "/PINGREQ"
		okc := len(outs) > 0
		for _, o := range outs {
			if !hasEventPrefix(o, "mq:*mqtt.PingreqPacket") {
				okc = false
				r.bad("R1", key, pos, "client PINGREQ is not forwarded to the broker: "+strings.Join(o.Events, " ; "))
			}
		}
		if okc {
			r.ok("R1", key, pos, firstOutcome(outs))
		}
	}
	// R2: pinger armed iff duration > keep-alive
	kaCell := c.keepAliveCell()
	if kaCell == "" {
		r.undecided("R2", "keepalive-field", pos, "handler keep-alive field not found")
		return
	}
	const K = 10
	for _, st := range []int64{stActive, stAwake, stAsleep} {
		for _, d := range []int64{1, K - 1, K, K + 1, K + 2, K + K/2, K + K/2 + 1, 2 * K, 1000} {
			cells := map[string]aval{"state": kint(st), "type:sn": kstr("*packets1.Disconnect"), "f:packets1.Disconnect.Duration": kint(d), kaCell: kint(K)}
			outs, _ := m.run(m.snDisp, cells)
			key := fmt.Sprintf("%s/DISCONNECT(duration=%d,keepalive=%d)", stateNames[st], d, K)
			armedAll, armedAny := len(outs) > 0, false
			for _, o := range outs {
				a := hasEventPrefix(o, "group.Go(") || hasEventPrefix(o, "go ")
				armedAll = armedAll && a
				armedAny = armedAny || a
			}
			switch {
			case d > K && !armedAll:
				r.bad("R2", key, pos, "sleep longer than the keep-alive without a broker pinger on some path")
			case d > K:
				r.ok("R2", key, pos, "pinger started on every path")
			case armedAny:
				r.ok("R2", key, pos, "pinger started (duration <= keep-alive)")
			default:
				// duration <= keep-alive and no pinger: the wake-up PINGREQ must reach the broker instead
				r.add("R2", fmt.Sprintf("%s/short-sleep-unpinged", stateNames[st]), "pending", pos, "", true)
			}
		}
	}
	// short sleeps: wake-up PINGREQ forwarded?
	outs, _ := m.run(m.snDisp, map[string]aval{"state": kint(stAsleep), "type:sn": kstr("*packets1.Pingreq")})
	fwd := len(outs) > 0
	for _, o := range outs {
		if len(o.Ret) > 0 && o.Ret[len(o.Ret)-1] == "nil" && !hasEventPrefix(o, "mq:*mqtt.PingreqPacket") {
			fwd = false
		}
	}
	var keep []*Obligation
	seenPending := map[string]bool{}
	for _, o := range r.Obls {
		if o.Status == "pending" {
			if seenPending[o.Key] {
				continue
			}
			seenPending[o.Key] = true
			if fwd {
				o.Status = "discharged"
				o.Detail = "no pinger for sleeps <= keep-alive, but every wake-up PINGREQ is forwarded to the broker"
			} else {
				o.Status = "violation"
				o.Key = "sleep-not-covered"
				o.Detail = "sleep cycles with duration <= keep-alive (and every cycle after the first announced duration) have no broker pinger and the wake-up PINGREQ handled in state Asleep is not forwarded: the broker sees no packet for the whole sleep although the client wakes within every announced duration"
				if seenPending["\x00emitted"] {
					continue
				}
				seenPending["\x00emitted"] = true
			}
		}
		keep = append(keep, o)
	}
	r.Obls = keep
	// R4: the keep-alive the pinger uses is the one the broker was given: a CONNECT that is answered
	// locally (sleeping/awake client, no MQTT CONNECT) must not change the handler's keep-alive
	for _, st := range []int64{stAsleep, stAwake} {
		for _, k2 := range []int64{K - 5, K + 20} {
			cells := map[string]aval{"state": kint(st), "type:sn": kstr("*packets1.Connect"), "f:packets1.Connect.Duration": kint(k2), kaCell: kint(K),
				"f:packets1.Connect.ProtocolID": kint(1)}
			outs, _ := m.run(m.snDisp, cells)
			key := fmt.Sprintf("%s/CONNECT(duration=%d,keepalive=%d)", stateNames[st], k2, K)
			okc := len(outs) > 0
			detail := ""
			for _, o := range outs {
				local := hasEventPrefix(o, "sn:*packets1.Connack") && !hasEventPrefix(o, "mq:*mqtt.ConnectPacket") && !hasEventPrefix(o, "store.StoreByType")
				if local && !(o.Cells[kaCell].known && o.Cells[kaCell].i == K) {
					okc = false
					detail = "a CONNECT answered locally (no MQTT CONNECT reaches the broker) overwrites the handler's keep-alive with " + o.Cells[kaCell].String() + ": later sleeps are pinged (or not pinged) according to a keep-alive the broker was never given: " + strings.Join(o.Events, " ; ")
				}
			}
			if okc {
				r.ok("R4", key, pos, firstOutcome(outs))
			} else if detail == "" {
				r.undecided("R4", key, pos, "no outcome explored")
			} else {
				r.bad("R4", key, pos, detail)
			}
		}
	}
	// R2b: AfterFunc stop function and duration
	c.checkPingerStop(r, m)
	// R3: pinger body
	c.checkPingerBody(r, m, kaCell)
}

// keepAliveCell: handler field assigned from Connect.Duration.
func (c *Ctx) keepAliveCell() string {
	cell := ""
	for _, f := range c.repoFuncs("gateway") {
		allInstrs(f, func(i ssa.Instruction) {
			st, ok := i.(*ssa.Store)
			if !ok {
				return
			}
			fa, ok := st.Addr.(*ssa.FieldAddr)
			if !ok || !strings.HasPrefix(typeStr(derefType(fa.X.Type())), "gateway.") {
				return
			}
			if c.valueIsField(st.Val, pkPackets1, "Connect", "Duration") {
				cell = fieldCell(fa)
			}
		})
	}
	return cell
}

func (c *Ctx) checkPingerStop(r *Report, m *gwModel) {
	n := 0
	for _, f := range c.repoFuncs("gateway") {
		allInstrs(f, func(i ssa.Instruction) {
			ci, ok := i.(ssa.CallInstruction)
			if !ok || calleeName(ci.Common()) != "time.AfterFunc" {
				return
			}
			// only AfterFuncs in the function handling DISCONNECT(duration): arg0 derives from Disconnect.Duration
			dur := ci.Common().Args[0]
			if !c.derivesFromField(dur, pkPackets1, "Disconnect", "Duration") {
				return
			}
			n++
			r.fn(f)
			key := fnKey(f) + ":sleep-timer"
			// duration must be Duration * time.Second exactly
			if !c.isSecondsOf(dur, func(v ssa.Value) bool { return c.valueIsField(v, pkPackets1, "Disconnect", "Duration") }) {
				r.bad("R2", key, c.instrPos(i), "the pinger is not stopped after exactly the announced sleep duration (expected Duration*time.Second)")
				return
			}
			// function value: result of a same-package call that starts the pinger (group.Go inside)
			fv := ci.Common().Args[1]
			os := c.origins(fv)
			okc := len(os) == 1 && os[0].Kind == "call"
			if okc {
				call := os[0].Val.(*ssa.Call)
				g := staticCallee(&call.Call)
				okc = g != nil && fnPkgPath(g) == pkGateway && c.startsGoroutine(g) && call.Block().Dominates(i.Block())
			}
			// nothing disarms that timer: it is the only thing that ever stops the pinger, so a Stop (or Reset) on it
			// leaves a goroutine that pings the broker for ever - the session of a client that later vanishes is
			// kept alive by the gateway itself
			if okc {
				if tv, isVal := i.(ssa.Value); isVal && tv.Referrers() != nil {
					for _, u := range *tv.Referrers() {
						st, isStore := u.(*ssa.Store)
						if !isStore {
							continue
						}
						fa, isFA := st.Addr.(*ssa.FieldAddr)
						if !isFA {
							continue
						}
						cell := fieldCell(fa)
						for _, g := range c.repoFuncs("gateway") {
							allInstrs(g, func(j ssa.Instruction) {
								cj, ok := j.(ssa.CallInstruction)
								if !ok {
									return
								}
								nm := calleeName(cj.Common())
								if nm != "(*time.Timer).Stop" && nm != "(*time.Timer).Reset" {
									return
								}
								if u, ok := cj.Common().Args[0].(*ssa.UnOp); ok {
									if fa2, ok := u.X.(*ssa.FieldAddr); ok && fieldCell(fa2) == cell {
										okc = false
										r.bad("R2", key, c.instrPos(j), "the timer that stops the sleep pinger is itself disarmed here ("+nm+" in "+fnKey(g)+") and nothing else cancels the pinger: it goes on pinging the broker after the sleep has ended, for as long as the session exists - and the session of a vanished client then never ends, because the broker's keep-alive is fed by the gateway")
									}
								}
							})
						}
					}
				}
				if !okc {
					return
				}
			}
			if okc {
				r.ok("R2", key, c.instrPos(i), "timer stops the pinger started by the same DISCONNECT after Duration seconds")
			} else {
				r.bad("R2", key, c.instrPos(i), "the function scheduled after the sleep duration is not the stop function returned by the pinger start of this very DISCONNECT (a stale timer can stop a later sleep's pinger): "+exprStr(fv))
			}
		})
	}
	if n == 0 {
		r.undecided("R2", "sleep-timer", "-", "no timer derived from the announced sleep duration found")
	}
}

func (c *Ctx) startsGoroutine(g *ssa.Function) bool {
	found := false
	allInstrs(g, func(i ssa.Instruction) {
		if _, ok := i.(*ssa.Go); ok {
			found = true
		}
		if ci, ok := i.(ssa.CallInstruction); ok && calleeName(ci.Common()) == "(*golang.org/x/sync/errgroup.Group).Go" {
			found = true
		}
	})
	return found
}

// derivesFromField: some origin of v (through arithmetic) is T.path.
func (c *Ctx) derivesFromField(v ssa.Value, pkgpath, tname string, path ...string) bool {
	seen := map[ssa.Value]bool{}
	var rec func(v ssa.Value, d int) bool
	rec = func(v ssa.Value, d int) bool {
		if seen[v] || d > 6 {
			return false
		}
		seen[v] = true
		for _, o := range c.origins(v) {
			if originIsField(o, pkgpath, tname, path...) {
				return true
			}
			if o.Kind == "binop" {
				for _, a := range o.Args {
					if rec(a, d+1) {
						return true
					}
				}
			}
		}
		return false
	}
	return rec(v, 0)
}

// isSecondsOf: v == time.Duration(x) * time.Second with pred(x).
func (c *Ctx) isSecondsOf(v ssa.Value, pred func(ssa.Value) bool) bool {
	b, ok := v.(*ssa.BinOp)
	if !ok || b.Op != token.MUL {
		return false
	}
	x, y := b.X, b.Y
	if k, ok := constInt(x); ok && k == 1000000000 {
		x, y = y, x
	}
	if k, ok := constInt(y); !ok || k != 1000000000 {
		return false
	}
	for {
		if cv, ok := x.(*ssa.Convert); ok {
			x = cv.X
			continue
		}
		if cv, ok := x.(*ssa.ChangeType); ok {
			x = cv.X
			continue
		}
		break
	}
	return pred(x)
}

func (c *Ctx) checkPingerBody(r *Report, m *gwModel, kaCell string) {
	n := 0
	for _, f := range c.repoFuncs("gateway") {
		// goroutine body (closure passed to group.Go, or the method it forwards to) that sends an MQTT PINGREQ in a loop
		sendsPing := false
		var sendInstr ssa.Instruction
		allInstrs(f, func(i ssa.Instruction) {
			ci, ok := i.(ssa.CallInstruction)
			if !ok {
				return
			}
			g := staticCallee(ci.Common())
			if g != nil && m.mqSenders[g] && inCycle(i.Block()) {
				ts := c.concreteTypesOf(packetArg(g, ci.Common()))
				if len(ts) == 1 && ts[0] == "*mqtt.PingreqPacket" {
					sendsPing = true
					sendInstr = i
				}
			}
		})
		if !sendsPing {
			continue
		}
		n++
		r.fn(f)
		key := fnKey(f) + ":pinger"
		// time.After argument
		okDur, okCtx := false, false
		oneShotOutside := ""
		allInstrs(f, func(i ssa.Instruction) {
			if ci, ok := i.(ssa.CallInstruction); ok {
				nm := calleeName(ci.Common())
				oneShot := nm == "time.After" || nm == "time.NewTimer"
				periodic := nm == "time.NewTicker" || nm == "time.Tick"
				if (oneShot || periodic) && c.isSecondsOf(ci.Common().Args[0], func(v ssa.Value) bool {
					os := c.origins(v)
					return len(os) == 1 && (os[0].Kind == "param" || os[0].Kind == "freevar") && "f:"+typeStr(derefType(os[0].RootType()))+"."+os[0].PathStr() == kaCell
				}) {
					// a one-shot wait (time.After, NewTimer) has to be armed again in every iteration; armed once
					// before the loop it fires once and the pinger falls silent for the rest of the sleep
					if periodic || inCycle(i.Block()) {
						okDur = true
					} else {
						oneShotOutside = c.instrPos(i)
					}
				}
			}
			if sel, ok := i.(*ssa.Select); ok && sel.Blocking {
				for _, st := range sel.States {
					if st.Dir == types.RecvOnly && c.isContextDone(st.Chan) {
						okCtx = true
					}
				}
			}
		})
		// every tick pings: no path from the tick case back to the select avoids the send
		skip := ""
		allInstrs(f, func(i ssa.Instruction) {
			sel, ok := i.(*ssa.Select)
			if !ok || !sel.Blocking {
				return
			}
			for idx, st := range sel.States {
				call, ok := st.Chan.(*ssa.Call)
				if !ok || calleeName(&call.Call) != "time.After" {
					continue
				}
				for _, b := range selectCaseBlocks(sel, idx) {
					if len(b.Instrs) == 0 {
						continue
					}
					if found, _ := pathExists(f, b.Instrs[0], func(j ssa.Instruction) bool { return j == ssa.Instruction(sel) },
						func(j ssa.Instruction) bool { return j == sendInstr }); found {
						skip = "a keep-alive tick can return to the wait without sending PINGREQ (" + c.instrPos(b.Instrs[0]) + "): the gap between two packets to the broker can then reach two keep-alive periods"
					}
					if b.Instrs[0] == sendInstr {
						skip = ""
					}
				}
			}
		})
		if skip != "" {
			r.bad("R3", key+":every-tick", c.instrPos(sendInstr), skip)
		} else {
			r.ok("R3", key+":every-tick", c.instrPos(sendInstr), "every path from the tick case back to the wait passes the PINGREQ send")
		}
		if okDur && okCtx {
			r.ok("R3", key, c.instrPos(sendInstr), "loop: wait keep-alive seconds -> MQTT PINGREQ; exits on its context")
		} else {
			extra := ""
			if oneShotOutside != "" {
				extra = "; the keep-alive wait is a one-shot timer armed once outside the loop (" + oneShotOutside + "): it fires once, after that the pinger never pings again"
			}
			r.bad("R3", key, c.instrPos(sendInstr), fmt.Sprintf("sleep pinger: period is keep-alive seconds on every iteration: %v; exits on context: %v%s", okDur, okCtx, extra))
		}
	}
	if n == 0 {
		r.undecided("R3", "pinger", "-", "no goroutine sending MQTT PINGREQ periodically found")
	}
}

// isContextDone: v is the result of Done() on a context.Context.
func (c *Ctx) isContextDone(v ssa.Value) bool {
	call, ok := v.(*ssa.Call)
	if !ok {
		return false
	}
	cc := &call.Call
	if cc.IsInvoke() && cc.Method.Name() == "Done" && typeIs(cc.Value.Type(), "context", "Context") {
		return true
	}
	return false
}

// loopHeaderOfIndex: the block of the phi that carries a counting loop index.
func loopHeaderOfIndex(idx ssa.Value) *ssa.BasicBlock {
	for d := 0; d < 4 && idx != nil; d++ {
		switch x := idx.(type) {
		case *ssa.Phi:
			return x.Block()
		case *ssa.BinOp:
			if _, ok := x.Y.(*ssa.Const); ok {
				idx = x.X
			} else {
				idx = x.Y
			}
		case *ssa.Convert:
			idx = x.X
		default:
			return nil
		}
	}
	return nil
}

// blockInLoopOf: b is inside the natural loop(s) headed by hdr (hdr dominates b and hdr is reachable from b).
func blockInLoopOf(b, hdr *ssa.BasicBlock) bool {
	if !hdr.Dominates(b) {
		return false
	}
	seen := map[*ssa.BasicBlock]bool{}
	work := []*ssa.BasicBlock{b}
	for len(work) > 0 {
		x := work[len(work)-1]
		work = work[:len(work)-1]
		if x == hdr {
			return true
		}
		if seen[x] {
			continue
		}
		seen[x] = true
		work = append(work, x.Succs...)
	}
	return false
}
