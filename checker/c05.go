package main

import (
	"fmt"
	"go/token"
	"go/types"
	"strings"

	"golang.org/x/tools/go/ssa"
)

func init() {
	register("C05", func(r *Report) {
		r.Explanation = "Decides both clauses for all maps, client IDs and names (the arguments are value independent): (R1) GetTopicName explored for all 16 combinations of (client map present, client map has the ID, \"*\" map present, \"*\" map has the ID) - presence meaning the comma-ok result of the map lookups, entry values unconstrained (possibly empty) - returns the client-specific entry when it exists, otherwise the \"*\" entry, otherwise not-found; (R2) every 'found' return of GetTopicID returns a range key of a map whose range value was compared equal to the requested name, and that map is either the client's own map, or the \"*\" map under a failed comma-ok lookup of the same key in a map value that is (on every path) the client's own map t[clientID] - which together with R1 implies GetTopicName(clientID, id) == name. (R3) the users of the pair - every resolver site of gateway, client library and CLI tools - call these two functions directly with their own client ID (C32-R1/R2) and the gateway pairs IDs and names only from their results (C02-R2, C01-R2), so the consistency decided above is what the peers actually observe; the gateway's identity is replaced only by a CONNECT that starts a connect exchange (C32-R2) and reaches it unaltered: (RC) the CONNECT layout on both ends (C21/C22 for Connect). Not decided: YAML parsing."
		r.floor("R1", 16)
		r.floor("R2", 2)
	}, checkC05)
}

func (c *Ctx) topicsMethod(name string) *ssa.Function {
	p := c.ByPath[pkTopics]
	if p == nil {
		return nil
	}
	obj := p.Types.Scope().Lookup("PredefinedTopics")
	if obj == nil {
		return nil
	}
	sel := c.Prog.MethodSets.MethodSet(obj.Type()).Lookup(p.Types, name)
	if sel == nil {
		return nil
	}
	return c.Prog.MethodValue(sel)
}

// lookupClass classifies a map lookup inside a PredefinedTopics method:
// "outer:client", "outer:star", "inner:client", "inner:star", or "".
func lookupClass(l *ssa.Lookup, f *ssa.Function) string {
	if len(f.Params) < 2 {
		return ""
	}
	recv, clientID := f.Params[0], f.Params[1]
	keyClass := func(k ssa.Value) string {
		if k == ssa.Value(clientID) {
			return "client"
		}
		if s, ok := constString(k); ok && s == "*" {
			return "star"
		}
		return ""
	}
	if l.X == ssa.Value(recv) {
		if kc := keyClass(l.Index); kc != "" {
			return "outer:" + kc
		}
		return ""
	}
	// inner: the map is the value of an outer lookup (possibly via extract / phi)
	var outerOf func(v ssa.Value, d int) string
	outerOf = func(v ssa.Value, d int) string {
		if d > 5 {
			return ""
		}
		switch x := v.(type) {
		case *ssa.Extract:
			if ol, ok := x.Tuple.(*ssa.Lookup); ok && x.Index == 0 {
				if cl := lookupClass(ol, f); strings.HasPrefix(cl, "outer:") {
					return strings.TrimPrefix(cl, "outer:")
				}
			}
		case *ssa.Lookup:
			if cl := lookupClass(x, f); strings.HasPrefix(cl, "outer:") {
				return strings.TrimPrefix(cl, "outer:")
			}
		case *ssa.Phi:
			res := ""
			for _, e := range x.Edges {
				if cst, ok := e.(*ssa.Const); ok && cst.Value == nil {
					continue // nil map: lookups fail, same as an absent client map
				}
				o := outerOf(e, d+1)
				if o == "" || (res != "" && res != o) {
					return ""
				}
				res = o
			}
			return res
		}
		return ""
	}
	if o := outerOf(l.X, 0); o != "" {
		return "inner:" + o
	}
	return ""
}

func checkC05(c *Ctx, r *Report) {
	gtn, gti := c.topicsMethod("GetTopicName"), c.topicsMethod("GetTopicID")
	if gtn == nil || gti == nil {
		r.undecided("R0", "PredefinedTopics", "-", "GetTopicName / GetTopicID not found")
		return
	}
	r.fn(gtn)
	r.fn(gti)
	// R1
	for mask := 0; mask < 16; mask++ {
		hasClient, clientHas, hasStar, starHas := mask&1 != 0, mask&2 != 0, mask&4 != 0, mask&8 != 0
		present := map[string]bool{"outer:client": hasClient, "inner:client": hasClient && clientHas, "outer:star": hasStar, "inner:star": hasStar && starHas}
		e := &explorer{c: c, MaxDepth: 2}
		e.Inline = func(*ssa.Function) bool { return false }
		unknownLookup := ""
		e.ValueHook = func(v ssa.Value, ex *explorer, st *pstate, fr *frame) (aval, bool) {
			switch x := v.(type) {
			case *ssa.Extract:
				l, ok := x.Tuple.(*ssa.Lookup)
				if !ok {
					return aval{}, false
				}
				cl := lookupClass(l, gtn)
				if cl == "" {
					unknownLookup = exprStr(l)
					return aval{}, false
				}
				if x.Index == 1 {
					return kbool(present[cl]), true
				}
				if strings.HasPrefix(cl, "inner:") && present[cl] {
					return kstr("name:" + strings.TrimPrefix(cl, "inner:")), true
				}
				return aval{}, false
			case *ssa.Lookup:
				if x.CommaOk {
					return aval{}, false
				}
				cl := lookupClass(x, gtn)
				if cl == "" {
					unknownLookup = exprStr(x)
				}
				// value of an entry: unconstrained (may be the empty string)
				return aval{}, false
			}
			return aval{}, false
		}
		outs := e.Explore(gtn, nil, nil)
		key := fmt.Sprintf("GetTopicName[client-map=%v,client-has-id=%v,star-map=%v,star-has-id=%v]", hasClient, clientHas, hasStar, starHas)
		want := "\"\",0"
		if hasClient && clientHas {
			want = "name:client,1"
		} else if hasStar && starHas {
			want = "name:star,1"
		}
		okc := len(outs) > 0 && unknownLookup == ""
		got := []string{}
		for _, o := range outs {
			g := strings.Join(o.Ret, ",")
			got = append(got, g)
			if g != want {
				okc = false
			}
		}
		if okc {
			r.ok("R1", key, c.pos(gtn.Pos()), "returns ("+want+") on every path")
		} else if unknownLookup != "" {
			r.undecided("R1", key, c.pos(gtn.Pos()), "map lookup not understood: "+unknownLookup)
		} else {
			r.bad("R1", key, c.pos(gtn.Pos()), fmt.Sprintf("GetTopicName can return %v, specified (%s) - the client-specific entry must win whenever it exists (also when its name is empty), then the \"*\" entry", got, want))
		}
	}
	// R2
	nFound := 0
	allInstrs(gti, func(i ssa.Instruction) {
		ret, ok := i.(*ssa.Return)
		if !ok || len(ret.Results) != 2 {
			return
		}
		if b, ok := constBool(ret.Results[1]); !ok || !b {
			if _, isConst := ret.Results[1].(*ssa.Const); isConst {
				return
			}
			r.undecided("R2", "GetTopicID:found-flag", c.instrPos(i), "the found result is not a constant")
			return
		}
		nFound++
		id := ret.Results[0]
		ex, ok := id.(*ssa.Extract)
		var next *ssa.Next
		if ok {
			next, _ = ex.Tuple.(*ssa.Next)
		}
		key := fmt.Sprintf("GetTopicID:return#%d", nFound)
		if next == nil || ex.Index != 1 {
			r.bad("R2", key, c.instrPos(i), "the returned ID is not the key of a ranged map: "+exprStr(id))
			return
		}
		rng, _ := next.Iter.(*ssa.Range)
		if rng == nil {
			r.undecided("R2", key, c.instrPos(i), "range not understood")
			return
		}
		// value == topic guard
		gs := guardsOf(i.Block())
		eqOK := false
		for _, g := range gs {
			x, y, op, isCmp := cmpGuard(g)
			if !isCmp || op != token.EQL {
				continue
			}
			isVal := func(v ssa.Value) bool {
				e2, ok := v.(*ssa.Extract)
				return ok && e2.Tuple == ssa.Value(next) && e2.Index == 2
			}
			isTopic := func(v ssa.Value) bool { return len(gti.Params) > 2 && v == ssa.Value(gti.Params[2]) }
			if (isVal(x) && isTopic(y)) || (isVal(y) && isTopic(x)) {
				eqOK = true
			}
		}
		if !eqOK {
			r.bad("R2", key, c.instrPos(i), "an ID is returned without its map value having been compared equal to the requested name")
			return
		}
		src := mapSourceClass(rng.X, gti)
		switch src {
		case "client":
			r.ok("R2", key, c.instrPos(i), "key of the client's own map whose value equals the name: GetTopicName(client, id) returns it by R1")
		case "star":
			// need: failed comma-ok lookup of the same key in the client's own map
			shadowOK := false
			why := "no failed lookup of the ID in the client's own map on the path"
			for _, g := range gs {
				if g.Truth {
					continue
				}
				e2, ok := g.Cond.(*ssa.Extract)
				if !ok || e2.Index != 1 {
					continue
				}
				l, ok := e2.Tuple.(*ssa.Lookup)
				if !ok || l.Index != ssa.Value(ex) && !sameExpr(l.Index, ex) {
					continue
				}
				if mapSourceClass(l.X, gti) == "client" {
					shadowOK = true
				} else {
					why = "the shadowing test looks the ID up in " + exprStr(l.X) + ", which is not (on every path) the client's own map t[clientID]"
				}
			}
			if shadowOK {
				r.ok("R2", key, c.instrPos(i), "key of the \"*\" map with matching value, and the client's own map has no entry for that ID (failed comma-ok lookup): GetTopicName falls through to \"*\" by R1")
			} else {
				r.bad("R2", key, c.instrPos(i), "a \"*\" topic ID is returned although the client's own map may redefine it: "+why)
			}
		default:
			r.undecided("R2", key, c.instrPos(i), "ranged map is neither t[clientID] nor t[\"*\"]: "+exprStr(rng.X))
		}
	})
	if nFound == 0 {
		r.undecided("R2", "GetTopicID:found-returns", c.pos(gti.Pos()), "no 'found' return in GetTopicID")
	}
	// R3: the users of the lookup pair consult it directly and with one identity - consistency of the two
	// functions is worth nothing if a caller answers from somewhere else (a cache, another client's ID)
	tmp := newReport("C32")
	tmp.configActive = r.configActive
	checkC32Sites(c, tmp)
	for _, o := range tmp.Obls {
		o2 := *o
		o2.Key = "C32/" + strings.TrimPrefix(o.Rule, "C32-") + ":" + o.Key
		o2.Rule = "C05-R3"
		r.Obls = append(r.Obls, &o2)
	}
	for f := range tmp.Funcs {
		r.Funcs[f] = true
	}
	importRules(c, r, "C02", map[string]string{"R2": "R3"})
	importRules(c, r, "C01", map[string]string{"R2": "R3"})
}

// mapSourceClass: v is (on every path) the value of t[clientID] ("client") or
// of t["*"] ("star"); nil constants are allowed only for "client" (a nil map
// behaves like an absent client map) when at least one edge is the real lookup.
func mapSourceClass(v ssa.Value, f *ssa.Function) string {
	seen := map[ssa.Value]bool{}
	real := false
	res := ""
	bad := false
	var rec func(v ssa.Value, d int)
	rec = func(v ssa.Value, d int) {
		if seen[v] || d > 6 {
			return
		}
		seen[v] = true
		switch x := v.(type) {
		case *ssa.Extract:
			if l, ok := x.Tuple.(*ssa.Lookup); ok && x.Index == 0 {
				cl := lookupClass(l, f)
				if strings.HasPrefix(cl, "outer:") {
					k := strings.TrimPrefix(cl, "outer:")
					if res != "" && res != k {
						bad = true
					}
					res = k
					real = true
					return
				}
			}
			bad = true
		case *ssa.Lookup:
			cl := lookupClass(x, f)
			if strings.HasPrefix(cl, "outer:") {
				k := strings.TrimPrefix(cl, "outer:")
				if res != "" && res != k {
					bad = true
				}
				res = k
				real = true
				return
			}
			bad = true
		case *ssa.Phi:
			for _, e := range x.Edges {
				rec(e, d+1)
			}
		case *ssa.Const:
			if x.Value != nil {
				bad = true
			}
		case *ssa.UnOp:
			if x.Op == token.MUL {
				if a, ok := x.X.(*ssa.Alloc); ok {
					n := 0
					if refs := a.Referrers(); refs != nil {
						for _, rf := range *refs {
							if s, ok := rf.(*ssa.Store); ok && s.Addr == a {
								n++
								rec(s.Val, d+1)
							}
						}
					}
					if n == 0 {
						return // never assigned: nil map
					}
					return
				}
			}
			bad = true
		default:
			bad = true
		}
	}
	rec(v, 0)
	if bad || !real {
		return ""
	}
	_ = types.Typ
	return res
}
