package main

import (
	"fmt"
	"go/types"
	"sort"
	"strings"

	"golang.org/x/tools/go/ssa"
)

// Shared-pointer analysis (C15-R2, references held by the shared configuration).
//
// The configuration structs are built once and handed to every session. A
// pointer (or interface) stored in one of their fields is therefore one object
// for all sessions. The rule: no repository code writes through such a
// reference - not directly, not after copying it into a per-session struct,
// not inside a method called on it - in any function reachable (call graph) from the
// goroutine started per accepted connection; start-up code that completes the
// configuration before the first session exists is not session code. Taint is propagated flow- and
// context-insensitively over all repository functions (phi, conversions, stores
// into variables and struct fields, arguments of statically resolved calls,
// closure bindings, results); a Store whose address is the tainted pointer, a
// field or element of it, or a sync/atomic call on such an address is the
// violation. Calls into other modules and interface method calls are assumed
// not to modify their arguments (net.DialTCP(addr), tls configuration).
func isRefLike(t types.Type) bool {
	switch t.Underlying().(type) {
	case *types.Pointer, *types.Interface:
		return true
	}
	return false
}

func (c *Ctx) checkSharedPointers(r *Report, rule string) {
	shared := c.sharedConfigTypes()
	funcs := c.allRepoFuncs()
	val := map[ssa.Value]string{}      // tainted value -> seed it came from
	fieldT := map[string]string{}      // tainted struct field cell -> seed
	allocT := map[*ssa.Alloc]string{}  // tainted local variable -> seed
	retT := map[*ssa.Function]string{} // functions returning a tainted reference
	changed := true
	set := func(v ssa.Value, seed string) {
		if seed == "" || v == nil || !isRefLike(v.Type()) {
			return
		}
		if _, ok := val[v]; !ok {
			val[v] = seed
			changed = true
		}
	}
	kind := func(v ssa.Value) string {
		if s, ok := val[v]; ok {
			return s
		}
		if u, ok := v.(*ssa.UnOp); ok {
			switch x := u.X.(type) {
			case *ssa.Alloc:
				return allocT[x]
			case *ssa.FieldAddr:
				return fieldT[fieldCell(x)]
			}
		}
		return ""
	}
	// seeds: reference-typed fields of the shared configuration types
	nSeeds := 0
	seedFields := map[string]bool{}
	for tname := range shared {
		parts := strings.SplitN(tname, ".", 2)
		p := c.ByPath[modPath+"/"+parts[0]]
		if p == nil || len(parts) != 2 {
			continue
		}
		tn, _ := p.Types.Scope().Lookup(parts[1]).(*types.TypeName)
		if tn == nil {
			continue
		}
		st, _ := tn.Type().Underlying().(*types.Struct)
		if st == nil {
			continue
		}
		for k := 0; k < st.NumFields(); k++ {
			if isRefLike(st.Field(k).Type()) {
				cell := "f:" + tname + "." + st.Field(k).Name()
				fieldT[cell] = tname + "." + st.Field(k).Name()
				seedFields[cell] = true
				nSeeds++
			}
		}
	}
	if nSeeds == 0 {
		r.ok(rule, "shared-config:references", "-", "the shared configuration structs hold no pointer or interface")
		return
	}
	for iter := 0; iter < 40 && changed; iter++ {
		changed = false
		for _, f := range funcs {
			allInstrs(f, func(i ssa.Instruction) {
				switch x := i.(type) {
				case *ssa.UnOp:
					set(x, kind(x))
				case *ssa.Phi:
					for _, e := range x.Edges {
						set(x, kind(e))
					}
				case *ssa.ChangeType:
					set(x, kind(x.X))
				case *ssa.MakeInterface:
					set(x, kind(x.X))
				case *ssa.ChangeInterface:
					set(x, kind(x.X))
				case *ssa.TypeAssert:
					if !x.CommaOk {
						set(x, kind(x.X))
					}
				case *ssa.Store:
					k := kind(x.Val)
					if k == "" {
						return
					}
					switch ad := x.Addr.(type) {
					case *ssa.Alloc:
						if allocT[ad] == "" {
							allocT[ad] = k
							changed = true
						}
					case *ssa.FieldAddr:
						if fc := fieldCell(ad); fieldT[fc] == "" {
							fieldT[fc] = k
							changed = true
						}
					}
				case *ssa.MakeClosure:
					if fn, ok := x.Fn.(*ssa.Function); ok {
						for bi, b := range x.Bindings {
							if k := kind(b); k != "" && bi < len(fn.FreeVars) {
								set(fn.FreeVars[bi], k)
							}
							// a captured variable (pointer to the local) that holds a tainted reference
							if al, ok := b.(*ssa.Alloc); ok && allocT[al] != "" && bi < len(fn.FreeVars) {
								fv := fn.FreeVars[bi]
								allInstrs(fn, func(j ssa.Instruction) {
									if u, ok := j.(*ssa.UnOp); ok && u.X == ssa.Value(fv) {
										set(u, allocT[al])
									}
								})
							}
						}
					}
				case ssa.CallInstruction:
					cc := x.Common()
					g := staticCallee(cc)
					if g == nil || g.Blocks == nil || !strings.HasPrefix(fnPkgPath(g), modPath) {
						return
					}
					args := cc.Args
					for ai, a := range args {
						if k := kind(a); k != "" && ai < len(g.Params) {
							set(g.Params[ai], k)
						}
					}
					if v, ok := i.(ssa.Value); ok && retT[g] != "" {
						set(v, retT[g])
					}
				case *ssa.Return:
					for _, rv := range x.Results {
						if k := kind(rv); k != "" && retT[f] == "" {
							retT[f] = k
							changed = true
						}
					}
				}
			})
		}
	}
	// session code: everything reachable in the call graph from the goroutine started per accepted connection
	session := map[*ssa.Function]bool{}
	{
		cg := c.CG()
		var work []*ssa.Function
		for _, f := range c.repoFuncs("gateway") {
			allInstrs(f, func(i ssa.Instruction) {
				if g, ok := i.(*ssa.Go); ok && inCycle(i.Block()) {
					if callee := staticCallee(g.Common()); callee != nil {
						work = append(work, callee)
					}
				}
			})
		}
		for len(work) > 0 {
			f := work[len(work)-1]
			work = work[:len(work)-1]
			if session[f] {
				continue
			}
			session[f] = true
			for _, an := range f.AnonFuncs {
				work = append(work, an)
			}
			if n := cg.Nodes[f]; n != nil {
				for _, e := range n.Out {
					if e.Callee != nil && e.Callee.Func != nil && strings.HasPrefix(fnPkgPath(e.Callee.Func), modPath) {
						work = append(work, e.Callee.Func)
					}
				}
			}
		}
	}
	if len(session) == 0 {
		r.undecided(rule, "shared-config:session-code", "-", "no goroutine started per accepted connection found")
		return
	}
	// violations
	type viol struct{ pos, what, seed string }
	var viols []viol
	nChecked := 0
	derived := func(addr ssa.Value) string {
		for d := 0; d < 4 && addr != nil; d++ {
			if k := kind(addr); k != "" {
				return k
			}
			switch a := addr.(type) {
			case *ssa.FieldAddr:
				addr = a.X
			case *ssa.IndexAddr:
				addr = a.X
			default:
				return ""
			}
		}
		return ""
	}
	for _, f := range funcs {
		if !session[f] {
			continue // start-up code (before the first session exists) may still complete the configuration
		}
		allInstrs(f, func(i ssa.Instruction) {
			switch x := i.(type) {
			case *ssa.Store:
				nChecked++
				if k := derived(x.Addr); k != "" {
					// storing INTO the shared pointer's target. (A store whose address is a field of a per-session struct
					// and whose value is tainted is a copy of the reference, not a write through it.)
					if fa, ok := x.Addr.(*ssa.FieldAddr); ok && kind(fa.X) == "" {
						if _, isAl := x.Addr.(*ssa.Alloc); !isAl && derived(fa.X) == "" {
							return
						}
					}
					viols = append(viols, viol{c.instrPos(i), fnKey(f) + " writes " + exprStr(x.Addr), k})
				}
			case ssa.CallInstruction:
				cc := x.Common()
				if n := calleeName(cc); strings.HasPrefix(n, "sync/atomic.") && !strings.Contains(n, ".Load") && len(cc.Args) > 0 {
					if k := derived(cc.Args[0]); k != "" {
						viols = append(viols, viol{c.instrPos(i), fnKey(f) + " calls " + n, k})
					}
				}
			}
		})
	}
	// value fields of the shared configuration that are containers with mutating methods (sync.Map, atomic values,
	// embedded repository structs): a session calling a mutator on the field's address writes shared state
	nContainer := 0
	var containerBad []string
	for _, f := range funcs {
		if !session[f] {
			continue
		}
		allInstrs(f, func(i ssa.Instruction) {
			ci, ok := i.(ssa.CallInstruction)
			if !ok || ci.Common().IsInvoke() || len(ci.Common().Args) == 0 {
				return
			}
			fa, ok := ci.Common().Args[0].(*ssa.FieldAddr)
			if !ok {
				return
			}
			nt := namedOf(derefType(fa.X.Type()))
			if nt == nil || nt.Obj().Pkg() == nil {
				return
			}
			tname := strings.TrimPrefix(nt.Obj().Pkg().Path(), modPath+"/") + "." + nt.Obj().Name()
			if !shared[tname] {
				return
			}
			nContainer++
			nm := calleeName(ci.Common())
			mut := false
			switch {
			case strings.HasPrefix(nm, "(*sync.Map)."):
				switch strings.TrimPrefix(nm, "(*sync.Map).") {
				case "Store", "LoadOrStore", "LoadAndDelete", "Delete", "Swap", "CompareAndSwap", "CompareAndDelete", "Clear":
					mut = true
				}
			case strings.HasPrefix(nm, "sync/atomic.") || strings.HasPrefix(nm, "(*sync/atomic."):
				mut = !strings.Contains(nm, "Load")
			case strings.HasPrefix(nm, "(*sync.Mutex).") || strings.HasPrefix(nm, "(*sync.RWMutex).") || strings.HasPrefix(nm, "(*sync.Once)."):
			default:
				if g := staticCallee(ci.Common()); g != nil && strings.HasPrefix(fnPkgPath(g), modPath) && g.Blocks != nil {
					// a repository method on the field: mutating if it stores through its receiver
					allInstrs(g, func(j ssa.Instruction) {
						if st, ok := j.(*ssa.Store); ok {
							if fa2, ok := st.Addr.(*ssa.FieldAddr); ok && len(g.Params) > 0 && fa2.X == ssa.Value(g.Params[0]) {
								mut = true
							}
						}
					})
				}
			}
			if mut {
				containerBad = append(containerBad, c.instrPos(i)+": "+fnKey(f)+" calls "+nm+" on "+tname+"."+fieldName(fa.X.Type(), fa.Field))
			}
		})
	}
	sort.Strings(containerBad)
	r.cond(len(containerBad) == 0, rule, "shared-config:value-fields:never-mutated-by-sessions", "-", fmt.Sprintf("no mutating method is called on a field of the shared configuration structs in session code (%d method calls on such fields examined)", nContainer),
		"a session modifies a container that lives in the configuration struct shared by ALL sessions ("+strings.Join(containerBad, "; ")+"): what one client's session stores there (a cache entry, a counter) changes what another client's session sends or accepts")
	sort.Slice(viols, func(a, b int) bool { return viols[a].pos < viols[b].pos })
	bySeed := map[string][]string{}
	for _, v := range viols {
		bySeed[v.seed] = append(bySeed[v.seed], v.pos+": "+v.what)
	}
	for cell := range seedFields {
		seed := fieldT[cell]
		key := "shared-reference:" + seed + ":never-written-through"
		if vs := bySeed[seed]; len(vs) > 0 {
			r.bad(rule, key, strings.SplitN(vs[0], ": ", 2)[0], "the object the shared configuration field "+seed+" points to is one object for ALL sessions, and it is modified: "+strings.Join(vs, "; ")+" - what one client's session does changes what another session sends or accepts")
		} else {
			r.ok(rule, key, "-", fmt.Sprintf("no store or atomic update through this reference or any copy of it in session code (%d tainted values, %d session functions, %d stores examined)", len(val), len(session), nChecked))
		}
	}
}
