package main

import (
	"fmt"
	"go/types"

	"golang.org/x/tools/go/ssa"
)

// Shared-map alias analysis (C15-R2, interprocedural part).
//
// The predefined-topics mapping is handed to every session; its outer map and
// every inner map[uint16]string are shared. A session must never write to any
// of them - also not through an alias that was copied into a map that looks
// fresh ("result[id] = shared[id]" stores the shared inner map itself).
//
// Kinds of map-typed SSA values:
//
//	S  is (or may alias) the shared outer map or one of its inner maps
//	C  a container that holds S values (a fresh outer map into which a shared
//	   inner map was stored); looking a key up in it may yield an S map
//
// Seeds: every value of type topics.PredefinedTopics that occurs in package
// gateway (fields, parameters, call results): the gateway never owns such a
// map, it is always the configured one. Propagation is flow- and
// context-insensitive over all repository functions to a fixpoint; a
// MapUpdate or delete whose map operand is S is the violation.
type aliasKind uint8

const (
	akNone aliasKind = iota
	akC
	akS
)

func joinKind(a, b aliasKind) aliasKind {
	if b > a {
		return b
	}
	return a
}

type aliasState struct {
	c       *Ctx
	val     map[ssa.Value]aliasKind
	alloc   map[*ssa.Alloc]aliasKind
	field   map[string]aliasKind
	ret     map[*ssa.Function]aliasKind
	changed bool
}

func isMapLike(t types.Type) bool {
	switch u := t.Underlying().(type) {
	case *types.Map:
		return true
	case *types.Tuple:
		for i := 0; i < u.Len(); i++ {
			if isMapLike(u.At(i).Type()) {
				return true
			}
		}
	case *types.Interface:
		return true
	}
	return false
}

func (a *aliasState) set(v ssa.Value, k aliasKind) {
	if k == akNone || v == nil || !isMapLike(v.Type()) {
		return
	}
	if a.val[v] < k {
		a.val[v] = k
		a.changed = true
	}
	// a load of a variable / field: the variable holds it too
	if u, ok := v.(*ssa.UnOp); ok {
		switch x := u.X.(type) {
		case *ssa.Alloc:
			if a.alloc[x] < k {
				a.alloc[x] = k
				a.changed = true
			}
		case *ssa.FieldAddr:
			fk := fieldCell(x)
			if a.field[fk] < k {
				a.field[fk] = k
				a.changed = true
			}
		}
	}
}

func (a *aliasState) kind(v ssa.Value) aliasKind {
	k := a.val[v]
	if u, ok := v.(*ssa.UnOp); ok {
		switch x := u.X.(type) {
		case *ssa.Alloc:
			k = joinKind(k, a.alloc[x])
		case *ssa.FieldAddr:
			k = joinKind(k, a.field[fieldCell(x)])
		case *ssa.FreeVar:
			k = joinKind(k, a.val[x])
		}
	}
	return k
}

func (c *Ctx) checkSharedMapAliases(r *Report, rule string) {
	a := &aliasState{c: c, val: map[ssa.Value]aliasKind{}, alloc: map[*ssa.Alloc]aliasKind{}, field: map[string]aliasKind{}, ret: map[*ssa.Function]aliasKind{}}
	funcs := c.allRepoFuncs()
	// seeds
	nSeeds := 0
	for _, f := range c.repoFuncs("gateway") {
		for _, p := range f.Params {
			if typeIs(p.Type(), pkTopics, "PredefinedTopics") {
				a.val[p] = akS
				nSeeds++
			}
		}
		allInstrs(f, func(i ssa.Instruction) {
			if v, ok := i.(ssa.Value); ok && typeIs(v.Type(), pkTopics, "PredefinedTopics") {
				a.val[v] = akS
				nSeeds++
			}
		})
	}
	if nSeeds == 0 {
		r.undecided(rule, "shared-map-aliases", "-", "no value of type topics.PredefinedTopics found in package gateway")
		return
	}
	callersOf := map[*ssa.Function][]ssa.CallInstruction{}
	for _, f := range funcs {
		allInstrs(f, func(i ssa.Instruction) {
			if ci, ok := i.(ssa.CallInstruction); ok {
				if g := staticCallee(ci.Common()); g != nil {
					callersOf[g] = append(callersOf[g], ci)
				}
			}
		})
	}
	for iter := 0; iter < 40; iter++ {
		a.changed = false
		for _, f := range funcs {
			allInstrs(f, func(i ssa.Instruction) {
				switch x := i.(type) {
				case *ssa.Lookup:
					if a.kind(x.X) != akNone {
						a.set(x, akS)
					}
				case *ssa.Extract:
					a.set(x, a.kind(x.Tuple))
				case *ssa.Range:
					// the iterator carries the kind of the ranged map
					if k := a.kind(x.X); k != akNone && a.val[x] < k {
						a.val[x] = k
						a.changed = true
					}
				case *ssa.Next:
					if a.val[x.Iter] != akNone {
						a.set(x, akS)
					}
				case *ssa.Phi:
					for _, e := range x.Edges {
						a.set(x, a.kind(e))
					}
				case *ssa.ChangeType:
					a.set(x, a.kind(x.X))
				case *ssa.Convert:
					a.set(x, a.kind(x.X))
				case *ssa.MakeInterface:
					a.set(x, a.kind(x.X))
				case *ssa.ChangeInterface:
					a.set(x, a.kind(x.X))
				case *ssa.TypeAssert:
					a.set(x, a.kind(x.X))
				case *ssa.UnOp:
					a.set(x, a.kind(x))
				case *ssa.Store:
					k := a.kind(x.Val)
					if k == akNone {
						return
					}
					switch ad := x.Addr.(type) {
					case *ssa.Alloc:
						if a.alloc[ad] < k {
							a.alloc[ad] = k
							a.changed = true
						}
					case *ssa.FieldAddr:
						fk := fieldCell(ad)
						if a.field[fk] < k {
							a.field[fk] = k
							a.changed = true
						}
					}
				case *ssa.MapUpdate:
					if a.kind(x.Value) != akNone && a.kind(x.Map) == akNone {
						a.set(x.Map, akC)
						// a parameter that becomes a container: so do the actual arguments
						if p, ok := x.Map.(*ssa.Parameter); ok {
							idx := paramIndex(f, p)
							for _, cs := range callersOf[f] {
								if args := cs.Common().Args; idx >= 0 && idx < len(args) {
									a.set(args[idx], akC)
								}
							}
						}
					}
				case *ssa.MakeClosure:
					fn := x.Fn.(*ssa.Function)
					for bi, b := range x.Bindings {
						if k := a.kind(b); k != akNone && bi < len(fn.FreeVars) {
							if al, ok := b.(*ssa.Alloc); ok {
								k = joinKind(k, a.alloc[al])
							}
							if a.val[fn.FreeVars[bi]] < k {
								a.val[fn.FreeVars[bi]] = k
								a.changed = true
							}
						}
					}
				case *ssa.Return:
					for _, res := range x.Results {
						if k := a.kind(res); k != akNone && a.ret[f] < k {
							a.ret[f] = k
							a.changed = true
						}
					}
				}
				if ci, ok := i.(ssa.CallInstruction); ok {
					g := staticCallee(ci.Common())
					if g == nil || g.Blocks == nil {
						return
					}
					for ai, arg := range ci.Common().Args {
						if k := a.kind(arg); k != akNone && ai < len(g.Params) {
							a.set(g.Params[ai], k)
						}
					}
					if v, ok := i.(ssa.Value); ok {
						a.set(v, a.ret[g])
					}
				}
			})
		}
		if !a.changed {
			break
		}
	}
	// violations
	n := 0
	for _, f := range funcs {
		allInstrs(f, func(i ssa.Instruction) {
			var m ssa.Value
			what := ""
			switch x := i.(type) {
			case *ssa.MapUpdate:
				m, what = x.Map, "assigns an entry of"
			case ssa.CallInstruction:
				if b, ok := x.Common().Value.(*ssa.Builtin); ok && b.Name() == "delete" {
					m, what = x.Common().Args[0], "deletes from"
				}
			}
			if m == nil || a.kind(m) != akS {
				return
			}
			n++
			r.fn(f)
			r.bad(rule, fmt.Sprintf("%s:write-through-alias(%s)", fnKey(f), exprStr(m)), c.instrPos(i),
				fnKey(f)+" "+what+" a map that is, or may alias, the predefined-topics mapping (or one of its per-client inner maps) shared by all sessions: a session reaches it from the handler's configured mapping, so what one client's session writes becomes visible in every other session")
		})
	}
	if n == 0 {
		r.ok(rule, "shared-map-aliases", "-", fmt.Sprintf("no map write reachable from the sessions' predefined-topics mapping through parameters, results, fields, lookups, ranges or containers it was copied into (%d seed values)", nSeeds))
	}
}
