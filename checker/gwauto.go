package main

import (
	"fmt"
	"go/token"
	"go/types"
	"sort"
	"strings"

	"golang.org/x/tools/go/ssa"
)

// Gateway session automaton extraction (DESIGN "Session state machine
// extraction"): the SN dispatcher and the MQTT dispatcher are explored for
// every (session state, trigger packet type, flag valuation).

const (
	stDisconnected = 0
	stActive       = 1
	stAsleep       = 2
	stAwake        = 3
)

var stateNames = map[int64]string{0: "Disconnected", 1: "Active", 2: "Asleep", 3: "Awake"}

type gwModel struct {
	c          *Ctx
	snDisp     *ssa.Function
	mqDisp     *ssa.Function
	snSenders  map[*ssa.Function]bool
	mqSenders  map[*ssa.Function]bool
	snTypes    []string // concrete packet types decoded by ReadPacket
	snHandled  []string // types with a case in the SN dispatcher
	mqHandled  []string
	stateConst map[string]int64
}

// dispatcherOf finds the function of package rel that type-switches over a
// parameter of the given interface type with the most cases.
func (c *Ctx) dispatcherOf(rel, ipkg, iname string) (*ssa.Function, []string) {
	var best *ssa.Function
	var bestTypes []string
	for _, f := range c.repoFuncs(rel) {
		for _, p := range f.Params {
			if !typeIs(p.Type(), ipkg, iname) {
				continue
			}
			if _, ok := p.Type().Underlying().(*types.Interface); !ok {
				continue
			}
			set := map[string]bool{}
			allInstrs(f, func(i ssa.Instruction) {
				if ta, ok := i.(*ssa.TypeAssert); ok && ta.X == p && ta.CommaOk {
					set[typeStr(ta.AssertedType)] = true
				}
			})
			if len(set) > len(bestTypes) {
				best = f
				bestTypes = sortedKeys(set)
			}
		}
	}
	return best, bestTypes
}

// decodedTypes lists the concrete types NewPacketWithHeader can return.
func (c *Ctx) decodedTypes() []string {
	p := c.SSA[pkPackets1]
	if p == nil {
		return nil
	}
	f := p.Func("NewPacketWithHeader")
	if f == nil {
		return nil
	}
	set := map[string]bool{}
	allInstrs(f, func(i ssa.Instruction) {
		if mi, ok := i.(*ssa.MakeInterface); ok && typeIs(mi.Type(), pkPackets, "Packet") {
			set[typeStr(mi.X.Type())] = true
		}
	})
	return sortedKeys(set)
}

func (c *Ctx) newGwModel() (*gwModel, error) {
	m := &gwModel{c: c}
	m.snSenders = c.snSenders("gateway")
	m.mqSenders = c.mqttSenders("gateway")
	if len(m.snSenders) == 0 || len(m.mqSenders) == 0 {
		return nil, fmt.Errorf("sender roles not found (sn=%d mq=%d)", len(m.snSenders), len(m.mqSenders))
	}
	m.snDisp, m.snHandled = c.dispatcherOf("gateway", pkPackets, "Packet")
	m.mqDisp, m.mqHandled = c.dispatcherOf("gateway", pahoPkts, "ControlPacket")
	if m.snDisp == nil || len(m.snHandled) < 8 {
		return nil, fmt.Errorf("MQTT-SN dispatcher not found")
	}
	if m.mqDisp == nil || len(m.mqHandled) < 5 {
		return nil, fmt.Errorf("MQTT dispatcher not found")
	}
	m.snTypes = c.decodedTypes()
	if len(m.snTypes) < 20 {
		return nil, fmt.Errorf("decoded packet types not found")
	}
	return m, nil
}

// fieldCell names the cell for a load of a struct field.
func fieldCell(fa *ssa.FieldAddr) string {
	return "f:" + typeStr(derefType(fa.X.Type())) + "." + fieldName(fa.X.Type(), fa.Field)
}

func derefType(t types.Type) types.Type {
	if p, ok := t.(*types.Pointer); ok {
		return p.Elem()
	}
	return t
}

func (m *gwModel) cellOf(v ssa.Value, fr *frame) (string, bool) {
	switch x := v.(type) {
	case *ssa.UnOp:
		if x.Op == token.MUL {
			if fa, ok := x.X.(*ssa.FieldAddr); ok {
				return fieldCell(fa), true
			}
		}
	case *ssa.Field:
		return "f:" + typeStr(x.X.Type()) + "." + fieldName(x.X.Type(), x.Field), true
	case *ssa.Call:
		n := calleeName(&x.Call)
		if n == "(*"+pkUtil+".ClientState).Get" {
			return "state", true
		}
		// getters of packet properties
		switch n {
		case "(*" + pkPackets + ".DUPProperty).DUP":
			return "f:packets.DUPProperty.dup", true
		}
	case *ssa.Parameter:
		if _, ok := x.Type().Underlying().(*types.Interface); ok {
			if typeIs(x.Type(), pkPackets, "Packet") {
				return "type:sn", true
			}
			if typeIs(x.Type(), pahoPkts, "ControlPacket") {
				return "type:mq", true
			}
		}
	case *ssa.Extract:
		// transaction looked up in the store: dynamic type cell "type:tx"
		if call, ok := x.Tuple.(*ssa.Call); ok && x.Index == 0 {
			n := calleeName(&call.Call)
			if strings.HasPrefix(n, "(*"+pkTrans+".TransactionStore).Get") {
				return "type:tx", true
			}
		}
	}
	return "", false
}

func (m *gwModel) cellStore(i ssa.Instruction, fr *frame) (string, ssa.Value, bool) {
	switch x := i.(type) {
	case *ssa.Store:
		if fa, ok := x.Addr.(*ssa.FieldAddr); ok {
			return fieldCell(fa), x.Val, true
		}
	case ssa.CallInstruction:
		cc := x.Common()
		if calleeName(cc) == "(*"+pkUtil+".ClientState).Set" && len(cc.Args) == 2 {
			return "state", cc.Args[1], true
		}
	}
	return "", nil, false
}

// describeArg renders a packet argument: constructor + evaluated arguments.
func (m *gwModel) describePkt(v ssa.Value, e *explorer, st *pstate, fr *frame) string {
	seen := map[ssa.Value]bool{}
	var rec func(v ssa.Value, d int) []string
	rec = func(v ssa.Value, d int) []string {
		if seen[v] || d > 6 {
			return []string{"?"}
		}
		seen[v] = true
		switch x := v.(type) {
		case *ssa.MakeInterface:
			return rec(x.X, d+1)
		case *ssa.ChangeInterface:
			return rec(x.X, d+1)
		case *ssa.Call:
			g := staticCallee(&x.Call)
			if g != nil && (fnPkgPath(g) == pkPackets1) && strings.HasPrefix(g.Name(), "New") {
				var as []string
				for _, a := range x.Call.Args {
					as = append(as, e.eval(a, st, fr).String())
				}
				return []string{typeStr(x.Type()) + "{" + g.Name() + "(" + strings.Join(as, ",") + ")}"}
			}
			return []string{typeStr(x.Type())}
		case *ssa.Phi:
			if a, ok := fr.vals[x]; ok && a.known {
				return []string{a.String()}
			}
			var out []string
			for _, ed := range x.Edges {
				out = append(out, rec(ed, d+1)...)
			}
			return out
		case *ssa.TypeAssert:
			if _, isIface := x.Type().Underlying().(*types.Interface); isIface {
				return rec(x.X, d+1)
			}
			return []string{typeStr(x.Type())}
		case *ssa.Parameter:
			if a, ok := fr.params[x]; ok && a.known {
				return []string{strings.TrimPrefix(a.String(), "obj:")}
			}
			if _, isIface := x.Type().Underlying().(*types.Interface); isIface {
				return []string{"?" + typeStr(x.Type())}
			}
			return []string{typeStr(x.Type())}
		case *ssa.UnOp:
			if x.Op == token.MUL {
				if _, isIface := x.Type().Underlying().(*types.Interface); isIface {
					return []string{"?load " + exprStr(x.X)}
				}
			}
			return []string{typeStr(x.Type())}
		}
		if _, isIface := v.Type().Underlying().(*types.Interface); isIface {
			return []string{"?" + exprStr(v)}
		}
		return []string{typeStr(v.Type())}
	}
	ts := rec(v, 0)
	sort.Strings(ts)
	return strings.Join(ts, "|")
}

func (m *gwModel) event(i ssa.Instruction, e *explorer, st *pstate, fr *frame) (string, bool, bool) {
	ci, ok := i.(ssa.CallInstruction)
	if !ok {
		return "", false, false
	}
	cc := ci.Common()
	if _, isGo := i.(*ssa.Go); isGo {
		return "go " + shortName(calleeName(cc)), true, true
	}
	g := staticCallee(cc)
	if g != nil && m.snSenders[g] {
		arg := packetArg(g, cc)
		return "sn:" + m.describePkt(arg, e, st, fr), true, true
	}
	if g != nil && m.mqSenders[g] {
		arg := packetArg(g, cc)
		return "mq:" + m.describePkt(arg, e, st, fr), true, true
	}
	n := calleeName(cc)
	switch {
	case strings.HasPrefix(n, "(*"+pkTrans+".TransactionStore)."):
		return "store." + strings.TrimPrefix(n, "(*"+pkTrans+".TransactionStore)."), true, true
	case strings.HasSuffix(n, ".Fail") && strings.Contains(n, pkTrans):
		return "tx.Fail", true, true
	case strings.HasSuffix(n, ".Success") && strings.Contains(n, pkTrans):
		return "tx.Success", true, true
	case strings.HasSuffix(n, ".Proceed") && strings.Contains(n, pkTrans) && len(cc.Args) >= 3:
		// records the new step: state and the type of the stored packet; the cell update itself
		// is done here because the transactions package is not inlined
		sv := e.eval(cc.Args[1], st, fr)
		st.cells["f:transactions.RetryTransaction.State"] = sv
		return "tx.Proceed(state=" + sv.String() + ",data=" + m.describePkt(cc.Args[2], e, st, fr) + ")", true, true
	case n == "(*golang.org/x/sync/errgroup.Group).Go":
		d := "?"
		if len(cc.Args) > 1 {
			if mc, ok := cc.Args[1].(*ssa.MakeClosure); ok {
				d = fnKey(mc.Fn.(*ssa.Function))
			}
		}
		return "group.Go(" + d + ")", true, true
	case n == "time.AfterFunc":
		return "time.AfterFunc", true, true
	case n == "(*time.Timer).Stop":
		return "timer.Stop", true, true
	case n == "(*sync.Map).Store":
		return "syncmap.Store", true, true
	}
	if cc.IsInvoke() {
		mn := cc.Method.Name()
		if mn == "Fail" || mn == "Success" {
			return "tx." + mn, true, true
		}
		if mn == "Proceed" && len(cc.Args) == 2 {
			sv := e.eval(cc.Args[0], st, fr)
			st.cells["f:transactions.RetryTransaction.State"] = sv
			return "tx.Proceed(state=" + sv.String() + ",data=" + m.describePkt(cc.Args[1], e, st, fr) + ")", true, true
		}
	}
	return "", false, false
}

func packetArg(g *ssa.Function, cc *ssa.CallCommon) ssa.Value {
	for k, p := range g.Params {
		if typeIs(p.Type(), pkPackets, "Packet") || typeIs(p.Type(), pahoPkts, "ControlPacket") {
			if k < len(cc.Args) {
				return cc.Args[k]
			}
		}
	}
	return nil
}

func (m *gwModel) explorer() *explorer {
	e := &explorer{c: m.c}
	e.CellOf = m.cellOf
	e.CellStore = m.cellStore
	e.Event = m.event
	e.Inline = func(g *ssa.Function) bool {
		return fnPkgPath(g) == pkGateway
	}
	e.MaxDepth = 6
	// the comma-ok result of a lookup in the transaction store agrees with the tracked dynamic type
	e.ValueHook = func(v ssa.Value, ex *explorer, st *pstate, fr *frame) (aval, bool) {
		if x, ok := v.(*ssa.Extract); ok && x.Index == 1 {
			if call, ok := x.Tuple.(*ssa.Call); ok && strings.HasPrefix(calleeName(&call.Call), "(*"+pkTrans+".TransactionStore).Get") {
				if tv, have := st.cells["type:tx"]; have && tv.known && tv.isStr {
					return kbool(tv.s != "none" && tv.s != "nil"), true
				}
			}
		}
		return aval{}, false
	}
	e.ResolveInvoke = func(cc *ssa.CallCommon, ex *explorer, st *pstate, fr *frame) *ssa.Function {
		if f := m.c.uniqueImpl(cc); f != nil {
			return f
		}
		// the receiver was asserted from a value whose dynamic type is a tracked cell
		v := cc.Value
		for d := 0; d < 4; d++ {
			switch x := v.(type) {
			case *ssa.Extract:
				if ta, ok := x.Tuple.(*ssa.TypeAssert); ok {
					v = ta.X
					continue
				}
			case *ssa.TypeAssert:
				v = x.X
				continue
			case *ssa.ChangeInterface:
				v = x.X
				continue
			}
			break
		}
		if cell, ok := m.cellOf(v, fr); ok && strings.HasPrefix(cell, "type:") {
			if tv, have := st.cells[cell]; have && tv.known && tv.isStr {
				return m.c.methodOfTypeName(tv.s, cc.Method.Name())
			}
		}
		return nil
	}
	return e
}

// methodOfTypeName: declared method (through promotion) of "*gateway.T" / "*client.T".
func (c *Ctx) methodOfTypeName(tname, method string) *ssa.Function {
	name := strings.TrimPrefix(tname, "*")
	dot := strings.Index(name, ".")
	if dot < 0 {
		return nil
	}
	p := c.ByPath[modPath+"/"+name[:dot]]
	if p == nil {
		return nil
	}
	obj := p.Types.Scope().Lookup(name[dot+1:])
	if obj == nil {
		return nil
	}
	pt := types.NewPointer(obj.Type())
	sel := c.Prog.MethodSets.MethodSet(pt).Lookup(p.Types, method)
	if sel == nil {
		return nil
	}
	f := c.Prog.MethodValue(sel)
	for f != nil && f.Synthetic != "" {
		var inner *ssa.Function
		allInstrs(f, func(i ssa.Instruction) {
			if ci, ok := i.(ssa.CallInstruction); ok {
				if g := staticCallee(ci.Common()); g != nil && g.Name() == method {
					inner = g
				}
			}
		})
		f = inner
	}
	return f
}

// uniqueImpl: the single gateway/client method implementing an invoked
// interface method (through embedding as well), or nil.
func (c *Ctx) uniqueImpl(cc *ssa.CallCommon) *ssa.Function {
	iface, ok := cc.Value.Type().Underlying().(*types.Interface)
	if !ok {
		return nil
	}
	n := namedOf(cc.Value.Type())
	if n == nil || n.Obj().Pkg() == nil {
		return nil
	}
	pp := n.Obj().Pkg().Path()
	if pp != pkGateway && pp != pkClient {
		return nil
	}
	var found *ssa.Function
	cnt := 0
	p := c.ByPath[pp]
	scope := p.Types.Scope()
	seen := map[*ssa.Function]bool{}
	for _, name := range scope.Names() {
		tn, ok := scope.Lookup(name).(*types.TypeName)
		if !ok {
			continue
		}
		pt := types.NewPointer(tn.Type())
		if !types.Implements(pt, iface) {
			continue
		}
		sel := c.Prog.MethodSets.MethodSet(pt).Lookup(p.Types, cc.Method.Name())
		if sel == nil {
			continue
		}
		f := c.Prog.MethodValue(sel)
		// promoted method wrapper: resolve to the declared method
		for f != nil && f.Synthetic != "" {
			var inner *ssa.Function
			allInstrs(f, func(i ssa.Instruction) {
				if ci, ok := i.(ssa.CallInstruction); ok {
					if g := staticCallee(ci.Common()); g != nil && g.Name() == cc.Method.Name() {
						inner = g
					}
				}
			})
			f = inner
		}
		if f != nil && !seen[f] {
			seen[f] = true
			found = f
			cnt++
		}
	}
	if cnt == 1 {
		return found
	}
	return nil
}

// run explores entry for the given cells.
func (m *gwModel) run(entry *ssa.Function, cells map[string]aval) ([]Outcome, bool) {
	e := m.explorer()
	outs := e.Explore(entry, cells, nil)
	return outs, e.Truncated
}

func cellsStr(cells map[string]aval) string {
	var ks []string
	for k, v := range cells {
		ks = append(ks, k+"="+v.String())
	}
	sort.Strings(ks)
	return strings.Join(ks, " ")
}

func hasEventPrefix(o Outcome, prefix string) bool {
	for _, ev := range o.Events {
		if strings.HasPrefix(ev, prefix) {
			return true
		}
	}
	return false
}

func eventsWithPrefix(o Outcome, prefix string) []string {
	var out []string
	for _, ev := range o.Events {
		if strings.HasPrefix(ev, prefix) {
			out = append(out, ev)
		}
	}
	return out
}
