package main

import (
	"sort"
	"fmt"
	"go/token"
	"go/types"
	"strings"

	"golang.org/x/tools/go/ssa"
)

func init() {
	register("C29", func(r *Report) {
		r.Explanation = "Decides linearizability of each individual call structurally: (R1) every access of IDSequence's counter fields happens with the sequence's mutex held (lockset), bounds are written only in the constructor, no method leaks a field address; (R2) every access of TransactionStore's two maps happens with the store's lock held - in write mode for map updates and deletes, at least read mode for lookups -, the maps never escape, and each method performs one map operation per critical section; (R3) ClientState is only accessed through sync/atomic operations; (R4) the loop-free body of IDSequence.Next evaluated (constant propagation with uint16 wrap-around) at the boundary valuations of its cells returns the current value, reports the stored overflow flag, advances by one and wraps max -> min with the flag set - for ranges including max = 0xFFFF. (R5) the store's two key spaces are independent: each map is used by one family of methods only (by message ID / by packet type) and keyed by the parameter, or, if a map is shared, the keys the two families compute are disjoint over the whole parameter domains (evaluated exhaustively: 65536 IDs x 256 types). Not decided: the sequential specification beyond those boundary valuations."
		r.floor("R1", 4)
		r.floor("R2", 6)
		r.floor("R3", 1)
		r.floor("R4", 10)
	}, checkC29)
	register("C18", func(r *Report) {
		r.Explanation = "Decides: (R1) in TransactionBase the assignment of the error, the call of the completion callback and close(done) are each reachable only through the not-done edge of a non-blocking receive on the done channel, with the base mutex held (own lockset plus locks held at every call site), the callback runs before the channel is closed, and every Success/Fail wrapper reaches them only through that gate; (R2) in the retry timer callback the retry callback and the timer re-arm are dominated by a not-done test made while holding a lock that Success and Fail of the same type also hold around completion, and are unreachable after a completion call on the same path; (R3) timer and state fields touched by timer callbacks, receive loops and API callers have a common lock (lockset is schedule independent); (R4) a field assigned from time.AfterFunc is only dereferenced by what the callback reaches under a lock that is held around the assignment, or after a nil test. Known findings: sleepTransaction fields."
		r.floor("R1", 3)
		r.floor("R2", 2)
		r.floor("R3", 2)
		r.floor("R4", 2)
	}, checkC18)
	register("C19", func(r *Report) {
		r.Explanation = "Decides the counting and wiring clauses: (R1) the retry timer callback, evaluated for every ordering of (retries so far, retry count) over a grid that contains all of <, =, > and the off-by-one neighbours, calls the retry callback exactly once and re-arms while retries so far < retry count, and otherwise fails with ErrNoMoreRetries without calling it; the counter is incremented by exactly one per expiry; (R2) Proceed resets the counter to 0 and re-arms the timer on every path under the same lock; (R3) every re-arm uses the retry delay the constructor received, unmodified; the timed transaction arms its timer with its timeout parameter and its callback fails with ErrTimeout. Not decided: wall-clock statements ('RetryDelay apart', 'exactly when not completed within its timeout')."
		r.floor("R1", 9)
		r.floor("R2", 1)
		r.floor("R3", 2)
	}, checkC19)
}

// ---------------------------------------------------------------------------
// helpers

// notDoneGuarded: instruction i is only reachable through the "not yet done"
// edge of a non-blocking select that receives from a done channel.
func notDoneGuard(gs []Guard) (ssa.Value, bool) {
	for _, g := range gs {
		// the test may be wrapped in a predicate: if t.finished() { return }
		cond, truth := g.Cond, g.Truth
		if u, ok := cond.(*ssa.UnOp); ok && u.Op == token.NOT {
			cond, truth = u.X, !truth
		}
		if call, ok := cond.(*ssa.Call); ok {
			if fn := staticCallee(&call.Call); fn != nil {
				if pol, isPred := donePredicate(fn); isPred && truth != pol {
					return call, true
				}
			}
		}
		x, y, op, ok := cmpGuard(g)
		if !ok || op != token.NEQ {
			continue
		}
		ex, ok := x.(*ssa.Extract)
		if !ok || ex.Index != 0 {
			continue
		}
		sel, ok := ex.Tuple.(*ssa.Select)
		if !ok || sel.Blocking {
			continue
		}
		k, ok := constInt(y)
		if !ok || int(k) >= len(sel.States) || k < 0 {
			continue
		}
		st := sel.States[k]
		if st.Dir != types.RecvOnly {
			continue
		}
		if isDoneChan(st.Chan) {
			return sel, true
		}
	}
	return nil, false
}

var donePredCache = map[*ssa.Function][2]bool{}

// donePredicate: fn's whole body is one non-blocking receive on a done channel
// and it returns a constant in each case; polarity = the value returned when
// the channel IS closed (true for "finished()", false for "pending()").
func donePredicate(fn *ssa.Function) (polarity bool, ok bool) {
	if r, have := donePredCache[fn]; have {
		return r[0], r[1]
	}
	res := [2]bool{false, false}
	defer func() { donePredCache[fn] = res }()
	if fn.Blocks == nil || fn.Signature.Results().Len() != 1 || countInstrs(fn) > 25 {
		return false, false
	}
	nSel := 0
	allInstrs(fn, func(i ssa.Instruction) {
		switch x := i.(type) {
		case *ssa.Select:
			nSel++
			if x.Blocking {
				nSel += 10
			}
		case ssa.CallInstruction:
			if !isDoneChanCall(x) {
				nSel += 10 // does something else as well
			}
		case *ssa.Store, *ssa.MapUpdate, *ssa.Send:
			nSel += 10
		}
	})
	if nSel != 1 {
		return false, false
	}
	var whenDone, whenNot []bool
	consistent := true
	allInstrs(fn, func(i ssa.Instruction) {
		ret, isRet := i.(*ssa.Return)
		if !isRet {
			return
		}
		b, isC := constBool(ret.Results[0])
		if !isC {
			consistent = false
			return
		}
		if _, notDone := notDoneGuardSelectOnly(guardsOf(i.Block())); notDone {
			whenNot = append(whenNot, b)
		} else {
			whenDone = append(whenDone, b)
		}
	})
	if !consistent || len(whenDone) == 0 || len(whenNot) == 0 {
		return false, false
	}
	for _, b := range whenDone {
		if b != whenDone[0] {
			return false, false
		}
	}
	for _, b := range whenNot {
		if b == whenDone[0] {
			return false, false
		}
	}
	res = [2]bool{whenDone[0], true}
	return whenDone[0], true
}

func isDoneChanCall(ci ssa.CallInstruction) bool {
	if v, ok := ci.(ssa.Value); ok {
		return isDoneChan(v)
	}
	return false
}

// notDoneGuardSelectOnly: the select form only (used to summarise predicates).
func notDoneGuardSelectOnly(gs []Guard) (ssa.Value, bool) {
	for _, g := range gs {
		x, y, op, ok := cmpGuard(g)
		if !ok || op != token.NEQ {
			continue
		}
		ex, ok := x.(*ssa.Extract)
		if !ok || ex.Index != 0 {
			continue
		}
		sel, ok := ex.Tuple.(*ssa.Select)
		if !ok || sel.Blocking {
			continue
		}
		k, ok := constInt(y)
		if !ok || int(k) >= len(sel.States) || k < 0 {
			continue
		}
		if st := sel.States[k]; st.Dir == types.RecvOnly && isDoneChan(st.Chan) {
			return sel, true
		}
	}
	return nil, false
}

// isDoneChan: a load of a struct field of type chan struct{} or a call of a
// Done() method.
func isDoneChan(v ssa.Value) bool {
	switch x := v.(type) {
	case *ssa.UnOp:
		if x.Op == token.MUL {
			if _, ok := x.X.(*ssa.FieldAddr); ok {
				if ch, ok := x.Type().Underlying().(*types.Chan); ok {
					if s, ok := ch.Elem().Underlying().(*types.Struct); ok && s.NumFields() == 0 {
						return true
					}
				}
			}
		}
	case *ssa.Call:
		cc := &x.Call
		if cc.IsInvoke() && cc.Method.Name() == "Done" {
			return true
		}
		if g := staticCallee(cc); g != nil && g.Name() == "Done" {
			return true
		}
	case *ssa.ChangeType:
		return isDoneChan(x.X)
	}
	return false
}

func isCloseCall(i ssa.Instruction) bool {
	ci, ok := i.(ssa.CallInstruction)
	if !ok {
		return false
	}
	b, ok := ci.Common().Value.(*ssa.Builtin)
	return ok && b.Name() == "close"
}

// dynCallOfField: call through a function-typed field (t.finally(), t.retryCallback(x)).
func dynCallOfField(i ssa.Instruction) (string, bool) {
	ci, ok := i.(ssa.CallInstruction)
	if !ok {
		return "", false
	}
	cc := ci.Common()
	if cc.IsInvoke() || staticCallee(cc) != nil {
		return "", false
	}
	u, ok := cc.Value.(*ssa.UnOp)
	if !ok || u.Op != token.MUL {
		return "", false
	}
	fa, ok := u.X.(*ssa.FieldAddr)
	if !ok {
		return "", false
	}
	// the callback field is recognised by its type (the exported callback type of package transactions),
	// not by the name of the unexported field holding it
	if typeIs(derefType(fa.Type()), pkTrans, "RTRetryCallback") {
		return "retry-callback", true
	}
	return fieldName(fa.X.Type(), fa.Field), true
}

// ---------------------------------------------------------------------------
// C29

func checkC29(c *Ctx, r *Report) {
	li := c.newLockInfo()
	// R1: IDSequence
	seqFields := structFieldNames(c, pkUtil, "IDSequence")
	lockField := ""
	for _, f := range seqFields {
		if typeIs(f.Type(), "sync", "Mutex") || typeIs(f.Type(), "sync", "RWMutex") {
			lockField = f.Name()
		}
	}
	if lockField == "" {
		r.bad("R1", "util.IDSequence:mutex", "-", "IDSequence has no mutex field")
	}
	for _, f := range seqFields {
		if f.Name() == lockField {
			continue
		}
		acc := li.FieldAccesses("util.IDSequence", f.Name())
		key := "util.IDSequence." + f.Name()
		bad := ""
		n := 0
		writesOutsideCtor := 0
		for _, a := range acc {
			if a.Fresh {
				continue
			}
			n++
			r.fn(a.Fn)
			if a.Write {
				writesOutsideCtor++
			}
			if !a.Held["util.IDSequence."+lockField] {
				bad = fmt.Sprintf("%s in %s without the sequence lock (held %s)", map[bool]string{true: "write", false: "read"}[a.Write], fnKey(a.Fn), heldStr(a.Held))
			}
		}
		if bad != "" {
			r.bad("R1", key, "-", bad)
		} else {
			r.ok("R1", key, "-", fmt.Sprintf("%d accesses outside the constructor, all under util.IDSequence.%s (%d writes)", n, lockField, writesOutsideCtor))
		}
	}
	c.checkNoFieldEscape(r, "R1", pkUtil, "IDSequence")
	// R2: TransactionStore maps
	for _, f := range structFieldNames(c, pkTrans, "TransactionStore") {
		if _, isMap := f.Type().Underlying().(*types.Map); !isMap {
			continue
		}
		key := "transactions.TransactionStore." + f.Name()
		perFn := map[*ssa.Function]int{}
		bad := ""
		n := 0
		for _, fn := range c.repoFuncs("transactions") {
			allInstrs(fn, func(i ssa.Instruction) {
				u, ok := i.(*ssa.UnOp)
				if !ok || u.Op != token.MUL {
					return
				}
				fa, ok := u.X.(*ssa.FieldAddr)
				if !ok || typeStr(derefType(fa.X.Type())) != "transactions.TransactionStore" || fieldName(fa.X.Type(), fa.Field) != f.Name() {
					return
				}
				if isFreshObject(fa.X) {
					return
				}
				r.fn(fn)
				held := li.HeldAt(u)
				refs := u.Referrers()
				if refs == nil {
					return
				}
				for _, rf := range *refs {
					n++
					w := "transactions.TransactionStore.RWMutex"
					switch x := rf.(type) {
					case *ssa.MapUpdate:
						perFn[fn]++
						if !held[w] {
							bad = fmt.Sprintf("map update in %s without the store lock in write mode (held %s)", fnKey(fn), heldStr(held))
						}
					case *ssa.Lookup:
						perFn[fn]++
						if !held[w] && !held[w+"(R)"] {
							bad = fmt.Sprintf("map lookup in %s without the store lock (held %s)", fnKey(fn), heldStr(held))
						}
					case *ssa.Range:
						perFn[fn]++
						if !held[w] && !held[w+"(R)"] {
							bad = fmt.Sprintf("map range in %s without the store lock", fnKey(fn))
						}
					case ssa.CallInstruction:
						if b, ok := x.Common().Value.(*ssa.Builtin); ok && b.Name() == "delete" {
							perFn[fn]++
							if !held[w] {
								bad = fmt.Sprintf("map delete in %s without the store lock in write mode (held %s)", fnKey(fn), heldStr(held))
							}
						} else if ok && b.Name() == "len" {
							if !held[w] && !held[w+"(R)"] {
								bad = fmt.Sprintf("len(map) in %s without the store lock", fnKey(fn))
							}
						} else {
							bad = fmt.Sprintf("the map is passed to %s in %s (escapes the store)", shortName(calleeName(x.Common())), fnKey(fn))
						}
					case *ssa.DebugRef:
						n--
					default:
						bad = fmt.Sprintf("the map value escapes in %s (%T)", fnKey(fn), rf)
					}
				}
			})
		}
		for fn, k := range perFn {
			if k > 1 {
				bad = fmt.Sprintf("%s performs %d map operations (a call is no longer one atomic step on one key)", fnKey(fn), k)
			}
		}
		if bad != "" {
			r.bad("R2", key, "-", bad)
		} else if n == 0 {
			r.undecided("R2", key, "-", "no access to the map found")
		} else {
			r.ok("R2", key, "-", fmt.Sprintf("%d map operations in %d methods, writes under the write lock, reads under at least the read lock, one operation per method", n, len(perFn)))
		}
	}
	// per-method lock mode summary (so that a read-locked Delete is named)
	for _, fn := range c.repoFuncs("transactions") {
		if fn.Signature.Recv() == nil || !typeIs(fn.Signature.Recv().Type(), pkTrans, "TransactionStore") {
			continue
		}
		mode := ""
		allInstrs(fn, func(i ssa.Instruction) {
			if ci, ok := i.(ssa.CallInstruction); ok {
				if _, isDefer := i.(*ssa.Defer); isDefer {
					return
				}
				if nm, op, w := lockOp(ci.Common()); op > 0 && strings.HasSuffix(nm, "TransactionStore.RWMutex") {
					if w {
						mode = "write"
					} else if mode == "" {
						mode = "read"
					}
				}
			}
		})
		r.okTrivial("R2", fnKey(fn)+":lock-mode", c.pos(fn.Pos()), "locks the store in "+mode+" mode")
	}
	// external users of the embedded mutex
	for _, fn := range c.allRepoFuncs() {
		if fnPkgPath(fn) == pkTrans {
			continue
		}
		allInstrs(fn, func(i ssa.Instruction) {
			if ci, ok := i.(ssa.CallInstruction); ok {
				if nm, op, _ := lockOp(ci.Common()); op != 0 && strings.HasSuffix(nm, "TransactionStore.RWMutex") {
					r.bad("R2", fnKey(fn)+":external-lock", c.instrPos(i), "the store's embedded mutex is manipulated outside package transactions")
				}
			}
		})
	}
	// R5: the by-ID and by-type key spaces are independent
	c.checkStoreKeySpaces(r, "R5")
	// R3: ClientState only through atomics
	n3 := 0
	bad3 := ""
	for _, fn := range c.allRepoFuncs() {
		allInstrs(fn, func(i ssa.Instruction) {
			var addr ssa.Value
			switch x := i.(type) {
			case *ssa.UnOp:
				if x.Op == token.MUL {
					addr = x.X
				}
			case *ssa.Store:
				addr = x.Addr
			}
			if addr == nil {
				return
			}
			pt, ok := addr.Type().(*types.Pointer)
			if !ok || !typeIs(pt.Elem(), pkUtil, "ClientState") {
				return
			}
			if _, isNamed := pt.Elem().(*types.Named); !isNamed {
				return
			}
			if a, ok := addr.(*ssa.Alloc); ok && !a.Heap {
				return
			}
			n3++
			if _, isStore := i.(*ssa.Store); isStore {
				if a, ok := addr.(*ssa.Alloc); ok {
					_ = a // initialisation of a fresh cell before it is shared
					return
				}
			}
			bad3 = fmt.Sprintf("plain (non-atomic) access of a shared ClientState in %s at %s", fnKey(fn), c.instrPos(i))
		})
	}
	atomics := 0
	for _, fn := range c.repoFuncs("util") {
		if fn.Signature.Recv() != nil && typeIs(fn.Signature.Recv().Type(), pkUtil, "ClientState") {
			allInstrs(fn, func(i ssa.Instruction) {
				if ci, ok := i.(ssa.CallInstruction); ok && strings.HasPrefix(calleeName(ci.Common()), "sync/atomic.") {
					atomics++
				}
			})
		}
	}
	if bad3 != "" {
		r.bad("R3", "util.ClientState:atomic-only", "-", bad3)
	} else if atomics < 2 {
		r.bad("R3", "util.ClientState:atomic-only", "-", "ClientState.Get/Set do not use sync/atomic")
	} else {
		r.ok("R3", "util.ClientState:atomic-only", "-", fmt.Sprintf("%d sync/atomic operations in Get/Set; no plain load or store of a shared *ClientState anywhere in the repository", atomics))
	}
	// R4: boundary evaluation of Next
	c.checkNextBoundaries(r)
}

func structFieldNames(c *Ctx, pkgpath, tname string) []*types.Var {
	p := c.ByPath[pkgpath]
	if p == nil {
		return nil
	}
	obj := p.Types.Scope().Lookup(tname)
	if obj == nil {
		return nil
	}
	st, ok := obj.Type().Underlying().(*types.Struct)
	if !ok {
		return nil
	}
	var out []*types.Var
	for i := 0; i < st.NumFields(); i++ {
		out = append(out, st.Field(i))
	}
	return out
}

// checkNoFieldEscape: no method of the type returns or stores a field address.
func (c *Ctx) checkNoFieldEscape(r *Report, rule, pkgpath, tname string) {
	rel := strings.TrimPrefix(pkgpath, modPath+"/")
	for _, fn := range c.repoFuncs(rel) {
		allInstrs(fn, func(i ssa.Instruction) {
			fa, ok := i.(*ssa.FieldAddr)
			if !ok || !typeIs(fa.X.Type(), pkgpath, tname) {
				return
			}
			if refs := fa.Referrers(); refs != nil {
				for _, rf := range *refs {
					switch x := rf.(type) {
					case *ssa.Return, *ssa.MakeInterface:
						r.bad(rule, fnKey(fn)+":field-address-escapes", c.instrPos(rf), "address of a protected field leaves the method")
					case *ssa.Store:
						if x.Val == ssa.Value(fa) {
							r.bad(rule, fnKey(fn)+":field-address-escapes", c.instrPos(rf), "address of a protected field is stored")
						}
					}
				}
			}
		})
	}
}

func (c *Ctx) checkNextBoundaries(r *Report) {
	p := c.ByPath[pkUtil]
	if p == nil {
		return
	}
	obj := p.Types.Scope().Lookup("IDSequence")
	if obj == nil {
		r.undecided("R4", "IDSequence.Next", "-", "IDSequence not found")
		return
	}
	sel := c.Prog.MethodSets.MethodSet(types.NewPointer(obj.Type())).Lookup(p.Types, "Next")
	if sel == nil {
		r.undecided("R4", "IDSequence.Next", "-", "IDSequence.Next not found")
		return
	}
	next := c.Prog.MethodValue(sel)
	r.fn(next)
	// roles of the fields: min/max from the constructor parameter order
	ctor := c.SSA[pkUtil].Func("NewIDSequence")
	if ctor == nil {
		r.undecided("R4", "NewIDSequence", "-", "constructor not found")
		return
	}
	role := map[string]string{} // field -> min|max|next|overflow
	allInstrs(ctor, func(i ssa.Instruction) {
		s, ok := i.(*ssa.Store)
		if !ok {
			return
		}
		fa, ok := s.Addr.(*ssa.FieldAddr)
		if !ok {
			return
		}
		fn := fieldName(fa.X.Type(), fa.Field)
		if prm, ok := s.Val.(*ssa.Parameter); ok {
			if paramIndex(ctor, prm) == 1 {
				role[fn] = "max"
			} else if paramIndex(ctor, prm) == 0 {
				if _, have := role[fn]; !have {
					role[fn] = "min?"
				}
			}
		}
	})
	// the field initialised from minID that Next also writes is the counter; the other one is min
	written := map[string]bool{}
	allInstrs(next, func(i ssa.Instruction) {
		if s, ok := i.(*ssa.Store); ok {
			if fa, ok := s.Addr.(*ssa.FieldAddr); ok {
				written[fieldName(fa.X.Type(), fa.Field)] = true
			}
		}
	})
	var fMin, fMax, fNext, fOver string
	for f, ro := range role {
		switch {
		case ro == "max":
			fMax = f
		case ro == "min?" && written[f]:
			fNext = f
		case ro == "min?":
			fMin = f
		}
	}
	for _, f := range structFieldNames(c, pkUtil, "IDSequence") {
		if b, ok := f.Type().Underlying().(*types.Basic); ok && b.Kind() == types.Bool {
			fOver = f.Name()
		}
	}
	if fMin == "" || fMax == "" || fNext == "" || fOver == "" {
		r.undecided("R4", "IDSequence:field-roles", c.pos(next.Pos()), fmt.Sprintf("cannot identify the roles of the fields (min=%q max=%q next=%q overflow=%q)", fMin, fMax, fNext, fOver))
		return
	}
	cell := func(f string) string { return "f:util.IDSequence." + f }
	type rng struct{ min, max int64 }
	for _, rg := range []rng{{1, 0xFFFF}, {1, 0xFFFE}, {0, 0xFFFF}, {5, 5}, {7, 9}} {
		for _, nx := range []int64{rg.min, rg.min + 1, rg.max - 1, rg.max} {
			if nx < rg.min || nx > rg.max {
				continue
			}
			for _, ov := range []int64{0, 1} {
				e := &explorer{c: c, MaxDepth: 3}
				e.Inline = func(g *ssa.Function) bool { return false }
				e.CellOf = func(v ssa.Value, fr *frame) (string, bool) {
					if u, ok := v.(*ssa.UnOp); ok && u.Op == token.MUL {
						if fa, ok := u.X.(*ssa.FieldAddr); ok {
							return fieldCell(fa), true
						}
					}
					return "", false
				}
				e.CellStore = func(i ssa.Instruction, fr *frame) (string, ssa.Value, bool) {
					if s, ok := i.(*ssa.Store); ok {
						if fa, ok := s.Addr.(*ssa.FieldAddr); ok {
							return fieldCell(fa), s.Val, true
						}
					}
					return "", nil, false
				}
				outs := e.Explore(next, map[string]aval{cell(fMin): kint(rg.min), cell(fMax): kint(rg.max), cell(fNext): kint(nx), cell(fOver): kint(ov)}, nil)
				key := fmt.Sprintf("Next[min=%d,max=%d,next=%d,overflow=%d]", rg.min, rg.max, nx, ov)
				wantNext, wantOver := nx+1, int64(0)
				if nx == rg.max {
					wantNext, wantOver = rg.min, 1
				}
				if len(outs) != 1 {
					r.undecided("R4", key, c.pos(next.Pos()), fmt.Sprintf("%d paths for a concrete valuation", len(outs)))
					continue
				}
				o := outs[0]
				got := fmt.Sprintf("returns (%s), next=%s overflow=%s", strings.Join(o.Ret, ","), o.Cells[cell(fNext)], o.Cells[cell(fOver)])
				want := fmt.Sprintf("returns (%d,%d), next=%d overflow=%d", nx, ov, wantNext, wantOver)
				if got == want {
					r.ok("R4", key, c.pos(next.Pos()), got)
				} else {
					r.bad("R4", key, c.pos(next.Pos()), "Next "+got+", specified: "+want)
				}
			}
		}
	}
}

// ---------------------------------------------------------------------------
// C18

func checkC18(c *Ctx, r *Report) {
	li := c.newLockInfo()
	// R1: completion sites in package transactions
	nClose := 0
	for _, fn := range c.repoFuncs("transactions") {
		allInstrs(fn, func(i ssa.Instruction) {
			if !isCloseCall(i) {
				return
			}
			ci := i.(ssa.CallInstruction)
			if !isDoneChan(ci.Common().Args[0]) {
				return
			}
			nClose++
			r.fn(fn)
			held := li.HeldAt(i)
			key := fnKey(fn) + ":close(done)"
			_, gated := notDoneGuard(guardsOf(i.Block()))
			lockOK := false
			for l := range held {
				if strings.HasSuffix(l, ".mutex") || strings.Contains(l, "TransactionBase") {
					lockOK = !strings.HasSuffix(l, "(R)")
				}
			}
			switch {
			case !gated:
				r.bad("R1", key, c.instrPos(i), "the done channel is closed without a preceding not-yet-done test on the same path (second completion panics or re-runs the completion)")
			case !lockOK:
				r.bad("R1", key, c.instrPos(i), "completion is not serialised: close(done) executes without the base mutex in write mode (held "+heldStr(held)+")")
			default:
				r.ok("R1", key, c.instrPos(i), "gated by the not-done edge of a non-blocking receive on done, under "+heldStr(held))
			}
			// err store and finally call in the same function: same gate, and before the close
			allInstrs(fn, func(j ssa.Instruction) {
				what := ""
				if s, ok := j.(*ssa.Store); ok {
					if fa, ok := s.Addr.(*ssa.FieldAddr); ok && types.Identical(derefType(fa.Type()), types.Universe.Lookup("error").Type()) {
						what = "error assignment"
					}
				}
				if f, ok := dynCallOfField(j); ok {
					what = "completion callback " + f + "()"
				}
				if what == "" {
					return
				}
				k2 := fnKey(fn) + ":" + what
				_, g2 := notDoneGuard(guardsOf(j.Block()))
				after, _ := pathExists(fn, i, func(x ssa.Instruction) bool { return x == j }, nil)
				switch {
				case !g2:
					r.bad("R1", k2, c.instrPos(j), what+" is not gated by the not-yet-done test: a late Fail/Success changes the result or re-runs the callback after Done")
				case after:
					r.bad("R1", k2, c.instrPos(j), what+" can execute after close(done): a waiter released by Done() observes the transaction before its completion has run")
				default:
					r.ok("R1", k2, c.instrPos(j), "gated by the not-done test and ordered before close(done)")
				}
			})
		})
	}
	if nClose == 0 {
		r.undecided("R1", "close(done)", "-", "no completion site (close of a done channel) found in package transactions")
	}
	// the completion callback (a function-typed field of a struct that also holds the done channel) is called nowhere
	// but at a completion site: a second caller runs it twice, or while the transaction is still running
	for _, fn := range c.allRepoFuncs() {
		closes := false
		allInstrs(fn, func(i ssa.Instruction) {
			if isCloseCall(i) && isDoneChan(i.(ssa.CallInstruction).Common().Args[0]) {
				closes = true
			}
		})
		if closes {
			continue
		}
		allInstrs(fn, func(j ssa.Instruction) {
			f, ok := dynCallOfField(j)
			if !ok || f == "retry-callback" {
				return
			}
			fa := j.(ssa.CallInstruction).Common().Value.(*ssa.UnOp).X.(*ssa.FieldAddr)
			st := structOf(fa.X.Type())
			if st == nil {
				return
			}
			hasDone := false
			for k := 0; k < st.NumFields(); k++ {
				if ch, ok := st.Field(k).Type().Underlying().(*types.Chan); ok {
					if s, ok := ch.Elem().Underlying().(*types.Struct); ok && s.NumFields() == 0 {
						hasDone = true
					}
				}
			}
			if !hasDone {
				return
			}
			r.fn(fn)
			r.bad("R1", fnKey(fn)+":completion callback "+f+"() outside the completion site", c.instrPos(j), "the completion callback is called by a function that does not complete the transaction (no close of done, no finished test): it runs a second time when the transaction completes, and the first run happens while the exchange is still live")
		})
	}
	// every other store to an error field / close in wrappers
	for _, fn := range append(c.repoFuncs("transactions"), append(c.repoFuncs("client"), c.repoFuncs("gateway")...)...) {
		allInstrs(fn, func(i ssa.Instruction) {
			s, ok := i.(*ssa.Store)
			if !ok {
				return
			}
			fa, ok := s.Addr.(*ssa.FieldAddr)
			if !ok || typeStr(derefType(fa.X.Type())) != "transactions.TransactionBase" || isFreshObject(fa.X) {
				return
			}
			if _, gated := notDoneGuard(guardsOf(i.Block())); !gated {
				r.bad("R1", fnKey(fn)+":write TransactionBase."+fieldName(fa.X.Type(), fa.Field), c.instrPos(i), "a field of the transaction base is written outside the completion gate")
			}
		})
	}
	// R2: retry timer callbacks: functions that dynamically call a retry callback field
	n2 := 0
	expFn, expSite, _, expHelpers := c.retryExpiry()
	for _, fn := range c.repoFuncs("transactions") {
		var cbCall ssa.Instruction
		if fn == expFn {
			cbCall = expSite
		}
		if cbCall == nil {
			continue
		}
		n2++
		r.fn(fn)
		for _, h := range expHelpers {
			r.fn(h)
		}
		key := fnKey(fn) + ":retry-callback"
		held := li.HeldAt(cbCall)
		sel, gated := notDoneGuard(guardsOf(cbCall.Block()))
		if !gated {
			r.bad("R2", key, c.instrPos(cbCall), "the retry callback is invoked without a not-yet-done test: a timer that fired just before completion retransmits after Done()")
			continue
		}
		selHeld := li.HeldAt(sel.(ssa.Instruction))
		common := intersect(held, selHeld)
		// locks held by Success/Fail wrappers of the same receiver type around completion
		recv := fn.Signature.Recv()
		var complLocks map[string]bool
		nWrap := 0
		for _, w := range c.repoFuncs("transactions") {
			if w.Signature.Recv() == nil || recv == nil || !types.Identical(w.Signature.Recv().Type(), recv.Type()) {
				continue
			}
			if w.Name() != "Success" && w.Name() != "Fail" {
				continue
			}
			allInstrs(w, func(i ssa.Instruction) {
				ci, ok := i.(ssa.CallInstruction)
				if !ok {
					return
				}
				g := staticCallee(ci.Common())
				if g == nil || !c.mayReachCompletion(g, 3) {
					return
				}
				nWrap++
				h := li.HeldAt(i)
				if complLocks == nil {
					complLocks = copySet(h)
				} else {
					complLocks = intersect(complLocks, h)
				}
			})
		}
		shared := intersect(common, complLocks)
		switch {
		case nWrap == 0:
			r.undecided("R2", key, c.instrPos(cbCall), "no Success/Fail wrapper of the same type found")
		case len(shared) == 0:
			r.bad("R2", key, c.instrPos(cbCall), fmt.Sprintf("the not-done test and the retry callback are not atomic with respect to completion: test held %s, callback held %s, Success/Fail hold %s", heldStr(selHeld), heldStr(held), heldStr(complLocks)))
		default:
			r.ok("R2", key, c.instrPos(cbCall), "not-done test and callback under "+heldStr(shared)+", which Success and Fail also hold around completion")
		}
		// nothing after completion on the same path
		k3 := fnKey(fn) + ":after-completion"
		bad := ""
		allInstrs(fn, func(i ssa.Instruction) {
			ci, ok := i.(ssa.CallInstruction)
			if !ok {
				return
			}
			g := staticCallee(ci.Common())
			if g == nil || !c.mayReachCompletion(g, 3) {
				return
			}
			if reach, at := pathExists(fn, i, func(x ssa.Instruction) bool {
				if x == cbCall {
					return true
				}
				if cj, ok := x.(ssa.CallInstruction); ok {
					if h := staticCallee(cj.Common()); h != nil && c.armsTimer(h, 2) {
						return true
					}
					if calleeName(cj.Common()) == "time.AfterFunc" {
						return true
					}
				}
				return false
			}, nil); reach {
				bad = "after " + fnKey(g) + " at " + c.instrPos(i) + " the path continues to " + c.instrPos(at) + " (retransmission / timer re-arm of a finished transaction)"
			}
		})
		if bad != "" {
			r.bad("R2", k3, c.pos(fn.Pos()), bad)
		} else {
			r.ok("R2", k3, c.pos(fn.Pos()), "no retry callback or timer re-arm is reachable after a completion call")
		}
	}
	if n2 == 0 {
		r.undecided("R2", "retry-timer-callback", "-", "no function invoking a retry callback found")
	}
	// R3: locksets of timer/state fields
	type fld struct{ typ, pkg string }
	var targets [][2]string
	txTypes := [][2]string{{pkTrans, "RetryTransaction"}, {pkTrans, "TimedTransaction"}}
	for _, n := range c.handRolledTransactions("client") {
		txTypes = append(txTypes, [2]string{pkClient, n})
	}
	for _, tn := range txTypes {
		for _, f := range structFieldNames(c, tn[0], tn[1]) {
			if f.Embedded() {
				continue
			}
			if typeIs(f.Type(), "sync", "Mutex") || typeIs(f.Type(), "sync", "RWMutex") {
				continue
			}
			targets = append(targets, [2]string{strings.TrimPrefix(tn[0], modPath+"/") + "." + tn[1], f.Name()})
		}
	}
	for _, t := range targets {
		acc := li.FieldAccesses(t[0], t[1])
		var common map[string]bool
		writes := 0
		n := 0
		var sites []string
		for _, a := range acc {
			if a.Fresh {
				continue
			}
			n++
			if a.Write {
				writes++
			}
			if common == nil {
				common = copySet(a.Held)
			} else {
				common = intersect(common, a.Held)
			}
			sites = append(sites, fmt.Sprintf("%s %s %s", c.instrPos(a.Instr), map[bool]string{true: "write", false: "read"}[a.Write], heldStr(a.Held)))
		}
		key := c.stableFieldKey(t[0], t[1]) + ":lockset"
		switch {
		case n == 0 || writes == 0:
			r.okTrivial("R3", key, "-", "written only at construction")
		case len(common) == 0:
			r.bad("R3", key, "-", "written after construction and accessed without a common lock: "+strings.Join(sites, "; "))
		default:
			r.ok("R3", key, "-", fmt.Sprintf("%d accesses (%d writes) all under %s", n, writes, heldStr(common)))
		}
	}
	c.checkTimerNeverNil(r, "R4", li)
	// R5: completion is never attempted under a lock the completing function takes itself (self-deadlock:
	// the transaction then never finishes at all), nothing waits under a lock (C28-R7's rule on package transactions)
	c.checkLockDiscipline(r, "R5", li, []string{"transactions"})
	// R4: publish-before-use of AfterFunc timers
	for _, fn := range append(c.repoFuncs("transactions"), c.repoFuncs("client")...) {
		allInstrs(fn, func(i ssa.Instruction) {
			s, ok := i.(*ssa.Store)
			if !ok {
				return
			}
			call, ok := s.Val.(*ssa.Call)
			if !ok || calleeName(&call.Call) != "time.AfterFunc" {
				return
			}
			fa, ok := s.Addr.(*ssa.FieldAddr)
			if !ok {
				return
			}
			r.fn(fn)
			tname := typeStr(derefType(fa.X.Type()))
			fname := fieldName(fa.X.Type(), fa.Field)
			key := fnKey(fn) + ":" + tname + "." + fname + "=AfterFunc"
			assignHeld := intersect(li.HeldAt(call), li.HeldAt(s))
			// uses of the field: method calls on the loaded value
			bad := ""
			for _, a := range li.FieldAccesses(tname, fname) {
				if a.Write {
					continue
				}
				u, ok := a.Instr.(*ssa.UnOp)
				if !ok {
					continue
				}
				deref := false
				if refs := u.Referrers(); refs != nil {
					for _, rf := range *refs {
						if ci, ok := rf.(ssa.CallInstruction); ok && len(ci.Common().Args) > 0 && ci.Common().Args[0] == ssa.Value(u) {
							deref = true
						}
					}
				}
				if !deref {
					continue
				}
				if len(intersect(a.Held, assignHeld)) > 0 {
					continue
				}
				// nil test dominating?
				nilGuard := false
				for _, g := range guardsOf(a.Instr.Block()) {
					x, y, op, isCmp := cmpGuard(g)
					if isCmp && op == token.NEQ && isNilConst(y) {
						if lu, ok := x.(*ssa.UnOp); ok && lu.Op == token.MUL && sameExpr(lu.X, u.X) {
							nilGuard = true
						}
					}
				}
				if !nilGuard {
					bad = fmt.Sprintf("%s dereferences the timer (held %s) while the assignment holds %s and there is no nil test: a callback that fires before the assignment returns uses a nil timer", c.instrPos(a.Instr), heldStr(a.Held), heldStr(assignHeld))
				}
			}
			if bad != "" {
				r.bad("R4", key, c.instrPos(s), bad)
			} else {
				r.ok("R4", key, c.instrPos(s), "every dereference of the timer shares a lock with the assignment ("+heldStr(assignHeld)+") or is nil-guarded")
			}
		})
	}
}

// checkTimerNeverNil: a *time.Timer field that some function dereferences
// without a dominating nil test must have been assigned on every path through
// every constructor of its struct (shared by C18-R4, C25-R4 and C19-R3: "used
// before it is assigned" and "never armed" are the same missing assignment).
func (c *Ctx) checkTimerNeverNil(r *Report, rule string, li *lockInfo) {
	type fld struct{ tname, fname string }
	seen := map[fld]bool{}
	for _, rel := range []string{"transactions", "client", "gateway"} {
		p := c.ByPath[modPath+"/"+rel]
		if p == nil {
			continue
		}
		scope := p.Types.Scope()
		for _, n := range scope.Names() {
			tn, ok := scope.Lookup(n).(*types.TypeName)
			if !ok {
				continue
			}
			st, ok := tn.Type().Underlying().(*types.Struct)
			if !ok {
				continue
			}
			for k := 0; k < st.NumFields(); k++ {
				if typeIs(derefType(st.Field(k).Type()), "time", "Timer") {
					if _, isPtr := st.Field(k).Type().(*types.Pointer); isPtr {
						seen[fld{rel + "." + tn.Name(), st.Field(k).Name()}] = true
					}
				}
			}
		}
	}
	var flds []fld
	for f := range seen {
		flds = append(flds, f)
	}
	sort.Slice(flds, func(i, j int) bool { return flds[i].tname+flds[i].fname < flds[j].tname+flds[j].fname })
	for _, fd := range flds {
		key := fd.tname + "." + fd.fname + ":assigned-before-any-unguarded-use"
		unguarded := ""
		for _, a := range li.FieldAccesses(fd.tname, fd.fname) {
			if a.Write {
				continue
			}
			u, ok := a.Instr.(*ssa.UnOp)
			if !ok {
				continue
			}
			deref := false
			if refs := u.Referrers(); refs != nil {
				for _, rf := range *refs {
					if ci, ok := rf.(ssa.CallInstruction); ok && len(ci.Common().Args) > 0 && ci.Common().Args[0] == ssa.Value(u) {
						deref = true
					}
				}
			}
			if !deref {
				continue
			}
			nilGuard := false
			for _, g := range guardsOf(a.Instr.Block()) {
				x, y, op, isCmp := cmpGuard(g)
				if isCmp && op == token.NEQ && isNilConst(y) {
					if lu, ok := x.(*ssa.UnOp); ok && lu.Op == token.MUL && sameExpr(lu.X, u.X) {
						nilGuard = true
					}
				}
			}
			if !nilGuard {
				unguarded = c.instrPos(a.Instr)
			}
		}
		if unguarded == "" {
			r.ok(rule, key, "-", "every dereference of the timer field is nil-guarded")
			continue
		}
		// constructors: functions allocating the struct
		bad := ""
		nctor := 0
		for _, f := range c.allRepoFuncs() {
			if f.Parent() != nil {
				continue
			}
			var alloc *ssa.Alloc
			allInstrs(f, func(i ssa.Instruction) {
				if a, ok := i.(*ssa.Alloc); ok && a.Heap && typeStr(derefType(a.Type())) == fd.tname {
					alloc = a
				}
			})
			if alloc == nil {
				continue
			}
			nctor++
			isAssign := func(x ssa.Instruction) bool {
				s, ok := x.(*ssa.Store)
				if !ok {
					return false
				}
				fa, ok := s.Addr.(*ssa.FieldAddr)
				return ok && typeStr(derefType(fa.X.Type())) == fd.tname && fieldName(fa.X.Type(), fa.Field) == fd.fname && !isNilConst(s.Val)
			}
			if skip, _ := pathExists(f, nil, func(x ssa.Instruction) bool { _, ok := x.(*ssa.Return); return ok }, isAssign); skip {
				bad = fnKey(f)
			}
		}
		switch {
		case nctor == 0:
			r.undecided(rule, key, unguarded, "the timer is dereferenced without a nil test but no constructor of "+fd.tname+" was found")
		case bad != "":
			r.bad(rule, key, unguarded, "the timer field is dereferenced without a nil test ("+unguarded+") but "+bad+" can return an object whose timer was never assigned: completing or cancelling that transaction panics with a nil pointer dereference")
		default:
			r.ok(rule, key, unguarded, "dereferenced without a nil test, and every path through every constructor assigns it")
		}
	}
}

// mayReachCompletion: g (transitively, static calls) closes a done channel.
func (c *Ctx) mayReachCompletion(g *ssa.Function, depth int) bool {
	found := false
	seen := map[*ssa.Function]bool{}
	var rec func(f *ssa.Function, d int)
	rec = func(f *ssa.Function, d int) {
		if f == nil || seen[f] || d > depth || f.Blocks == nil || found {
			return
		}
		seen[f] = true
		allInstrs(f, func(i ssa.Instruction) {
			if isCloseCall(i) && isDoneChan(i.(ssa.CallInstruction).Common().Args[0]) {
				found = true
			}
		})
		for _, h := range staticCalleesOf(f) {
			rec(h, d+1)
		}
	}
	rec(g, 0)
	return found
}

func (c *Ctx) armsTimer(g *ssa.Function, depth int) bool {
	found := false
	seen := map[*ssa.Function]bool{}
	var rec func(f *ssa.Function, d int)
	rec = func(f *ssa.Function, d int) {
		if f == nil || seen[f] || d > depth || f.Blocks == nil || found {
			return
		}
		seen[f] = true
		allInstrs(f, func(i ssa.Instruction) {
			if ci, ok := i.(ssa.CallInstruction); ok && calleeName(ci.Common()) == "time.AfterFunc" {
				found = true
			}
		})
		for _, h := range staticCalleesOf(f) {
			if strings.HasPrefix(fnPkgPath(h), modPath) {
				rec(h, d+1)
			}
		}
	}
	rec(g, 0)
	return found
}

// ---------------------------------------------------------------------------
// C19

func (c *Ctx) txExplorer() *explorer {
	e := &explorer{c: c, MaxDepth: 4}
	e.Inline = func(g *ssa.Function) bool {
		return fnPkgPath(g) == pkTrans && !c.mayReachCompletion(g, 3)
	}
	e.CellOf = func(v ssa.Value, fr *frame) (string, bool) {
		if u, ok := v.(*ssa.UnOp); ok && u.Op == token.MUL {
			if fa, ok := u.X.(*ssa.FieldAddr); ok {
				return fieldCell(fa), true
			}
		}
		return "", false
	}
	e.CellStore = func(i ssa.Instruction, fr *frame) (string, ssa.Value, bool) {
		if s, ok := i.(*ssa.Store); ok {
			if fa, ok := s.Addr.(*ssa.FieldAddr); ok {
				if _, isBasic := s.Val.Type().Underlying().(*types.Basic); isBasic {
					return fieldCell(fa), s.Val, true
				}
			}
		}
		return "", nil, false
	}
	e.Event = func(i ssa.Instruction, ex *explorer, st *pstate, fr *frame) (string, bool, bool) {
		if f, ok := dynCallOfField(i); ok {
			return "call-field:" + f, true, true
		}
		ci, ok := i.(ssa.CallInstruction)
		if !ok {
			return "", false, false
		}
		cc := ci.Common()
		n := calleeName(cc)
		if n == "time.AfterFunc" {
			d := "?"
			if os := c.origins(cc.Args[0]); len(os) == 1 {
				d = os[0].String()
			}
			return "arm(" + d + ")", true, true
		}
		if g := staticCallee(cc); g != nil && fnPkgPath(g) == pkTrans && c.mayReachCompletion(g, 3) {
			arg := ""
			if len(cc.Args) > 1 {
				arg = ex.evalRet(cc.Args[1], st, fr).String()
			}
			return "complete:" + g.Name() + "(" + arg + ")", true, true
		}
		if n == "(*time.Timer).Stop" {
			return "stop-timer", true, true
		}
		return "", false, false
	}
	return e
}

func checkC19(c *Ctx, r *Report) {
	// the retry timer callback: function of package transactions that calls a retry callback field
	timeoutFn, expSite, cbField, expHelpers := c.retryExpiry()
	if timeoutFn == nil {
		r.undecided("R1", "retry-timer-callback", "-", "no function invoking a retry callback found")
		return
	}
	r.fn(timeoutFn)
	// R4: an expiry that races with completion does not count as a retry: the
	// callback is only reachable through the not-yet-done edge (shared with C18-R2)
	for _, h := range expHelpers {
		r.fn(h)
	}
	allInstrs(timeoutFn, func(i ssa.Instruction) {
		if i == expSite {
			if _, gated := notDoneGuard(guardsOf(i.Block())); gated {
				r.ok("R4", fnKey(timeoutFn)+":no-retry-after-completion", c.instrPos(i), "retry callback only reachable through the not-yet-done edge of a receive on Done()")
			} else {
				r.bad("R4", fnKey(timeoutFn)+":no-retry-after-completion", c.instrPos(i), "a timer expiry after Success()/Fail() still calls the retry callback (up to RetryCount more times): no not-yet-done test guards it")
			}
		}
	})
	// counter and limit cells: the fields compared in the callback
	var numCell, cntCell string
	expFns := append([]*ssa.Function{timeoutFn}, expHelpers...)
	allInstrsOf(expFns, func(i ssa.Instruction) {
		b, ok := i.(*ssa.BinOp)
		if !ok {
			return
		}
		switch b.Op {
		case token.GTR, token.GEQ, token.LSS, token.LEQ:
		default:
			return
		}
		cellOfOperand := func(v ssa.Value) string {
			// either a load of a field or a value stored to a field just before (retryNum++)
			if u, ok := v.(*ssa.UnOp); ok && u.Op == token.MUL {
				if fa, ok := u.X.(*ssa.FieldAddr); ok {
					return fieldCell(fa)
				}
			}
			return ""
		}
		x, y := cellOfOperand(b.X), cellOfOperand(b.Y)
		if x != "" && y != "" {
			numCell, cntCell = x, y
			if b.Op == token.LSS || b.Op == token.LEQ {
				// count <op> num ?
			}
		}
	})
	if numCell == "" {
		r.undecided("R1", "retry-budget-test", c.pos(timeoutFn.Pos()), "no comparison of two transaction fields found in the timer callback")
		return
	}
	// which one is incremented?
	incr := map[string]bool{}
	allInstrsOf(expFns, func(i ssa.Instruction) {
		if s, ok := i.(*ssa.Store); ok {
			if fa, ok := s.Addr.(*ssa.FieldAddr); ok {
				incr[fieldCell(fa)] = true
			}
		}
	})
	if incr[cntCell] && !incr[numCell] {
		numCell, cntCell = cntCell, numCell
	}
	for before := int64(0); before <= 4; before++ {
		for count := int64(0); count <= 4; count++ {
			e := c.txExplorer()
			outs := e.Explore(timeoutFn, map[string]aval{numCell: kint(before), cntCell: kint(count)}, nil)
			key := fmt.Sprintf("expiry[retries-so-far=%d,retry-count=%d]", before, count)
			okc := len(outs) > 0
			detail := ""
			live := 0
			for _, o := range outs {
				cb, arm, failNoMore, otherFail := 0, 0, 0, 0
				for _, ev := range o.Events {
					switch {
					case ev == "call-field:"+cbField:
						cb++
					case strings.HasPrefix(ev, "arm("):
						arm++
					case strings.HasPrefix(ev, "complete:") && strings.Contains(ev, "ErrNoMoreRetries"):
						failNoMore++
					case strings.HasPrefix(ev, "complete:"):
						otherFail++
					}
				}
				if cb == 0 && arm == 0 && failNoMore == 0 && otherFail == 0 {
					continue // already-done path: nothing happens
				}
				live++
				num := o.Cells[numCell]
				if before < count {
					// exactly one callback; then re-arm (or fail with the callback's error, no re-arm)
					if cb != 1 || failNoMore != 0 || !(arm == 1 && otherFail == 0 || arm == 0 && otherFail == 1) {
						okc = false
						detail = "expected one retry callback followed by a re-arm: " + strings.Join(o.Events, " ; ")
					}
				} else {
					if cb != 0 || arm != 0 || failNoMore != 1 {
						okc = false
						detail = "budget exhausted: expected failure with ErrNoMoreRetries and no callback: " + strings.Join(o.Events, " ; ")
					}
				}
				if !num.known || num.i != before+1 {
					okc = false
					detail = fmt.Sprintf("retry counter after the expiry is %s, expected %d", num, before+1)
				}
			}
			if live == 0 {
				okc = false
				detail = "no path on which the expiry is processed"
			}
			if okc {
				r.ok("R1", key, c.pos(timeoutFn.Pos()), firstOutcome(outs))
			} else {
				r.bad("R1", key, c.pos(timeoutFn.Pos()), detail)
			}
		}
	}
	// R2: Proceed
	li := c.newLockInfo()
	n2 := 0
	for _, fn := range c.repoFuncs("transactions") {
		if fn.Name() != "Proceed" || fn.Signature.Recv() == nil {
			continue
		}
		n2++
		r.fn(fn)
		e := c.txExplorer()
		outs := e.Explore(fn, map[string]aval{numCell: kint(3)}, nil)
		key := fnKey(fn) + ":progress-resets-budget"
		okc := len(outs) > 0
		detail := ""
		for _, o := range outs {
			num := o.Cells[numCell]
			arms := len(eventsWithPrefix(o, "arm("))
			if !num.known || num.i != 0 {
				okc = false
				detail = "Proceed leaves the retry counter at " + num.String()
			}
			if arms != 1 {
				okc = false
				detail = fmt.Sprintf("Proceed arms the timer %d times on a path (progress must restart the full RetryDelay): %s", arms, strings.Join(o.Events, " ; "))
			}
		}
		// same lock for the counter reset as in the callback
		var resetHeld, incHeld map[string]bool
		allInstrs(fn, func(i ssa.Instruction) {
			if s, ok := i.(*ssa.Store); ok {
				if fa, ok := s.Addr.(*ssa.FieldAddr); ok && fieldCell(fa) == numCell {
					resetHeld = li.HeldAt(i)
				}
			}
		})
		allInstrsOf(expFns, func(i ssa.Instruction) {
			if s, ok := i.(*ssa.Store); ok {
				if fa, ok := s.Addr.(*ssa.FieldAddr); ok && fieldCell(fa) == numCell {
					incHeld = li.HeldAt(i)
				}
			}
		})
		if len(intersect(resetHeld, incHeld)) == 0 {
			okc = false
			detail = "counter reset and increment do not share a lock: " + heldStr(resetHeld) + " vs " + heldStr(incHeld)
		}
		if okc {
			r.ok("R2", key, c.pos(fn.Pos()), "counter := 0 and exactly one re-arm on every path, under "+heldStr(intersect(resetHeld, incHeld)))
		} else {
			r.bad("R2", key, c.pos(fn.Pos()), detail)
		}
	}
	if n2 == 0 {
		r.undecided("R2", "Proceed", "-", "no Proceed method found")
	}
	// R3: delays
	for _, fn := range c.repoFuncs("transactions") {
		allInstrs(fn, func(i ssa.Instruction) {
			ci, ok := i.(ssa.CallInstruction)
			if !ok || calleeName(ci.Common()) != "time.AfterFunc" {
				return
			}
			r.fn(fn)
			key := fnKey(fn) + ":timer-duration"
			os := c.origins(ci.Common().Args[0])
			if len(os) != 1 {
				r.bad("R3", key, c.instrPos(i), "timer duration has several or no origins")
				return
			}
			o := os[0]
			switch {
			case o.Kind == "param" && len(o.Path) == 0:
				// constructor parameter used directly
				p := o.Root.(*ssa.Parameter)
				r.ok("R3", key, c.instrPos(i), "duration = constructor parameter "+p.Name())
			case (o.Kind == "param" || o.Kind == "freevar") && len(o.Path) == 1:
				// a field: must be stored only in a constructor from a parameter, unmodified
				fld := o.Path[0]
				tname := typeStr(derefType(o.RootType()))
				okc := true
				why := ""
				cnt := 0
				for _, g := range c.repoFuncs("transactions") {
					allInstrs(g, func(j ssa.Instruction) {
						s, ok := j.(*ssa.Store)
						if !ok {
							return
						}
						fa, ok := s.Addr.(*ssa.FieldAddr)
						if !ok || typeStr(derefType(fa.X.Type())) != tname || fieldName(fa.X.Type(), fa.Field) != fld {
							return
						}
						cnt++
						so := c.origins(s.Val)
						if len(so) != 1 || so[0].Kind != "param" || len(so[0].Path) != 0 || !isFreshObject(fa.X) {
							okc = false
							why = "field " + fld + " is written from " + exprStr(s.Val) + " in " + fnKey(g)
						}
					})
				}
				if okc && cnt > 0 {
					r.ok("R3", key, c.instrPos(i), "duration = field "+fld+", set once in the constructor from its parameter, unmodified")
				} else {
					r.bad("R3", key, c.instrPos(i), "retry delay is not the constructor's value: "+why)
				}
			default:
				r.bad("R3", key, c.instrPos(i), "timer duration derives from "+o.String())
			}
		})
	}
	// timed transaction: callback fails with ErrTimeout
	for _, fn := range c.repoFuncs("transactions") {
		if fn.Parent() == nil {
			continue
		}
		isTimerCb := false
		if p := fn.Parent(); p != nil {
			allInstrs(p, func(i ssa.Instruction) {
				if ci, ok := i.(ssa.CallInstruction); ok && calleeName(ci.Common()) == "time.AfterFunc" {
					if mc, ok := ci.Common().Args[1].(*ssa.MakeClosure); ok && mc.Fn == fn {
						isTimerCb = true
					}
				}
			})
		}
		if !isTimerCb {
			continue
		}
		r.fn(fn)
		key := fnKey(fn) + ":timeout-error"
		okc := false
		allInstrs(fn, func(i ssa.Instruction) {
			ci, ok := i.(ssa.CallInstruction)
			if !ok {
				return
			}
			g := staticCallee(ci.Common())
			if g == nil || g.Name() != "Fail" || len(ci.Common().Args) < 2 {
				return
			}
			if u, ok := ci.Common().Args[1].(*ssa.UnOp); ok {
				if gl, ok := u.X.(*ssa.Global); ok && gl.Name() == "ErrTimeout" {
					okc = true
				}
			}
		})
		r.cond(okc, "R3", key, c.pos(fn.Pos()), "timer callback fails the transaction with ErrTimeout", "the timed transaction's timer callback does not fail with ErrTimeout")
	}
	// the timed transaction's timer is armed on every path through its constructor: "fails with a timeout
	// exactly when it is not completed within its timeout" holds for every timeout value, also 0
	if p := c.SSA[pkTrans].Func("NewTimedTransaction"); p != nil {
		var af ssa.Instruction
		allInstrs(p, func(i ssa.Instruction) {
			if ci, ok := i.(ssa.CallInstruction); ok && calleeName(ci.Common()) == "time.AfterFunc" {
				af = i
			}
		})
		if af == nil {
			r.undecided("R3", "NewTimedTransaction:timer-on-every-path", c.pos(p.Pos()), "no AfterFunc in the constructor")
		} else {
			skip, _ := pathExists(p, nil, func(x ssa.Instruction) bool { _, ok := x.(*ssa.Return); return ok }, func(x ssa.Instruction) bool { return x == af })
			r.cond(!skip, "R3", "NewTimedTransaction:timer-on-every-path", c.instrPos(af), "every path through the constructor arms the timer",
				"a path through NewTimedTransaction returns without arming the timer: for that timeout value an uncompleted transaction never fails with ErrTimeout (or fails without a timer that later completions still dereference)")
		}
	}
}

// handRolledTransactions: struct types of package rel that embed
// *transactions.TransactionBase directly (they drive their own timers and
// state instead of building on RetryTransaction / TimedTransaction) and own a
// *time.Timer; today the client's sleep transaction.
func (c *Ctx) handRolledTransactions(rel string) []string {
	var out []string
	p := c.ByPath[modPath+"/"+rel]
	if p == nil {
		return nil
	}
	scope := p.Types.Scope()
	for _, n := range scope.Names() {
		tn, ok := scope.Lookup(n).(*types.TypeName)
		if !ok {
			continue
		}
		st, ok := tn.Type().Underlying().(*types.Struct)
		if !ok {
			continue
		}
		base, timer := false, false
		for k := 0; k < st.NumFields(); k++ {
			f := st.Field(k)
			if f.Embedded() && typeIs(derefType(f.Type()), pkTrans, "TransactionBase") {
				base = true
			}
			if typeIs(derefType(f.Type()), "time", "Timer") {
				timer = true
			}
		}
		// its own timers are what makes its fields shared between goroutines (timer callbacks vs. receive loop / API caller)
		if base && timer {
			out = append(out, tn.Name())
		}
	}
	sort.Strings(out)
	return out
}

// retryExpiry locates the retry transaction's timer-expiry function: the function of package transactions from which
// the retry callback field is called - directly, or through private helpers that have exactly one static call site in
// the package (the expiry split into steps). site is the instruction IN fn that leads to the callback (the dynamic
// call itself, or the call of the helper); helpers lists the functions in between.
func (c *Ctx) retryExpiry() (fn *ssa.Function, site ssa.Instruction, cbField string, helpers []*ssa.Function) {
	for _, f := range c.repoFuncs("transactions") {
		allInstrs(f, func(i ssa.Instruction) {
			if fl, ok := dynCallOfField(i); ok && strings.Contains(strings.ToLower(fl), "retry") {
				fn, site, cbField = f, i, fl
			}
		})
	}
	for d := 0; d < 3 && fn != nil; d++ {
		if _, gated := notDoneGuard(guardsOf(site.Block())); gated {
			break
		}
		var callers []ssa.Instruction
		for _, g := range c.repoFuncs("transactions") {
			allInstrs(g, func(i ssa.Instruction) {
				if ci, ok := i.(ssa.CallInstruction); ok && staticCallee(ci.Common()) == fn {
					callers = append(callers, i)
				}
			})
		}
		if len(callers) != 1 {
			break
		}
		helpers = append(helpers, fn)
		fn, site = callers[0].Parent(), callers[0]
	}
	return
}

func allInstrsOf(fs []*ssa.Function, fn func(ssa.Instruction)) {
	for _, f := range fs {
		allInstrs(f, fn)
	}
}
