#!/bin/sh
# Build the checker from files on disk only (module cache; no network).
set -e
cd "$(dirname "$0")/checker"
export GOFLAGS=-mod=mod GOPROXY=off GOSUMDB=off GOTOOLCHAIN=local
unset GOWORK
mkdir -p ../bin
go build -o ../bin/bisqcheck .
