#!/usr/bin/env python3
"""Runs every implemented check against scratch copies of /repo with one patch
applied each (seeded changes, self-test mutants, reverted fix: commits,
behaviour-preserving refactors) and records which rule instances fire.

usage: tools_matrix.py [-j N] [-o out.json] <kind>[:<name>]...
  kinds: seeded   /verif/seeded/<id>/patch.diff       (expect: the target property fires)
         mutants  /verif/mutants/<prop>/<name>.patch  (expect: <prop> fires)
         reverts  fix: commits of /repo reverted      (expect: something fires)
         neutral  /verif/neutral/<name>.diff          (expect: nothing fires)

Nothing here is a registered check; it is the harness that measures the checks.
Scratch copies live under $TMPDIR (default /tmp) and are removed immediately."""
import json, os, re, shutil, subprocess, sys, tempfile, glob
from concurrent.futures import ThreadPoolExecutor

V = '/verif'
ENV = dict(os.environ, GOFLAGS='-mod=mod', GOPROXY='off', GOSUMDB='off', GOTOOLCHAIN='local')
ENV.pop('GOWORK', None)


def sh(cmd, cwd=None, inp=None):
    p = subprocess.run(cmd, cwd=cwd, input=inp, capture_output=True, text=True, env=ENV)
    return p.returncode, p.stdout + p.stderr


def run_one(item):
    name, patch, reverse, props = item
    d = tempfile.mkdtemp(prefix='bqmx.')
    res = {'name': name, 'fired': {}, 'status': 'ok'}
    try:
        os.makedirs(d + '/repo'); os.makedirs(d + '/verif')
        sh(['rsync', '-a', '--exclude', '.git', '/repo/', d + '/repo/'])
        shutil.copy(V + '/known_findings.json', d + '/verif/')
        if patch is not None:
            cmd = ['patch', '-p1', '-s', '--no-backup-if-mismatch'] + (['-R'] if reverse else [])
            rc, out = sh(cmd, cwd=d + '/repo', inp=patch)
            if rc != 0:
                res['status'] = 'apply-failed'; res['detail'] = out[-400:]
                return res
        rc, out = sh(['go', 'build', './...'], cwd=d + '/repo')
        if rc != 0:
            res['status'] = 'build-failed'; res['detail'] = out[-400:]
            return res
        rc, out = sh([V + '/bin/bisqcheck', '-property', props, '-tier', 'quick', '-repo', d + '/repo', '-verif', d + '/verif'])
        out = out.replace(d + '/', '')
        for line in out.splitlines():
            m = re.match(r'^(\S+): (VIOLATION|UNDECIDED) (C\d\d)-(\S+) \[(.*?)\]: (.*)$', line)
            if m:
                res['fired'].setdefault(m.group(3), []).append(
                    {'pos': m.group(1), 'status': m.group(2).lower(), 'rule': m.group(3) + '-' + m.group(4),
                     'construct': m.group(5), 'detail': m.group(6)[:300]})
        summ = re.findall(r'^(C\d\d) quick: (\d+) obligations, (\d+) discharged, (\d+) known findings, (\d+) violations', out, re.M)
        res['summary'] = {s[0]: {'obligations': int(s[1]), 'violations': int(s[4])} for s in summ}
        if not summ:
            res['status'] = 'checker-failed'; res['detail'] = out[-600:]
    finally:
        shutil.rmtree(d, ignore_errors=True)
    return res


def main():
    args = sys.argv[1:]
    jobs, outp, props = 6, None, 'all'
    items = []
    while args:
        a = args.pop(0)
        if a == '-j': jobs = int(args.pop(0)); continue
        if a == '-o': outp = args.pop(0); continue
        if a == '-p': props = args.pop(0); continue
        kind, _, sel = a.partition(':')
        if kind == 'clean':
            items.append(('clean', None, False, props))
        elif kind == 'seeded':
            for p in sorted(glob.glob(V + '/seeded/*/patch.diff')):
                n = p.split('/')[-2]
                if sel and not re.match(sel, n): continue
                items.append(('seeded/' + n, open(p).read(), False, props))
        elif kind == 'mutants':
            for p in sorted(glob.glob(V + '/mutants/*/*.patch')):
                n = '/'.join(p.split('/')[-2:])
                if sel and not re.match(sel, n): continue
                items.append(('mutants/' + n, open(p).read(), False, props))
        elif kind == 'neutral':
            for p in sorted(glob.glob(V + '/neutral/*.diff')):
                n = os.path.basename(p)
                if sel and not re.match(sel, n): continue
                items.append(('neutral/' + n, open(p).read(), False, props))
        elif kind == 'reverts':
            rc, out = sh(['git', '-C', '/repo', 'log', '--format=%h %s', '--grep=^fix:'])
            for line in out.strip().splitlines():
                h, _, subj = line.partition(' ')
                if sel and not re.match(sel, h): continue
                rc, diff = sh(['git', '-C', '/repo', 'show', '--format=', h])
                items.append(('revert/' + h + ' ' + subj, diff, True, props))
        else:
            print('unknown kind', kind); sys.exit(2)
    with ThreadPoolExecutor(max_workers=jobs) as ex:
        results = list(ex.map(run_one, items))
    for r in results:
        fired = {p: sorted(set(x['rule'] for x in v)) for p, v in r['fired'].items()}
        print('%-60s %-13s %s' % (r['name'][:60], r['status'], json.dumps(fired) if fired else '-'))
    if outp:
        json.dump(results, open(outp, 'w'), indent=1)


if __name__ == '__main__':
    main()
