#!/usr/bin/env python3
"""usage: tools_mkmut.py <prop> <name> <file> <<< 'OLD\n====\nNEW'
Creates /verif/mutants/<prop>/<name>.patch replacing OLD by NEW (exactly once) in /repo/<file>
(without touching /repo), checks that it still builds."""
import sys, os, subprocess, tempfile, shutil
prop, name, rel = sys.argv[1:4]
txt = sys.stdin.read()
old, new = txt.split('\n====\n')
new = new.rstrip('\n') if not old.endswith('\n') else new
src = open('/repo/' + rel).read()
old = old.rstrip('\n'); new = new.rstrip('\n')
assert src.count(old) == 1, "OLD occurs %d times" % src.count(old)
d = tempfile.mkdtemp(prefix='/tmp/mkmut.')
try:
    subprocess.check_call(['rsync', '-a', '--exclude', '.git', '/repo/', d + '/a/'])
    os.makedirs(d + '/b/' + os.path.dirname(rel), exist_ok=True)
    open(d + '/a/' + rel + '.new', 'w').write(src.replace(old, new))
    p = subprocess.run(['diff', '-u', '--label', 'a/' + rel, '--label', 'b/' + rel, d + '/a/' + rel, d + '/a/' + rel + '.new'], capture_output=True, text=True)
    patch = p.stdout
    os.replace(d + '/a/' + rel + '.new', d + '/a/' + rel)
    env = dict(os.environ, GOFLAGS='-mod=readonly', GOPROXY='off')
    b = subprocess.run(['go', 'build', './...'], cwd=d + '/a', env=env, capture_output=True, text=True)
    if b.returncode != 0:
        print("DOES NOT BUILD:\n" + b.stderr); sys.exit(1)
    os.makedirs('/verif/mutants/' + prop, exist_ok=True)
    open('/verif/mutants/%s/%s.patch' % (prop, name), 'w').write(patch)
    print("wrote /verif/mutants/%s/%s.patch" % (prop, name))
finally:
    shutil.rmtree(d)
