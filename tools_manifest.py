#!/usr/bin/env python3
"""Regenerates /verif/MANIFEST.json from the table below (kept in sync by hand
with the properties the checker implements: `bin/bisqcheck -list`)."""
import json, subprocess, sys

TECH = "custom static analysis over go/packages + go/ssa (x/tools v0.29.0): "

CHECKS = {
 "C01": dict(tech=TECH+"per-field origin tracing (backward SSA dataflow), dominance guards evaluated over the 2-bit QoS / topic-ID-type domains, single-send path rule, who-may-write rule for the registered-topics map",
   text="For every function of package gateway that builds an MQTT PUBLISH from a client PUBLISH, every path is covered: field-by-field origin equality, lawful topic-name producers only (so an unknown or reserved topic ID cannot be forwarded), exactly one forward. Structural, value-independent; it decides the translation clauses of the property for all inputs, not paho's encoder.",
   note="Trusted: go/types, go/ssa, paho's PublishPacket encoder, atomicity of sync.Map.Load. The rule recognises the translation by its types (objects of *mqtt.PublishPacket handed to the function that calls ControlPacket.Write), not by names.", ref="4/C01"),
 "C07": dict(tech=TECH+"finite-domain path exploration of both dispatchers (abstract execution per session state x packet type x flag valuation, same-package calls inlined), reachability on the extracted session automaton",
   text="The session automaton is extracted from every path of the dispatchers, so the admission clause is decided for all packet orders before a successful connect: no non-Disconnected state, no CONNACK accepted and no forwarding is reachable from Disconnected except through the broker's CONNACK with return code 0 (and the documented QoS -1 PUBLISH when auth is off).",
   note="Trusted: go/ssa; cells are identified per type (one live packet/transaction per dispatcher invocation); ClientState only via Get/Set (C29). Does not decide that the broker CONNACK belongs to this session's CONNECT.", ref="4/C07"),
 "C08": dict(tech=TECH+"extraction of the connect transaction's phase transition relation by finite-domain path exploration, exhaustive search of that relation; origin tracing and all-paths store rule for the credential fields",
   text="Decides for all orders of CONNECT/AUTH/WILLTOPIC/WILLMSG: no MQTT CONNECT before an accepted PLAIN AUTH when auth is on; credentials written only there, from DecodePlain's results, on every continuing path; never written by client packets when auth is off; unknown method answered with 'not supported' and no CONNECT.",
   note="Trusted: go/ssa; the phase field is found by role (integer field of the struct holding the *ConnectPacket that its methods compare with constants). Does not decide what the broker does with the credentials.", ref="4/C08"),
 "C09": dict(tech=TECH+"same phase transition relation as C08 searched for will-protocol order and at-most-one-CONNECT; origin tracing for CONNECT fields; dispatcher exploration for the CONNACK mapping",
   text="Decides ordering and multiplicity over all packet orders (WILLTOPICREQ -> WILLTOPIC -> WILLMSGREQ -> WILLMSG -> one CONNECT; nothing of it without the will flag), field faithfulness of the CONNECT, and the CONNACK code mapping for every broker return code explored (0..6, 0x80, 0xfe, 0xff). A CONNECT from a client that is not sleeping always starts a new exchange and is never answered locally with 'accepted'.",
   note="Trusted: go/ssa. Timeouts are C10's.", ref="4/C09"),
 "C11": dict(tech=TECH+"who-may-write rule for connections, per-state path exploration of the MQTT-SN sender and of the PINGREQ/CONNECT/PINGRESP handlers (event-order rule), loop-shape rule for the flush, lockset (must-hold locks per field access) for the buffer",
   text="Nothing-sent-while-asleep and the wake-up order (Awake, flush in index order, clear, PINGRESP, Asleep again) are decided on every path of the handlers for every state; the race clause by a lockset that is schedule independent. Delivered-once under retry timers firing while asleep is a history property and is not decided. Every iteration of the flush loop reaches the send; the session-end goroutine sends nothing to a sleeping client.",
   note="Trusted: go/ssa. The sleep buffer is found by type ([]packets.Packet field of a gateway struct). Known finding: the buffer has no lock (C11-R3).", ref="4/C11"),
 "C12": dict(tech=TECH+"path exploration of the DISCONNECT(duration) and PINGREQ handlers over a grid of (duration, keep-alive) valuations; origin tracing of the timer's stop function and of the pinger period",
   text="Only the wiring clauses: PINGREQ forwarded when active/awake, a pinger armed on every path whenever duration > keep-alive, stopped by its own stop function after exactly the announced duration, pinging every keep-alive seconds. The 1.5x keep-alive window itself is a bound over timed histories that no static argument in reach decides; sleep cycles not covered by a pinger are a known finding. The timer that stops the sleep pinger is never disarmed.",
   note="Trusted: go/ssa. Grid of valuations is finite (keep-alive 10; durations 1..1000) but the guards are comparisons of the two cells only.", ref="4/C12"),
 "C14": dict(tech=TECH+"session automaton extraction (path exploration of both dispatchers), type-flow sets for every argument of the MQTT sender, who-may-write rule for connections",
   text="Decides the property at the structural level for all histories and termination causes: a *DisconnectPacket can reach the MQTT sender only on the path handling a client DISCONNECT with Duration 0, every other send site can only carry other packet types, and nothing else writes to a connection. The MQTT DISCONNECT send is dominated by Duration == 0 of the client's DISCONNECT for every duration value.",
   note="Trusted: go/ssa, paho's encoder and NewControlPacket (constant code -> type table frozen in the checker). Type-flow is field-based and fails closed on unknown flows.", ref="4/C14"),
 "C20": dict(level="proof", tech="panic-site enumeration over go/ssa of the closure of ReadPacket + the Go compiler's prove pass as oracle (-d=ssa/check_bce) + three replayed arguments (io.Reader contract, header-form invariant, guarded length-prefixed slice) + result-or-error discipline by path exploration",
   text="Every instruction that can panic while decoding a datagram is an obligation and each is discharged by a named argument; obligations == discharged is required, so a green result is a proof (relative to the trusted base) that no byte string makes ReadPacket panic. The argument does not depend on the 8192 bound.",
   note="Trusted base: go/types, go/ssa, the installed Go compiler's bounds-check elimination, the io.Reader contract (the one assumed obligation), fmt not panicking. Thorough adds GOARCH=386.", ref="4/C20"),
 "C21": dict(tech=TECH+"codec layout extraction by finite-domain path exploration of every Pack/Unpack (28 types x variants), structural mask/shift extraction for flags, sibling comparison encoder vs decoder, header threshold evaluation, shape rule for the short-topic codec",
   text="Encoder/decoder table agreement (fields, order, offsets, widths, flag masks/shifts, length formula, type tags, header form threshold, short-topic byte order). Necessary for round-trip equality and sufficient for all fields handled value-independently; equality for every concrete value is not decided. Also: decoders cannot panic (C20's bounds obligations re-run) and the smallest legal packets (one-octet variable fields) are accepted at the same offsets.",
   note="Trusted: go/ssa; variable-length fields are given length 3 while exploring (layout does not depend on it).", ref="4/C21"),
 "C22": dict(tech=TECH+"decoder layout extraction (as C21) compared with a specification table frozen in the checker; exploration of Header.Unpack/HeaderLength for both header forms; shape rule for ReadPacket's body slice",
   text="Position faithfulness of every decoded field for every accepted datagram, and the body offset equal to the parsed header size for both header forms whatever the length value. Every read of a datagram uses a buffer allocated for that read (decoded packets keep slices of it).",
   note="Trusted: go/ssa and the transcription of MQTT-SN 1.2 section 5 / doc/auth.md into the checker's table.", ref="4/C22"),
 "C18": dict(tech=TECH+"dominance (gate) rule on the completion sites, lockset analysis (must-hold locks per instruction + locks held at all call sites) for the timer callback versus Success/Fail and for every timer/state field, path rule 'nothing after completion', publish-before-use rule for AfterFunc timers",
   text="At-most-once completion, callback-before-Done, no retry after completion on the same path and atomically with respect to Success/Fail, and the race / nil clauses are decided for all schedules because locksets and dominance do not depend on the schedule. The sleep transaction's unsynchronised fields and the exported State/Data fields are known findings. The completion callback is called nowhere but at a completion site.",
   note="Trusted: go/ssa. Locks are identified per (type, field), not per instance. Accesses on a freshly allocated object inside its constructor are exempt.", ref="4/C18"),
 "C19": dict(tech=TECH+"path exploration of the retry timer callback and of Proceed over a 5x5 grid of (retries so far, retry count) valuations; origin tracing of every timer duration; lockset for the counter",
   text="Counting and wiring clauses: callback iff retries so far < retry count, else ErrNoMoreRetries; +1 per expiry; Proceed resets and re-arms once on every path; durations are the constructor's values; a finished transaction's expiry is a no-op. Wall-clock statements are not decided.",
   note="Trusted: go/ssa. The budget test is a comparison of two cells, so the grid covers every ordering and the off-by-one neighbours.", ref="4/C19"),
 "C29": dict(tech=TECH+"lockset analysis of every field access of IDSequence and TransactionStore (write vs read lock mode), escape rule for fields and maps, atomic-only rule for ClientState, constant-propagation evaluation of the loop-free Next at its boundary valuations",
   text="Linearizability of each individual call follows from 'whole body is one critical section on private state' which is decided for all interleavings; Next's arithmetic is additionally evaluated at the boundary valuations (including max = 0xFFFF wrap-around) - not for every value.",
   note="Trusted: go/ssa, sync and sync/atomic. R4 interprets the SSA of Next abstractly in the checker (uint16 wrap modelled); it does not run the program.", ref="4/C29"),
 "C02": dict(tech=TECH+"per-field origin tracing through the positional constructor, path exploration of the broker-PUBLISH case with symbolic topic IDs ((ID, type) pairing, register-before-publish), exploration of the REGACK continuation per (QoS class, return code, transaction state), who-may-write rule for the registered-topics map",
   text="Translation faithfulness and the ordering REGISTER -> accepted REGACK -> map update -> PUBLISH are decided on every path. That the client really accepted the REGISTER, and delivery under loss, are history properties left to C16/C26.",
   note="Trusted: go/ssa. Lookup consistency (GetTopicID vs GetTopicName) is C05's rule.", ref="4/C02"),
 "C03": dict(tech=TECH+"session automaton extraction for the one-to-one table, per-field origin tracing for message IDs / filters / QoS, guard analysis of the SUBACK mapping, exploration of the wildcard test over its two predicates, key-agreement rule for completion callbacks",
   text="Per-case packet type, message ID, filter resolution, requested/granted QoS, acceptance edge (return code <= 2) and topic ID are decided for all inputs; timing between exchanges is not. A packet that is not forwarded may only be answered by a refusal (non-accepted return code), never by an acknowledgement the broker did not send.",
   note="Trusted: go/ssa; the reserved topic-ID type is excluded for SUBSCRIBE/UNSUBSCRIBE only because the decoder's own exploration shows it is rejected (checked on every run).", ref="4/C03"),
 "C04": dict(tech=TECH+"constant evaluation of the allocator range, provenance (origin) rule for every handed-out topic ID, exhaustive exploration of the allocator wrapper over (sticky flag, overflow, predefined collision) valuations with symbolic IDs, who-may-write rule for the registered-topics map",
   text="Range, provenance, collision check on the very ID returned, refusal on overflow and stickiness of exhaustion are decided structurally; the arithmetic of IDSequence.Next is C29's. At every allocator call the ID is used only where the call's error was compared with nil (or in a refusing reply).",
   note="Trusted: go/ssa. The allocator loop is explored for up to two probes (a third iteration repeats the same blocks).", ref="4/C04"),
 "C05": dict(tech=TECH+"exhaustive exploration of GetTopicName over the 16 presence combinations of its four map lookups; derivation rule for every 'found' return of GetTopicID (range key + value equality + shadowing lookup in the client's own map)",
   text="Both clauses are decided for all maps, client IDs and names because the argument is value independent (presence = comma-ok results; entry values unconstrained).",
   note="Trusted: go/ssa; YAML parsing is out of scope.", ref="4/C05"),
 "C06": dict(tech=TECH+"origin classification of every transaction-store key (who chose the ID), dominance rule 'stored only after a failed Get of the same key', compare-and-delete rule for completion callbacks, comma-ok rule for dispatch assertions, key-agreement rule constructor vs Store site",
   text="Decides whether independence of the two ID spaces is enforced by construction. It is not (one uint16 map shared by both sides' exchanges, unconditional deletes, overwriting stores): these are recorded as known findings, each keyed by its construct; a new sharing site, a new unconditional delete, an unchecked assertion or a free-ID search that does not probe its candidate is a new violation.",
   note="Trusted: go/ssa. Behaviour of one particular interleaving is not decided.", ref="4/C06"),
 "C10": dict(tech=TECH+"constant evaluation of the connect transaction's timeout, must-pass-through path rule for the watcher spawn, exploration of the watcher over the possible transaction errors, defer/return path rule for the broker connection",
   text="The reaping mechanism is wired on every path and for every stopping point of the exchange (the argument does not depend on which packet was last). The numeric bound (5 s + poll interval) is scheduler/timer behaviour and is not decided. The timed transaction's timer is never re-armed or reset after construction.",
   note="Trusted: go/ssa, time.AfterFunc, errgroup semantics (first non-nil error cancels the group).", ref="4/C10"),
 "C13": dict(tech=TECH+"must-pass-through path rules on the session function (Wait / deferred cancel / deferred Close), enumeration and classification of every blocking select, receive and send (Done() case and the root of its context), cycle rule for the connection wrapper's retry loop, path rule for the receive loops, session-automaton exploration for the shutdown DISCONNECT",
   text="No-leak / join / close structure for every termination cause; the numeric bound and OS-level blocking inside net.Conn are not decided. The client-connection context is cancelled on every path of the shutdown goroutine; receive loops return non-nil after a failed read.",
   note="Trusted: go/ssa, errgroup, context semantics.", ref="4/C13"),
 "C16": dict(tech=TECH+"identity/DUP rule on every gateway retry callback (path rule + type-flow of the stored step data), step-table extraction by exploring each handler per transaction state, origin tracing of the forwarded message IDs, shared rules for the REGISTER step and for the client's PUBREL/QoS 2 receive side",
   text="Each retransmission is the stored packet with DUP set, the per-step tables (required state, packet, side, next state) are the protocol's, wrong-state packets are inert, the budget stop is final and both endpoints have the handlers loss recovery depends on. End-to-end delivery for a given loss pattern and handler-exactly-once are history properties and are not decided. The client's PUBACK/PUBREC carry the PUBLISH's message ID and the PUBREL step that delivers also completes the exchange.",
   note="Trusted: go/ssa. State constants are discovered from the code (the states the broker-PUBLISH case enters), not assumed.", ref="4/C16"),
 "C17": dict(tech=TECH+"exploration of the client dispatcher per (trigger, stored transaction type, transaction state); identity/DUP rule on every client retry callback; origin tracing of the PUBCOMP message ID; error-propagation rule; store-before-send event-order rule",
   text="Success only on the acknowledgement in the right state, DUP and unchanged packet on retransmission, PUBREL always answered whatever is stored under its ID, step errors not dropped, transaction registered before the PUBLISH leaves. 'Within the retry budget' is timing and not decided. The receive loop never runs application callbacks synchronously, and the client never forgets a topic ID (so the PUBREL handler's lookup cannot start failing).",
   note="Trusted: go/ssa.", ref="4/C17"),
 "C27": dict(tech=TECH+"dominance rule for the callback selection (guarded by the matcher on that handler's route), exhaustive exploration of one recursion step of the matcher over its five predicates (an inductive argument over the route), key-agreement and inverse-function rules for store/delete, path rule delete-before-Success",
   text="Only matching filters' callbacks run, unsubscribe removes exactly what subscribe stored, and the matcher's single step is the MQTT rule for '/', '+', '#' for all predicate valuations (which by structural induction is the matching relation). The store/delete helpers are unconditional (one filter is one subscription).",
   note="Trusted: go/ssa, strings.Split/Join. UTF-8 aspects of names are out of scope.", ref="4/C27"),
 "C28": dict(tech=TECH+"enumeration/classification of every blocking select, receive and send of package client (Done() case, context root), path rules (failed send -> Fail before the wait; Close -> cancel on every path), lock-balance rule at every return, key-agreement rule for completion callbacks, exploration of the sleep transaction's timer functions",
   text="Absence of an unconditional wait for all gateway behaviours, and the structural causes of hangs (leaked lock, stale store slot, missed cancel). Numeric bounds and user callbacks are not decided. No gateway packet rewinds a retry budget (Proceed only in the state awaiting that packet).",
   note="Trusted: go/ssa.", ref="4/C28"),
 "C33": dict(tech=TECH+"dominance rules on the keep-alive loop's select cases (Stop / Reset only for Active / created stopped / tick pings), who-may-write rule for the client state, guard rule for ping retransmissions, slot-order rule for PINGRESP routing",
   text="Gating and routing structure. Ping retransmissions that are not state-gated and the PINGRESP slot order (keep-alive steals the sleep transaction's PINGRESP) are genuine defects recorded as known findings; 'at least once per KeepAlive period' is timing and not decided. Every path through the tick case pings; the sleep transaction's reply handlers only log in states that do not await the reply.",
   note="Trusted: go/ssa, time.Ticker.", ref="4/C33"),
 "C30": dict(tech=TECH+"sibling comparison of the three CLI action closures: each explored for the four (file flag given, option flag given) combinations with symbolic map values, checked against the specified feature vector; shape rule for Merge",
   text="All three tools read the file flag with ReadPredefinedTopicsFile, parse the option flag with ParsePredefinedTopicOptions, merge the options INTO the file mapping and hand that mapping to the gateway/client configuration and to their own lookups. YAML decoding is not decided. A topic ID parsed from option text is refused when it does not fit 16 bits.",
   note="Trusted: go/ssa, urfave/cli flag lookup.", ref="4/C30"),
 "C31": dict(tech=TECH+"exhaustive finite-domain exploration of each tool's action closure over (--dtls, --insecure value/presence, --auth or --user presence/emptiness); guard rule and per-iteration event-order rule for CONNECT/AUTH in the client library",
   text="All flag/env combinations are decided (the abstract domain is finite and fully enumerated; env aliases are part of the flag declarations), plus AUTH-iff-user and AUTH-right-after-every-CONNECT for two loop iterations of the connect routine. That DTLS actually encrypts is not decided. The AUTH constructor returns a packet on every path.",
   note="Trusted: go/ssa, urfave/cli (Bool/IsSet semantics, environment aliases).", ref="4/C31"),
 "C15": dict(tech=TECH+"allocation-site rule for the accept loop (captured variables, per-iteration handler construction, own broker dial), who-may-write rule for everything shared between sessions (configuration struct, predefined-topics maps, configured slices and their aliases), no-mutable-package-state rule",
   text="Data isolation for all interleavings: a handler shares with other sessions only the configuration, the predefined-topics maps and configured byte slices, and the rule shows that no instruction reachable in the repository writes to any of them after construction; no package-level variable is assigned outside init. No shared mutable state implies no interference through memory; interference through resource exhaustion or through the broker is not decided. Also: no session code writes through a pointer held in the shared configuration (interprocedural taint), and a failed DTLS handshake of one peer never ends the accept loop.",
   note="Trusted: go/ssa. Shared objects are identified by type and field (configuration struct fields, map-typed PredefinedTopics, []byte fields assigned from configuration), not by names of helpers.", ref="4/C15"),
 "C23": dict(tech=TECH+"constructor-discipline rule for every composite literal of a packet type, type-flow sets of both MQTT-SN senders against the per-direction type table and the peer's dispatcher cases, codec length-formula rule (shared with C21), who-may-write rule for connections, must-pass-through size guard in the senders (constant <= transport maximum) and uint16 narrowing rule",
   text="Form, direction, length-field and size-bound clauses for all histories: only constructor/decoder-built packets reach a sender, each side only sends types the other side handles, the length field equals the bytes written for every type and variant, one packet per datagram through the single sender, and every datagram passes a comparison against the transport maximum before it is written. Connection wrappers forward one Write as one transport Write.",
   note="Trusted: go/ssa, bytes.Buffer. Type-flow is field-based and fails closed on unknown flows.", ref="4/C23"),
 "C24": dict(tech=TECH+"taint rules (sources: fields of decoded MQTT-SN packets; sinks: fields of MQTT packets reaching the MQTT sender; sanitisers: dominating guards evaluated over the 2-bit QoS domain and over the two wildcard predicates), phase-relation search shared with C09 for the will order, constant rules for protocol name/level and packet construction",
   text="No client-controlled value reaches a broker-bound field unsanitised: QoS fields bounded to 0-2, PUBLISH topics from lawful producers and wildcard-free, SUBSCRIBE/UNSUBSCRIBE filters non-empty, CONNECT will fields consistent with the will flag, PasswordFlag only with UsernameFlag, every packet built by NewControlPacket with the constant code of its asserted type. UTF-8 well-formedness of names and paho's encoder are not decided.",
   note="Trusted: go/ssa, paho's encoder and NewControlPacket table.", ref="4/C24"),
 "C25": dict(tech=TECH+"panic-site enumeration over packages gateway, client, transactions, topics, util: type-flow argument for every unchecked assertion (per transaction family and guarding state), compiler prove pass (-d=ssa/check_bce) or dominating length guard for index/slice, lockset for shared plain maps and for pointer fields reset to nil",
   text="Every instruction that can panic on a packet-handling path is enumerated and needs a named argument, so a green result covers all packet sequences for the enumerated panic sources (failed assertion, index/slice out of range, explicit panic, nil pointer left by a concurrent reset, concurrent map write). Panics inside dependencies and resource exhaustion are not decided. The sleep transaction's DISCONNECT pointer reset is a known finding. The packet pointer the client's PUBREL handler dereferences is stored on every path of the handler that creates the transaction.",
   note="Trusted: go/ssa, the installed compiler's bounds-check elimination.", ref="4/C25"),
 "C32": dict(tech=TECH+"sibling comparison of all topic resolver sites of client library, gateway and CLI tools (callee + argument origins per topic-ID type), origin tracing of the client identity on both ends, C05's lookup-consistency rules and C21's short-topic codec rule re-run",
   text="Both endpoints compute the ID<->name mapping with the same functions on the same key for every topic-ID type and every configuration; that both ends were given the same configuration is the operator's responsibility and is not decided. The client delivers received PUBLISHes under a name that comes straight from its registry / GetTopicName / DecodeShortTopic.",
   note="Trusted: go/ssa.", ref="4/C32"),
 "C34": dict(tech=TECH+"who-may-send rule over the reverse call graph: every call site of the MQTT sender is classified by the goroutine roots and callbacks that can execute it (receive loops, retry callbacks, sleep pinger; anything else is a violation); C12's timer/pinger rules, C09's keep-alive rules, C13's receive-loop rules and C10's reaping rules re-run",
   text="Only the structural necessary conditions of the bound: the gateway never sends to the broker on its own (every send is caused by a client packet, a broker packet, a budget-bounded retransmission or the duration-bounded sleep pinger), so a silent client means a silent broker connection that the assumed broker drops; the pinger is bounded by the announced duration; the broker is told the client's keep-alive and zero is refused; a broker close ends the session; the connect exchange always has its timer. The numeric bounds of the statement (connect timeout, 1.5x keep-alive, sleep duration + 1.5x keep-alive) are properties of timed histories under an assumption about the broker: no static argument in reach decides them and they are NOT claimed.",
   note="Trusted: go/ssa; static calls, closures and bound-method values inside package gateway (a function value that escapes in another way is reported, not ignored). The broker's behaviour is the property's own assumption.", ref="4/C34"),
 "C26": dict(tech=TECH+"agreement rules between the two implementations: mutual dispatcher coverage by type-flow, both sides' exchange tables re-checked against the protocol table (rules of C03, C16, C17, C27 re-run), exploration of the client's sleep step per client state against the gateway's sleep automaton, symbolic exploration of the client's REGISTER case against the gateway's allocation site",
   text="Agreement conditions between client library and gateway, each necessary for interoperation: mutual handler coverage, the same (request, reply, state) tables on both sides, the same meaning of the sleep cycle (gateway asleep again after the wake-up PINGRESP; client's Sleep() from awake is silent, from active announces the duration), the same meaning of topic registration. The end-to-end statement - every API call succeeds and every matching message reaches its handler for every call sequence - is a history property of two cooperating state machines and is NOT decided. Known finding: one name can have two registrations pending at the gateway while the client refuses a second ID for a known name. Topic IDs are never forgotten or rebound on either side; message IDs stay in 1..0xFFFF.",
   note="Trusted: go/ssa. Both sides are checked against the protocol's tables frozen in the checker, so agreement is decided at the level of packet types, reply routing and states, not of timing.", ref="4/C26"),
}

CODEC = set('C01 C02 C03 C04 C05 C06 C07 C08 C09 C11 C12 C13 C14 C16 C17 C23 C24 C27 C31 C32 C33'.split())

NA = {
}

def main():
    props = [json.loads(l) for l in open('/verif/properties.jsonl')]
    checks = []
    for p in props:
        pid = p['id']
        if pid not in CHECKS:
            continue
        c = CHECKS[pid]
        checks.append({
            "property_id": pid,
            "quick_cmd": "./check %s quick" % pid,
            "thorough_cmd": "./check %s thorough" % pid,
            "evidence_file": "/verif/evidence/%s.json" % pid,
            "replay_cmd_template": "cat {path}",
            "engine": "bisqcheck",
            "level_claimed": {"category": c.get("level", "other"), "text": c["text"], "design_ref": "DESIGN.md section " + c["ref"]},
            "level_note": c["note"] + (" Rule RC re-files, for the packet types this property's statement reads or writes, the wire-format obligations decided by C21/C22's code (decoder = specification table, encoder = decoder, type tags, header form), because a rule about a decoded field only holds if the decoder reads that field faithfully." if pid in CODEC else ""),
            "technique": c["tech"],
        })
    na = []
    for p in props:
        pid = p['id']
        if pid in CHECKS:
            continue
        na.append({"property_id": pid, "reason": NA.get(pid, "check not implemented yet (work in progress)")})
    fixes = subprocess.run(['git', '-C', '/repo', 'log', '--format=%h %s', '--grep=^fix:'], capture_output=True, text=True).stdout.strip().split('\n')
    m = {
        "version": 1,
        "setup_cmd": "./setup.sh",
        "hooks": {"guard": "verif", "enable": "none: the checks read /repo's source (static analysis); no file in /repo carries the guard",
                  "baseline_off_cmd": "cd /repo && go test -mod=mod -vet=off -count=1 ./...",
                  "source_commits": [f.split()[0] for f in fixes if f], "add_only": True},
        "engines": [{"name": "bisqcheck", "path": "checker/", "serves_properties": sorted(CHECKS),
                     "kind_free_text": "repository-specific static analyser (go/packages + go/ssa + call graph, x/tools v0.29.0); one binary, one rule set per property"}],
        "checks": checks,
        "notes": "All checks are static: they load /repo's current working tree, never execute it. source_commits lists the unguarded 'fix:' commits (no hooks exist). Known findings: /verif/known_findings.json.",
        "not_applicable": na,
    }
    json.dump(m, open('/verif/MANIFEST.json', 'w'), indent=1)
    print("checks:", len(checks), "not_applicable:", len(na))

if __name__ == '__main__':
    main()
