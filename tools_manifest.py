#!/usr/bin/env python3
"""Regenerates /verif/MANIFEST.json from the table below (kept in sync by hand
with the properties the checker implements: `bin/bisqcheck -list`)."""
import json, subprocess, sys

TECH = "custom static analysis over go/packages + go/ssa (x/tools v0.29.0): "

CHECKS = {
 "C01": dict(tech=TECH+"per-field origin tracing (backward SSA dataflow), dominance guards evaluated over the 2-bit QoS / topic-ID-type domains, single-send path rule, who-may-write rule for the registered-topics map",
   text="For every function of package gateway that builds an MQTT PUBLISH from a client PUBLISH, every path is covered: field-by-field origin equality, lawful topic-name producers only (so an unknown or reserved topic ID cannot be forwarded), exactly one forward. Structural, value-independent; it decides the translation clauses of the property for all inputs, not paho's encoder.",
   note="Trusted: go/types, go/ssa, paho's PublishPacket encoder, atomicity of sync.Map.Load. The rule recognises the translation by its types (objects of *mqtt.PublishPacket handed to the function that calls ControlPacket.Write), not by names.", ref="4/C01"),
 "C07": dict(tech=TECH+"finite-domain path exploration of both dispatchers (abstract execution per session state x packet type x flag valuation, same-package calls inlined), reachability on the extracted session automaton",
   text="The session automaton is extracted from every path of the dispatchers, so the admission clause is decided for all packet orders before a successful connect: no non-Disconnected state, no CONNACK accepted and no forwarding is reachable from Disconnected except through the broker's CONNACK with return code 0 (and the documented QoS -1 PUBLISH when auth is off).",
   note="Trusted: go/ssa; cells are identified per type (one live packet/transaction per dispatcher invocation); ClientState only via Get/Set (C29). Does not decide that the broker CONNACK belongs to this session's CONNECT.", ref="4/C07"),
 "C08": dict(tech=TECH+"extraction of the connect transaction's phase transition relation by finite-domain path exploration, exhaustive search of that relation; origin tracing and all-paths store rule for the credential fields",
   text="Decides for all orders of CONNECT/AUTH/WILLTOPIC/WILLMSG: no MQTT CONNECT before an accepted PLAIN AUTH when auth is on; credentials written only there, from DecodePlain's results, on every continuing path; never written by client packets when auth is off; unknown method answered with 'not supported' and no CONNECT.",
   note="Trusted: go/ssa; the phase field is found by role (integer field of the struct holding the *ConnectPacket that its methods compare with constants). Does not decide what the broker does with the credentials.", ref="4/C08"),
 "C09": dict(tech=TECH+"same phase transition relation as C08 searched for will-protocol order and at-most-one-CONNECT; origin tracing for CONNECT fields; dispatcher exploration for the CONNACK mapping",
   text="Decides ordering and multiplicity over all packet orders (WILLTOPICREQ -> WILLTOPIC -> WILLMSGREQ -> WILLMSG -> one CONNECT; nothing of it without the will flag), field faithfulness of the CONNECT, and the CONNACK code mapping for every broker return code explored (0..6, 0x80, 0xfe, 0xff).",
   note="Trusted: go/ssa. Timeouts are C10's.", ref="4/C09"),
}

NA = {
 "C26": "quantifies over all API call sequences of two cooperating state machines plus a broker with end-to-end effects; no shape-level rule implies it. Its only structural necessary condition (mutual handler coverage) is C23-R2; the concrete mismatches named by its anchors are decided where their mechanism lives (C11-R2, C02).",
 "C34": "a wall-clock bound under an assumption about an external broker; every mechanism it rests on is a rule of C09 (zero keep-alive refused), C12 (sleep pinger) or C13 (broker close ends the session); the numeric bounds themselves are properties of timed histories that no static argument available here can bound.",
}

def main():
    props = [json.loads(l) for l in open('/verif/properties.jsonl')]
    checks = []
    for p in props:
        pid = p['id']
        if pid not in CHECKS:
            continue
        c = CHECKS[pid]
        checks.append({
            "property_id": pid,
            "quick_cmd": "./check %s quick" % pid,
            "thorough_cmd": "./check %s thorough" % pid,
            "evidence_file": "/verif/evidence/%s.json" % pid,
            "replay_cmd_template": "cat {path}",
            "engine": "bisqcheck",
            "level_claimed": {"category": c.get("level", "other"), "text": c["text"], "design_ref": "DESIGN.md section " + c["ref"]},
            "level_note": c["note"],
            "technique": c["tech"],
        })
    na = []
    for p in props:
        pid = p['id']
        if pid in CHECKS:
            continue
        na.append({"property_id": pid, "reason": NA.get(pid, "check not implemented yet (work in progress)")})
    fixes = subprocess.run(['git', '-C', '/repo', 'log', '--format=%h %s', '--grep=^fix:'], capture_output=True, text=True).stdout.strip().split('\n')
    m = {
        "version": 1,
        "setup_cmd": "./setup.sh",
        "hooks": {"guard": "verif", "enable": "none: the checks read /repo's source (static analysis); no file in /repo carries the guard",
                  "baseline_off_cmd": "cd /repo && go test -mod=mod -vet=off -count=1 ./...",
                  "source_commits": [f.split()[0] for f in fixes if f], "add_only": True},
        "engines": [{"name": "bisqcheck", "path": "checker/", "serves_properties": sorted(CHECKS),
                     "kind_free_text": "repository-specific static analyser (go/packages + go/ssa + call graph, x/tools v0.29.0); one binary, one rule set per property"}],
        "checks": checks,
        "notes": "All checks are static: they load /repo's current working tree, never execute it. source_commits lists the unguarded 'fix:' commits (no hooks exist). Known findings: /verif/known_findings.json.",
        "not_applicable": na,
    }
    json.dump(m, open('/verif/MANIFEST.json', 'w'), indent=1)
    print("checks:", len(checks), "not_applicable:", len(na))

if __name__ == '__main__':
    main()
