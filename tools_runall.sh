#!/bin/bash
# run every implemented check (tier $1, default quick) in parallel; print the summary lines
tier=${1:-quick}
cd /verif
./check C01 quick >/dev/null 2>&1   # make sure the binary is built once
ids=$(python3 -c "import json;print(' '.join(c['property_id'] for c in json.load(open('MANIFEST.json'))['checks']))")
out=$(mktemp -d)
for id in $ids ${EXTRA}; do
  ( ./check $id $tier >$out/$id.txt 2>&1; echo "exit=$?" >>$out/$id.txt ) &
  while [ $(jobs -r | wc -l) -ge ${JOBS:-6} ]; do sleep 0.2; done
done
wait
for id in $ids ${EXTRA}; do
  echo "$(tail -2 $out/$id.txt | tr '\n' ' ')"
  grep -c '^VIOLATION' $out/$id.txt >/dev/null && grep '^VIOLATION\|UNDECIDED' $out/$id.txt | head -5
done
rm -rf $out
