#!/bin/sh
# usage: tools_mut.sh <prop> <patch.diff|-R:commit> ; runs the check on a scratch copy of /repo with the patch applied
set -e
prop="$1"; patch="$2"
d=$(mktemp -d /tmp/bqmut.XXXXXX)
trap 'rm -rf "$d"' EXIT
mkdir -p "$d/repo" "$d/verif"
rsync -a --exclude .git /repo/ "$d/repo/"
cp /verif/known_findings.json "$d/verif/"
case "$patch" in
  -R:*) (cd /repo && git show "${patch#-R:}" ) | (cd "$d/repo" && patch -R -p1 -s) ;;
  *) (cd "$d/repo" && patch -p1 -s < "$patch") ;;
esac
(cd "$d/repo" && GOFLAGS=-mod=readonly GOPROXY=off go build ./... ) || { echo "MUTANT DOES NOT BUILD"; exit 3; }
set +e
/verif/bin/bisqcheck -property "$prop" -tier quick -repo "$d/repo" -verif "$d/verif" | sed "s|$d/||g" | grep -v '^VIOLATION' | cut -c1-400
rc=$?
exit 0
